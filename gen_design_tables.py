#!/usr/bin/env python3
"""Regenerate the generated tables of DESIGN.md §0 (findings, state per property) from
known_findings.json, MANIFEST.json and the props files. Run after ./gen_manifest.py."""
import json, os, re, sys
HERE = os.path.dirname(os.path.abspath(__file__))
sys.path.insert(0, HERE)
from vplib.common import theorem_names

def findings_table():
    d = json.load(open(os.path.join(HERE, "known_findings.json")))["findings"]
    rows = ["| id | property | state | what |", "|---|---|---|---|"]
    for f in d:
        w = re.sub(r"^fixed: property=\S+ \S+ ", "", f["what"]).replace("|", "\\|")[:230]
        st = f["status"] + ((" " + f.get("commit", "")) if f["status"] == "fixed" else "")
        rows.append("| %s | %s | %s | %s |" % (f["id"], f["property"], st, w))
    nfix = sum(1 for f in d if f["status"] == "fixed"); nkn = sum(1 for f in d if f["status"] == "known")
    return "\n".join(rows) + "\n\n(%d entries: %d fixed, %d known; aliases counted separately.)\n" % (len(d), nfix, nkn)

def state_table():
    m = json.load(open(os.path.join(HERE, "MANIFEST.json")))
    rows = ["| id | level | theorems in props/ | deciding technique |", "|---|---|---|---|"]
    for c in m["checks"]:
        pid = c["property_id"]
        pf = os.path.join(HERE, "coq/theories/props/%s.v" % pid)
        n = len(theorem_names(pf)) if os.path.exists(pf) else 0
        partial = " (partial)" if re.match(r"\s*partial", c["level_claimed"]["text"], re.I) else ""
        rows.append("| %s | %s%s | %d | %s |" % (pid, c["level_claimed"]["category"], partial, n, c.get("technique", "").replace("|", "/")))
    na = m.get("not_applicable") or []
    return "\n".join(rows) + "\n\nNot applicable: %s.\n" % (", ".join(x["property_id"] for x in na) or "none")

p = os.path.join(HERE, "DESIGN.md")
s = open(p).read()
a = s.index("<!-- FINDINGS-TABLE -->"); b = s.index("<!-- /FINDINGS-TABLE -->")
s = s[:a] + "<!-- FINDINGS-TABLE -->\n" + findings_table() + s[b:]
a = s.index("<!-- STATE-TABLE -->"); b = s.index("<!-- /STATE-TABLE -->")
s = s[:a] + "<!-- STATE-TABLE -->\n" + state_table() + s[b:]
open(p, "w").write(s)
print("DESIGN.md tables regenerated")
