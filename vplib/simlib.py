"""Helpers around the deterministic simulator `qv_sim` (harness/src/bin/qv_sim.rs, format in
harness/SIM_FORMAT.md): Quiver program templates parameterised by size, schedule generators, summary
parsing, Python-level oracles, ddmin shrinking of schedules.

Every random choice takes an explicit `rng` (random.Random) so that runs are reproducible from
VERIF_SEED."""
import itertools, re
from vplib import sexpr

WORKER_COUNTS = [1, 2, 3, 5]
QUANTA = [1, 2, 3, 7, 1000]

# ----------------------------------------------------------------------------- case lines


def case_line(prog, workers=1, quantum=1000, schedule="", opts=""):
    """One stdin line for qv_sim. `prog` is a source string or a list of REPL lines; `schedule` a
    string of actions (e.g. "(w 0) (e)" or "(random 7 300 (starve 10))")."""
    lines = [prog] if isinstance(prog, str) else list(prog)
    return "(case (workers %d) (quantum %d) (program %s) (schedule %s) (opts %s))" % (
        workers, quantum, " ".join(sexpr.quote(l) for l in lines), schedule, opts)


def random_schedule(rng, steps=None, tick=False):
    """A seeded random walk executed inside qv_sim (it knows which actions are enabled)."""
    seed = rng.getrandbits(48)
    steps = steps or rng.choice([40, 120, 400, 1500])
    starve = rng.choice([0, 5, 10, 20, 35])
    partial = rng.choice([0, 10, 30, 60])
    s = "(random %d %d (starve %d) (partial %d)" % (seed, steps, starve, partial)
    if tick:
        s += " (tick %d)" % rng.choice([0, 5, 20])
    return s + ")"


def random_cfg(rng):
    return rng.choice(WORKER_COUNTS), rng.choice(QUANTA)


def bfs_alphabet(workers):
    """Action alphabet for exhaustive enumeration of short schedules."""
    acts = ["(e)"]
    for j in range(workers):
        ks = ["0"] * workers
        ks[j] = "1"
        acts.append("(e %s)" % " ".join(ks))          # exactly one event, of worker j
    for i in range(workers):
        acts += ["(w %d)" % i, "(w %d 1)" % i, "(w %d 0)" % i]
    return acts


def bfs_schedules(workers, depth):
    """All action sequences of length exactly `depth` (the simulator completes each fairly)."""
    alpha = bfs_alphabet(workers)
    for seq in itertools.product(alpha, repeat=depth):
        yield " ".join(seq)


# ----------------------------------------------------------------------------- summary parsing

class Summary:
    """Parsed summary line of qv_sim."""

    def __init__(self, line):
        self.line = line
        self.ok = line.startswith("(result")
        self.fields = {}
        if not self.ok:
            return
        try:
            items = sexpr.parse("(" + line + ")")
        except Exception:
            self.ok = False
            return
        for it in items:
            if isinstance(it, list) and it:
                self.fields[it[0]] = it[1:]
        self.result = self.fields.get("result", [])
        self.procs = {p[1]: (p[2], p[3]) for p in self.fields.get("per-process", [])}   # path -> (status, result)
        self.quiescent = self.fields.get("quiescent", ["false"])[0] == "true"
        self.hang = self.fields.get("hang")
        self.panics = self.fields.get("panics", [])
        self.errs = self.fields.get("errs", [])
        self.oracles = {o[0]: o[1] for o in self.fields.get("oracles", [])}
        self.stats = {s[0]: int(s[1]) for s in self.fields.get("stats", [])}
        self.pids = {p[0]: p[1] for p in self.fields.get("pids", [])}
        self.placement = {p[0]: p[1] for p in self.fields.get("placement", [])}
        self.mailboxes = {m[0]: int(m[1]) for m in self.fields.get("mailbox-left", [])}
        self.schedule = self.fields.get("schedule")

    def oracle_failures(self, name):
        v = self.oracles.get(name, "ok")
        return [] if v == "ok" else v[1:]

    def observable(self):
        """What C03 compares across schedules: line results + per-process (status, result)."""
        m = re.match(r"(\(result.*?\)) \(quiescent ", self.line)
        return m.group(1) if m else self.line

    def nontrivial(self):
        """A schedule is non-trivial when it contains a partial-visibility action or a starvation
        stretch (>= 3 consecutive actions during which an enabled component was not scheduled)."""
        return self.stats.get("partial", 0) > 0 or self.stats.get("starve-stretches", 0) > 0


def unparse(x):
    if isinstance(x, list):
        return "(" + " ".join(unparse(i) for i in x) + ")"
    if x == "" or re.search(r'[\s()"]', x):
        return sexpr.quote(x)
    return x


def schedule_text(actions):
    return " ".join(unparse(a) for a in actions)


# ----------------------------------------------------------------------------- value helpers

def cons_list(v):
    """Decode a dumped `Nil | Cons[x, tail]` value into a python list (head first)."""
    out = []
    while isinstance(v, list) and len(v) >= 3 and v[0] == "t" and v[1] == "Cons":
        out.append(v[3])
        v = v[4]
    return out


def as_int(v):
    return int(v[1]) if isinstance(v, list) and v and v[0] == "i" else None


def pair(v):
    """`[a, b]` of ints -> (a, b)"""
    if isinstance(v, list) and v[0] == "t" and len(v) == 5:
        return as_int(v[3]), as_int(v[4])
    return None


def err_class(result):
    """(err Class "msg") -> (Class, msg)"""
    if isinstance(result, list) and result and result[0] == "err":
        return result[1], result[2] if len(result) > 2 else ""
    return None


# ----------------------------------------------------------------------------- program templates
# Each template returns a dict:
#   name, src (one REPL line), confluent (bool), size (dict), nprocs,
#   check(summary) -> list of problems for the Python-level `messages` oracle (may be absent)

LOG2 = "'log = Nil | Cons[['int, 'int], ^]\n"
LOG1 = "'ilog = Nil | Cons['int, ^]\n"
RECV2 = ("recv = #['int, 'log] { | =[0, acc] => acc | =[n, acc] => { m = !#['int, 'int], "
         "[[n, 1] __integer_subtract__, Cons[m, acc]] ^ } },\n")
RECV1 = ("recv1 = #['int, 'ilog] { | =[0, acc] => acc | =[n, acc] => { m = !#'int, "
         "[[n, 1] __integer_subtract__, Cons[m, acc]] ^ } },\n")


def _check_log(entries, expected_by_sender, who):
    """entries: list of (sender, seq) in receive order. Exactly-once + per-sender FIFO."""
    probs = []
    seen = {}
    for e in entries:
        if e is None:
            probs.append("%s: malformed log entry" % who)
            continue
        s, q = e
        seen.setdefault(s, []).append(q)
    for s, n in expected_by_sender.items():
        got = seen.get(s, [])
        if sorted(got) != list(range(n)):
            probs.append("%s: sender %s: expected each of %d messages exactly once, got %s" % (who, s, n, got))
        elif got != list(range(n)):
            probs.append("%s: sender %s: per-sender order violated: %s" % (who, s, got))
    for s in seen:
        if s not in expected_by_sender:
            probs.append("%s: message from unexpected sender %s" % (who, s))
    return probs


def t_fan_in(rng, k=None, m=None):
    k = k or rng.randint(2, 5)
    m = m or rng.randint(1, 4)
    main_sends = rng.random() < 0.5
    total = k * m + (m if main_sends else 0)
    src = LOG2 + RECV2
    src += "r = [%d, Nil] @recv,\n" % total
    src += "snd = #'int { " + ", ".join("[$, %d] r" % j for j in range(m)) + ", Ok },\n"
    src += ", ".join("s%d = %d @snd" % (i, i) for i in range(1, k + 1)) + ",\n"
    if main_sends:
        src += ", ".join("[0, %d] r" % j for j in range(m)) + ",\n"
    src += "!r"
    expected = {i: m for i in range(1, k + 1)}
    if main_sends:
        expected[0] = m

    def check(s):
        st, res = s.procs.get("0.0", ("missing", "-"))
        if st != "done":
            return ["receiver 0.0 did not finish: %s" % st]
        log = [pair(x) for x in reversed(cons_list(res[1]))]
        probs = _check_log(log, expected, "receiver 0.0")
        if s.mailboxes.get("0.0", 0):
            probs.append("receiver 0.0: %d messages left in the mailbox (duplicate delivery)" % s.mailboxes["0.0"])
        return probs

    return dict(name="fan_in", src=src, confluent=False, size=dict(k=k, m=m), nprocs=k + 2, check=check)


def t_fan_out(rng, k=None, m=None):
    k = k or rng.randint(2, 5)
    m = m or rng.randint(1, 4)
    via_proc = rng.random() < 0.5      # the single sender is a spawned process instead of the main one
    src = LOG2 + RECV2
    src += ", ".join("r%d = [%d, Nil] @recv" % (i, m) for i in range(k)) + ",\n"
    sends = ", ".join("[%d, %d] r%d" % (7, j, i) for j in range(m) for i in range(k))
    if via_proc:
        src += "s = @#{ " + sends + ", Ok },\n"
    else:
        src += sends + ",\n"
    src += "[" + ", ".join("!r%d" % i for i in range(k)) + "]"

    def check(s):
        probs = []
        for i in range(k):
            path = "0.%d" % i
            st, res = s.procs.get(path, ("missing", "-"))
            if st != "done":
                probs.append("receiver %s did not finish: %s" % (path, st))
                continue
            log = [pair(x) for x in reversed(cons_list(res[1]))]
            probs += _check_log(log, {7: m}, "receiver " + path)
            if s.mailboxes.get(path, 0):
                probs.append("receiver %s: messages left in the mailbox" % path)
        return probs

    return dict(name="fan_out", src=src, confluent=True, size=dict(k=k, m=m), nprocs=k + 1 + via_proc, check=check)


def t_pipeline(rng, stages=None, m=None):
    stages = stages or rng.randint(1, 4)
    m = m or rng.randint(1, 5)
    src = LOG1 + RECV1
    src += "sink = [%d, Nil] @recv1,\n" % m
    nxt = "sink"
    for k in range(stages, 0, -1):
        src += ("st%d = #'int { | =0 => Ok | =n => { x = !#'int, [x, %d] __integer_add__ %s, "
                "[n, 1] __integer_subtract__ ^ } },\n" % (k, k * 10, nxt))
        src += "p%d = %d @st%d,\n" % (k, m, k)
        nxt = "p%d" % k
    src += ", ".join("%d %s" % (j, nxt) for j in range(m)) + ",\n!sink"
    add = sum(k * 10 for k in range(1, stages + 1))

    def check(s):
        st, res = s.procs.get("0.0", ("missing", "-"))
        if st != "done":
            return ["sink did not finish: %s" % st]
        got = [as_int(x) for x in reversed(cons_list(res[1]))]
        if got != [j + add for j in range(m)]:
            return ["pipeline output %s != expected %s" % (got, [j + add for j in range(m)])]
        return []

    return dict(name="pipeline", src=src, confluent=True, size=dict(stages=stages, m=m), nprocs=stages + 2, check=check)


def t_request_reply(rng, clients=None, rounds=None):
    clients = clients or rng.randint(1, 4)
    rounds = rounds or rng.randint(1, 3)
    total = clients * rounds
    src = ("srvf = #'int { | =0 => Ok | =n => { !#[(@'int), 'int] =[c, x], [x, x] __integer_add__ c, "
           "[n, 1] __integer_subtract__ ^ } },\n")
    src += "srv = %d @srvf,\n" % total
    body = "[&., $] srv, a1 = !#'int"
    for r in range(2, rounds + 1):
        body += ", [&., a%d] srv, a%d = !#'int" % (r - 1, r)
    body += ", a%d" % rounds
    src += "cl = #'int { " + body + " },\n"
    src += ", ".join("c%d = %d @cl" % (i, i + 1) for i in range(clients)) + ",\n"
    src += "[" + ", ".join("!c%d" % i for i in range(clients)) + ", !srv]"

    def check(s):
        probs = []
        for i in range(clients):
            path = "0.%d" % (i + 1)
            st, res = s.procs.get(path, ("missing", "-"))
            want = (i + 1) * 2 ** rounds
            if st != "done" or as_int(res[1] if isinstance(res, list) and len(res) > 1 else None) != want:
                probs.append("client %s: %s %s, expected %d" % (path, st, res, want))
        return probs

    return dict(name="request_reply", src=src, confluent=True, size=dict(clients=clients, rounds=rounds),
                nprocs=clients + 2, check=check)


def _tree(rng, depth, fanout, counter, binaries):
    counter[0] += 1
    ident = counter[0]
    if depth == 0:
        if binaries and rng.random() < 0.5:
            return "@#{ 0x%02x%02x }" % (ident % 256, (ident * 7) % 256)
        return "@#{ %d }" % ident
    kids = [_tree(rng, depth - 1 if rng.random() < 0.8 else 0, fanout, counter, binaries) for _ in range(fanout)]
    binds = ", ".join("c%d = %s" % (i, k) for i, k in enumerate(kids))
    return "@#{ %s, N[%s, %d] }" % (binds, ", ".join("!c%d" % i for i in range(len(kids))), ident)


def t_await_tree(rng, depth=None, fanout=None, binaries=None):
    depth = depth or rng.randint(1, 3)
    fanout = fanout or rng.randint(1, 3)
    binaries = rng.random() < 0.5 if binaries is None else binaries
    counter = [0]
    src = "root = %s,\n!root" % _tree(rng, depth, fanout, counter, binaries)
    return dict(name="await_tree", src=src, confluent=True, size=dict(depth=depth, fanout=fanout, bin=int(binaries)),
                nprocs=counter[0] + 1)


def t_await_chain(rng, depth=None):
    depth = depth or rng.randint(1, 6)
    body = "@#{ %d }" % depth
    for d in range(depth - 1, 0, -1):
        body = "@#{ c = %s, [!c, %d] __integer_add__ }" % (body, d)
    src = "root = %s,\n!root" % body
    return dict(name="await_chain", src=src, confluent=True, size=dict(depth=depth), nprocs=depth + 1)


def t_late_await(rng, k=None):
    """Await processes that have (very probably) already finished, after some unrelated
    message round-trips; each process is awaited once (awaiting twice is F9 for binaries)."""
    k = k or rng.randint(1, 4)
    rounds = rng.randint(1, 4)
    binaries = rng.random() < 0.4
    src = "echo = @#{ " + ", ".join("!#(@'int) =c%d, %d c%d" % (j, j + 1, j) for j in range(rounds)) + ", Ok },\n"
    src += ", ".join("q%d = @#{ %s }" % (i, ("0x%02x" % (i + 1)) if binaries else str(i + 10)) for i in range(k)) + ",\n"
    # the round-trips are done by a helper process (a top-level `&.` is not receivable: finding F70)
    src += "d = @#{ " + ", ".join("&. echo, !#'int" for _ in range(rounds)) + " },\n!d,\n"
    src += "[" + ", ".join("!q%d" % i for i in range(k)) + "]"
    return dict(name="late_await", src=src, confluent=True, size=dict(k=k, rounds=rounds, bin=int(binaries)), nprocs=k + 3)


def t_select_mix(rng):
    """Selects mixing receive / process / timeout sources. Not confluent in general (timeouts
    race); used with the quiescence / no-internal-error oracles only."""
    variant = rng.randrange(4)
    t = rng.choice([0, 1, 5, 50])
    if variant == 0:
        src = "slow = @#{ !#'int }, r = ! [slow, %d], 7 slow, [r, !slow]" % t
    elif variant == 1:
        src = ("w = @#{ ! [#'int, %d] }, " % t) + rng.choice(["5 w, ", ""]) + "!w"
    elif variant == 2:
        src = ("recvr = @#{ fast = @#{ 99 }, ! [#'int, fast, %d] }, " % t) + rng.choice(["42 recvr, ", ""]) + "!recvr"
    else:
        src = ("p = @#{ ! [#'int { =42 => Ok }] }, " + ", ".join("%d p" % x for x in rng.sample([10, 20, 42, 30], rng.randint(1, 4)))
               + ", ! [p, %d]" % rng.choice([5, 100]))
    return dict(name="select_mix", src=src, confluent=False, size=dict(variant=variant, t=t), nprocs=3)


def t_selective_receive(rng, m=None):
    """Per-sender FIFO must survive selective (filtered) receives: one sender queues m messages and a
    sentinel; the receiver first waits for the sentinel with a filter (so everything is queued behind
    each other), takes 1-3 messages out of the MIDDLE of its mailbox with filters, then receives the
    rest unfiltered. The rest must still come out in send order."""
    m = m or rng.randint(3, 8)
    picks = rng.sample(range(m), rng.randint(1, min(3, m - 1)))
    vals = [100 + i for i in range(m)]
    via_proc = rng.random() < 0.5
    body = "! [#'int { =999 => Ok }] =last"
    for n, j in enumerate(picks):
        body += ", ! [#'int { =%d => Ok }] =f%d" % (vals[j], n)
    rest = [v for i, v in enumerate(vals) if i not in picks]
    for n in range(len(rest)):
        body += ", !#'int =a%d" % n
    names = ["f%d" % n for n in range(len(picks))] + ["a%d" % n for n in range(len(rest))] + ["last"]
    body += ", [" + ", ".join(names) + "]"
    src = "p = @#{ %s },\n" % body
    sends = ", ".join("%d p" % v for v in vals + [999])
    src += ("s = @#{ %s, Ok },\n" % sends) if via_proc else (sends + ",\n")
    src += "!p"
    expected = [vals[j] for j in picks] + rest + [999]

    def check(s):
        st, res = s.procs.get("0.0", ("missing", "-"))
        if st != "done":
            return ["receiver 0.0 did not finish: %s" % st]
        v = res[1] if isinstance(res, list) and len(res) > 1 else None
        got = [as_int(x) for x in v[3:]] if isinstance(v, list) and v and v[0] == "t" else None
        probs = []
        if got != expected:
            probs.append("receiver 0.0: per-sender order violated after a selective receive: got %s, expected %s" % (got, expected))
        if s.mailboxes.get("0.0", 0):
            probs.append("receiver 0.0: %d messages left in the mailbox" % s.mailboxes["0.0"])
        return probs

    return dict(name="selective_receive", src=src, confluent=True, size=dict(m=m, picks=len(picks), via_proc=int(via_proc)),
                nprocs=2 + via_proc, check=check)


def t_stale_failure_then_spawn(rng):
    """A select on a process p and a timeout completes by the timeout (p is still blocked); p then gets
    its go message and FAILS; the former awaiter meanwhile spawns (it is parked between its SpawnAction
    and the NotifySpawn) and awaits the new processes. The late failure notification of p is stale: the
    former awaiter no longer awaits p and must run to its normal result (C15), and must not be woken
    out of `spawning` (C04: a process leaves `spawning` only through its NotifySpawn)."""
    t = rng.choice([0, 1, 5])
    k = rng.randint(1, 3)
    fail = rng.choice(["[1, 0] __integer_divide__", "[g, 0] __integer_modulo__"])
    inner = rng.random() < 0.4          # the former awaiter is a spawned process instead of the main one
    body = "! [p, %d] =a, 1 p" % t
    for i in range(k):
        body += ", q%d = @#{ %d }" % (i, 7 + i)
    body += ", [" + ", ".join("!q%d" % i for i in range(k)) + "]"
    src = "p = @#{ !#'int =g, %s },\n" % fail
    if inner:
        src += "m = @#{ %s },\n!m" % body
    else:
        src += body
    want = ["ok", ["t", "-", ["-"] * k] + [["i", str(7 + i)] for i in range(k)]]

    def check(s):
        probs = []
        st, res = s.procs.get("0.0", ("missing", "-"))
        if st != "failed":
            probs.append("the failing process 0.0 is %s %s, expected failed" % (st, unparse(res)))
        if s.result != [want]:
            probs.append("the former awaiter's result is %s, expected %s (it does not await the failed process any more)" % (unparse(s.result), unparse(want)))
        return probs

    return dict(name="stale_failure_then_spawn", src=src, confluent=False, size=dict(t=t, spawns=k, inner=int(inner)),
                nprocs=2 + k + inner, check=check, tick=True)


def t_resource_handoff(rng):
    """open / use / send / spawn-capture / terminate histories (C14 exploration, F10 shows here)."""
    awaited = rng.random() < 0.5
    variant = rng.randrange(3)
    if variant == 0:      # owner uses and terminates
        src = "p = @#{ r = 1 __test_open__, [r, 5] __test_use__ }, " + ("!p" if awaited else "7")
    elif variant == 1:    # hand-off by message, old owner then violates
        src = ("q = @#{ !#\\TestRes =r, [r, 7] __test_use__ }, "
               "p = @#{ r = 1 __test_open__, r q, Ok }, [!p, !q]")
    else:                 # hand-off by spawn capture
        src = "r = 1 __test_open__, c = @#{ [r, 3] __test_use__ }, " + ("!c" if awaited else "9")
    return dict(name="resource_handoff", src=src, confluent=False, size=dict(variant=variant, awaited=int(awaited)), nprocs=3)


# ---- failing member (C15) ---------------------------------------------------------------------
FAIL_SITES = ["div0", "effect_err", "open_err", "not_owner", "filter_send", "filter_spawn", "filter_select", "builtin_domain"]
# builtin calls outside their domain, incl. boundary magnitudes (2^61, 2^63-1, 2^64): each is a runtime
# InvalidArgument of the calling process on the unchanged tree - never a worker panic (C15)
BUILTIN_DOMAIN_ERRORS = [
    "[0xff, 2305843009213693952, 0, 8] __binary_get__", "[0xff, 9223372036854775807, 0, 8] __binary_get__",
    "[0xff, 1, 0, 8] __binary_get__", "[0xff, 0, 0, 9] __binary_get__", "[0xff, 0, 7, 8] __binary_get__",
    "[0xff, 2305843009213693952, 0, 8, 1] __binary_set__", "[0xff, 0, 0, 64, 1] __binary_set__",
    "[0xff, 5, 0, 8, 1] __binary_set__", "[0xffff, 3, 1] __binary_slice__",
    "[0xffff, 1, 9223372036854775807] __binary_slice__", "[0xffff, 18446744073709551616] __binary_repeat__",
    "[0xffff, -1] __binary_repeat__", "[7, 0] __integer_modulo__", "-1 __integer_sqrt__",
]


_BD_NEXT = 0


def t_failing_member(rng, site=None, when=None):
    """A process F fails at `site`; awaiters A1..An await F before / during / after the failure;
    bystanders B exchange messages and must finish normally. The main process awaits only the
    bystanders (awaiting a failed process fails the awaiter, by specification)."""
    site = site or rng.choice(FAIL_SITES)
    when = when or rng.choice(["before", "during", "after"])
    n_aw = rng.randint(1, 3)
    # F waits for a go message (an int) so that `before` awaiters can register first
    pre = ""
    if site == "div0":
        fbody = "!#'int =g, [g, 0] __integer_divide__"
    elif site == "builtin_domain":
        # every entry of the pool in turn (not a random draw: each boundary call is exercised every run)
        global _BD_NEXT
        fbody = "!#'int =g, " + BUILTIN_DOMAIN_ERRORS[_BD_NEXT % len(BUILTIN_DOMAIN_ERRORS)]
        _BD_NEXT += 1
    elif site == "effect_err":
        fbody = "!#'int =g, r = 1 __test_open__, [r, 666] __test_use__"
    elif site == "open_err":
        fbody = "!#'int =g, r = 13 __test_open__, 5"
    elif site == "not_owner":
        pre = "keeper = @#{ !#\\TestRes =r, !#'int, [r, 1] __test_use__ },\n"
        fbody = "!#'int =g, r = 1 __test_open__, r keeper, [r, 2] __test_use__"
    elif site == "filter_send":
        pre = "sinkp = @#{ !#'int },\n"
        fbody = "! [#'int { 1 sinkp, Ok }]"
    elif site == "filter_spawn":
        fbody = "! [#'int { @#{ 1 }, Ok }]"
    else:  # filter_select
        fbody = "! [#'int { !#'int, Ok }]"
    src = pre + "f = @#{ %s },\n" % fbody
    # bystanders: a small ping-pong pair whose results are known
    src += "b1 = @#{ !#(@'int) =c, 21 c, Ok },\n"
    src += "b2 = @#{ &. b1, [!#'int, 2] __integer_multiply__ },\n"
    aw = "aw = #'int { !f },\n"
    go = "3 f"
    spawn_aw = ", ".join("a%d = %d @aw" % (i, i) for i in range(n_aw))
    # some extra traffic aimed at the failed process (must be harmless)
    extra = ", 4 f, 5 f" if rng.random() < 0.5 and site not in ("filter_send", "filter_spawn", "filter_select") else ""
    if when == "before":
        src += aw + spawn_aw + ",\n!b2 =x,\n" + go + extra + ",\nx"
    elif when == "during":
        src += aw + go + ", " + spawn_aw + extra + ",\n!b2"
    else:
        src += aw + go + extra + ",\n!b2 =x,\n" + spawn_aw + ",\nx"
    npre = 1 if pre else 0
    f_path = "0.%d" % npre
    aw_paths = ["0.%d" % (npre + 3 + i) for i in range(n_aw)]
    by_paths = {"0.%d" % (npre + 1): ("done", ["ok", ["t", "Ok", []]]), "0.%d" % (npre + 2): ("done", ["ok", ["i", "42"]])}
    return dict(name="failing_member", src=src, confluent=False, size=dict(site=site, when=when, awaiters=n_aw),
                nprocs=npre + 4 + n_aw, f_path=f_path, aw_paths=aw_paths, by_paths=by_paths, main_result=["ok", ["i", "42"]],
                site=site, when=when)


def t_await_then_spawn(rng):
    """Await a process that is still working when the await is issued, then spawn again and await
    that too (confluent). A stale empty UpdateAwaitResults reaching the awaiter while it waits for
    its spawn notification is finding F71."""
    n = rng.randint(1, 3)
    src = "a = @#{ !#'int },\n5 a,\n!a =x0,\n"
    for i in range(1, n + 1):
        src += "b%d = @#{ %s },\n!b%d =x%d,\n" % (i, rng.choice(["%d" % (i + 1), "!#'int"]), i, i) if False else ""
    parts = ["x0"]
    for i in range(1, n + 1):
        waits = rng.random() < 0.5
        src += "b%d = @#{ %s },\n" % (i, "!#'int" if waits else str(i + 1))
        if waits:
            src += "%d b%d,\n" % (i + 10, i)
        src += "!b%d =x%d,\n" % (i, i)
        parts.append("x%d" % i)
    src += "[" + ", ".join(parts) + "]"
    return dict(name="await_then_spawn", src=src, confluent=True, size=dict(n=n), nprocs=n + 2)


def f71_shape(s):
    """NARROW match for F71: no internal error, but some process failed with StackUnderflow (the
    re-executed Spawn/…), which no generated program can produce by itself."""
    return s.ok and not s.panics and not s.errs and "(err StackUnderflow" in s.line


CONFLUENT = [t_await_tree, t_await_chain, t_pipeline, t_fan_out, t_request_reply, t_late_await, t_await_then_spawn, t_selective_receive]
MESSAGE_SCENARIOS = [t_fan_in, t_fan_out, t_pipeline, t_request_reply, t_await_chain, t_late_await, t_select_mix, t_selective_receive,
                     t_stale_failure_then_spawn]


# ----------------------------------------------------------------------------- shrinking

def ddmin(items, failing):
    """Classic delta debugging on a list: returns a 1-minimal sublist on which `failing` holds.
    `failing(list) -> bool`; assumes failing(items) is True."""
    n = 2
    items = list(items)
    while len(items) >= 2:
        chunk = max(1, len(items) // n)
        subsets = [items[i:i + chunk] for i in range(0, len(items), chunk)]
        reduced = False
        for i in range(len(subsets)):
            complement = [x for j, s in enumerate(subsets) if j != i for x in s]
            if failing(complement):
                items = complement
                n = max(n - 1, 2)
                reduced = True
                break
        if not reduced:
            if n >= len(items):
                break
            n = min(len(items), n * 2)
    if len(items) == 1 and failing([]):
        return []
    return items


def ddmin_batch(items, failing_many, max_rounds=80):
    """ddmin where all candidates of a round are evaluated in one batch (one simulator process).
    `failing_many(list of candidate lists) -> list of bool`."""
    items = list(items)
    n = 2
    rounds = 0
    while len(items) >= 2 and rounds < max_rounds:
        rounds += 1
        chunk = max(1, len(items) // n)
        subsets = [items[i:i + chunk] for i in range(0, len(items), chunk)]
        complements = [[x for j, sub in enumerate(subsets) if j != i for x in sub] for i in range(len(subsets))]
        verdicts = failing_many(complements)
        hit = next((k for k, v in enumerate(verdicts) if v), None)
        if hit is not None:
            items = complements[hit]
            n = max(n - 1, 2)
        else:
            if n >= len(items):
                break
            n = min(len(items), n * 2)
    return items


def shrink_schedule(run_many, prog, workers, quantum, opts, schedule_actions, predicate):
    """Shrink an explicit schedule (list of parsed actions) keeping `predicate(Summary)` true.
    `run_many(lines) -> [Summary]`. The simulator completes every schedule fairly, so removing
    actions always yields a legal schedule. First the shortest failing prefix (the tail of an
    emitted schedule is usually the fair completion), then ddmin."""
    def failing_many(cands):
        res = run_many([case_line(prog, workers, quantum, schedule_text(c), opts) for c in cands])
        return [s.ok and predicate(s) for s in res]

    if not failing_many([schedule_actions])[0]:
        return schedule_actions, False
    n = len(schedule_actions)
    cuts = sorted(set([0] + [n * k // 16 for k in range(1, 16)]))
    verdicts = failing_many([schedule_actions[:c] for c in cuts])
    for c, v in zip(cuts, verdicts):
        if v:
            schedule_actions = schedule_actions[:c]
            break
    return ddmin_batch(schedule_actions, failing_many), True


def t_priority_await(rng):
    """`!p1` first (so p1 is known to be finished), then `! [p1, p3, p2]`: by the written-order
    priority rule the result is p1's under every schedule, whatever p2/p3 are doing (confluent by
    specification; F8 breaks it)."""
    work = lambda n: ", ".join("[%d, %d] __integer_add__" % (i, i) for i in range(n))
    n2, n3 = rng.randint(0, 6), rng.randint(0, 6)
    src = "p1 = @#{ 11 },\n"
    src += "p2 = @#{ %s22 },\n" % (work(n2) + ", " if n2 else "")
    src += "p3 = @#{ %s33 },\n" % (work(n3) + ", " if n3 else "")
    order = rng.choice(["p1, p3, p2", "p1, p2, p3"])
    src += "!p1 =first,\n[first, ! [%s]]" % order
    return dict(name="priority_await", src=src, confluent=True, size=dict(n2=n2, n3=n3), nprocs=4)


def t_double_await(rng):
    """Await the same finished process twice (`!p, !p`): legal, deterministic. With a binary
    result this is the F9 trigger (leak in `initialize_select` -> debug panic)."""
    binary = rng.random() < 0.5
    nested = rng.random() < 0.5
    val = "0x0102" if binary else "7"
    body = "p = @#{ %s }, !p, !p, Ok" % val
    src = ("q = @#{ %s }, !q" % body) if nested else body
    return dict(name="double_await", src=src, confluent=True, size=dict(bin=int(binary), nested=int(nested)), nprocs=2 + nested)


# ----------------------------------------------------------------------------- running

class SimRunner:
    """Runs case lines through qv_sim (sharded) and returns Summary objects."""

    def __init__(self, ctx, exe):
        self.ctx, self.exe = ctx, exe
        self.cases_run = 0

    def run(self, lines, flags=()):
        if not lines:
            return []
        self.cases_run += len(lines)
        if len(lines) < 100:
            rc, out = self.ctx.run_bin(self.exe, lines, args=list(flags))
            out = out + ["(missing-output)"] * (len(lines) - len(out))
        else:
            rc, out = self.ctx.run_sharded(self.exe, lines, args=list(flags))
        return [Summary(o) for o in out[:len(lines)]]

    def one(self, line, flags=()):
        return self.run([line], flags)[0]

    def explicit_schedule(self, line):
        """Re-run a case with --emit-schedule; returns (Summary, list of parsed actions)."""
        s = self.one(line, flags=("--emit-schedule",))
        return s, (s.schedule or []) if s.ok else []

    def trace(self, line, limit=400):
        rc, out = self.ctx.run_bin(self.exe, [line], args=["--trace"])
        return out[:limit]


def basic_problems(s, want_quiescent=True):
    """Problems every scenario is checked for: simulator failure, hang, panic, Err, and the
    implementation-level oracles `refcounts`, `no-internal-error`, `quiescence`."""
    if not s.ok:
        return ["simulator: " + s.line[:200]]
    probs = []
    if s.hang:
        probs.append("hang " + unparse(s.hang))
    if want_quiescent and not s.quiescent:
        probs.append("not quiescent")
    for p in s.panics:
        probs.append("panic " + p)
    for e in s.errs:
        probs.append("err " + unparse(e))
    for name in ("refcounts", "quiescence"):
        for f in s.oracle_failures(name):
            probs.append("%s %s" % (name, unparse(f)))
    return probs


def corpus_lines(name):
    import os
    from vplib.common import VERIF
    p = os.path.join(VERIF, "corpus", name)
    if not os.path.exists(p):
        return []
    return [l.rstrip("\n") for l in open(p) if l.strip() and not l.startswith("#")]


def explore(ctx, runner, scenarios, nsched, judge, route=None, opts_for=None, extra_cov=None):
    """Generic exploration driver used by the C04 / C15 plugins.
    scenarios: list of template dicts; judge(tp, Summary) -> list of (kind, detail);
    route(tp, kind, Summary) -> finding key or None. One shrunk replay per (template, kind, finding)."""
    import collections
    rng = ctx.rng
    lines, meta = [], []
    for pi, tp in enumerate(scenarios):
        opts = opts_for(tp, rng) if opts_for else ""
        lines.append(case_line(tp["src"], 1, 1000, "", opts))
        meta.append((pi, (1, 1000), "fair"))
        for k in range(nsched):
            w, q = random_cfg(rng)
            sched = "" if rng.random() < 0.08 else random_schedule(rng, tick=tp.get("tick", tp["name"] == "select_mix"))
            opts = opts_for(tp, rng) if opts_for else ""
            lines.append(case_line(tp["src"], w, q, sched, opts))
            meta.append((pi, (w, q), sched))
    for l in corpus_lines("sim_%s.txt" % ctx.pid.lower()):
        c = sexpr.parse(l)
        f = {x[0]: x[1:] for x in c[1:]}
        name = f.get("template", ["corpus"])[0]
        tp = dict(name=name, src=f["program"], confluent=False, size={"corpus": 1}, nprocs=0, corpus=True)
        scenarios = scenarios + [tp]
        lines.append(l)
        meta.append((len(scenarios) - 1, (int(f["workers"][0]), int(f["quantum"][0])), "corpus"))
    res = runner.run(lines)
    failures = collections.OrderedDict()
    hist_t, hist_w, hist_q = collections.Counter(), collections.Counter(), collections.Counter()
    feature = collections.Counter()
    nontrivial, actions, distinct = 0, 0, set()
    for i, (s, (pi, cfg, sched)) in enumerate(zip(res, meta)):
        tp = scenarios[pi]
        hist_t[tp["name"]] += 1
        hist_w[cfg[0]] += 1
        hist_q[cfg[1]] += 1
        for k, v in tp["size"].items():
            if isinstance(v, str):
                feature["%s=%s" % (k, v)] += 1
        if s.ok:
            actions += s.stats.get("actions", 0)
            if s.nontrivial():
                nontrivial += 1
                distinct.add(hash((str(tp["src"]), cfg, sched)))
        for kind, detail in judge(tp, s):
            fk = route(tp, kind, s) if route else None
            # one group per known finding (whatever its symptoms), else per (template, kind)
            key = ("*", "known", fk) if fk else (tp["name"], kind, None)
            failures.setdefault(key, []).append((i, detail, kind))
    known_hits = collections.Counter()
    for (tname, gkind, fk), hits in failures.items():
        i, detail, kind = min(hits, key=lambda h: len(lines[h[0]]))
        pi, cfg, sched = meta[i]
        tp = scenarios[pi]
        obj = shrunk_replay(runner, tp, lines[i], kind, detail, res[i], len(hits), lambda x, tp=tp: [k for k, _ in judge(tp, x)])
        if fk:
            known_hits[fk] += len(hits)
            obj["finding"] = fk
        ctx.violation(obj, finding_key=fk)
    cov = {
        "evaluations": len(lines), "scenarios": len(scenarios), "schedules_per_scenario": nsched,
        "actions_executed": actions, "distinct_nontrivial": len(distinct), "nontrivial_schedules": nontrivial,
        "rule": "a schedule is non-trivial when it contains a partial-visibility action ((w i k) with k < queued commands, (e k..) hiding a queued event) or a starvation stretch (an enabled component not scheduled for >= 3 consecutive actions); distinct by (program, configuration, schedule)",
        "templates": dict(hist_t), "worker_counts": {str(k): v for k, v in hist_w.items()},
        "quanta": {str(k): v for k, v in hist_q.items()}, "scenario_features": dict(feature),
        "failing_groups": {"%s/%s%s" % (t, k, "/" + f if f else ""): len(v) for (t, k, f), v in failures.items()},
        "known_finding_hits": dict(known_hits),
        "samples": [lines[0], lines[1], res[1].line[:400]] if len(lines) > 1 else [],
        "disagreements_checked": sum(len(v) for v in failures.values()),
    }
    if extra_cov:
        cov.update(extra_cov)
    ctx.cov.update(cov)
    return res, meta, failures


def shrunk_replay(runner, tp, line, kind, detail, s, count, kinds_of):
    """Confirm a failing case by re-running it, obtain its explicit schedule, shrink it."""
    again = runner.run([line, line])
    repro = sum(1 for a in again if kind in kinds_of(a))
    es, actions = runner.explicit_schedule(line)
    c = sexpr.parse(line)
    f = {x[0]: x[1:] for x in c[1:]}
    workers, quantum = int(f["workers"][0]), int(f["quantum"][0])
    opts = schedule_text(f.get("opts", []))
    shrunk, ok = actions, False
    if es.ok and kind in kinds_of(es):
        shrunk, ok = shrink_schedule(runner.run, f["program"], workers, quantum, opts, actions, lambda x: kind in kinds_of(x))
    sched_text = schedule_text(shrunk) if ok else schedule_text(f.get("schedule", []))
    replay_case = case_line(f["program"], workers, quantum, sched_text, opts)
    final = runner.one(replay_case) if ok else s
    return {
        "kind": "impl-violation", "what": kind, "detail": detail, "template": tp["name"], "size": tp["size"],
        "program": f["program"], "workers": workers, "quantum": quantum, "opts": opts,
        "original_case": line, "cases_with_this_failure": count, "reproduced": "%d/2" % repro,
        "schedule": sched_text, "schedule_shrunk": ok, "replay_case": replay_case,
        "observed": (final.line if final.ok else s.line)[:3000],
        "how_to_replay": "echo '<replay_case>' | .cache/cargo-target/debug/qv_sim --trace",
    }


# ----------------------------------------------------------------------------- trace parsing

def parse_trace(lines):
    """Parse the multi-line output of `qv_sim --trace` for ONE case into a dict:
    {"sim": [...], "lines": [(k, source, [log items])], "initial_state": <state sexp>,
     "actions": [{"n", "prelude", "action", "now", "exec", "items": [...], "outcome", "state"}], "summary": Summary}.
    Top-level forms start in column 0; continuation lines are indented."""
    chunks, cur = [], []
    for l in lines:
        if l.startswith("(") and cur:
            chunks.append("\n".join(cur))
            cur = []
        cur.append(l)
    if cur:
        chunks.append("\n".join(cur))
    out = {"sim": None, "lines": [], "initial_state": None, "actions": [], "summary": None, "programs": [], "seq": []}
    pending_line = None
    for ch in chunks:
        if ch.startswith("(result"):
            out["summary"] = Summary(ch)
            continue
        head = ch.split(None, 1)[0]
        if head in ("(line", "(client"):
            # `(line k "src")` / `(client "call")` followed by indented log items
            first, *rest = ch.split("\n")
            f = sexpr.parse(first)
            items = [sexpr.parse(r) for r in rest if r.strip()]
            if head == "(line":
                pending_line = (int(f[1]), f[2], items)
                out["lines"].append(pending_line)
            out["seq"].append(("client", items))
            continue
        x = sexpr.parse(ch)
        if x[0] == "sim":
            out["sim"] = x
        elif x[0] == "program":
            out["programs"].append(x)
        elif x[0] == "state":
            if out["actions"]:
                out["actions"][-1]["state"] = x
            else:
                out["initial_state"] = x
                out["seq"].append(("state", x))
        elif x[0] == "action":
            body = x[2:]
            prelude = body and body[0] == ["prelude"]
            if prelude:
                body = body[1:]
            a = {"n": int(x[1]), "prelude": bool(prelude), "action": body[0], "now": None, "exec": None,
                 "instrs": None, "items": [], "outcome": None, "state": None}
            for it in body[1:]:
                if not isinstance(it, list) or not it:
                    continue
                if it[0] == "now":
                    a["now"] = int(it[1])
                elif it[0] == "exec":
                    a["exec"] = it[1:]
                elif it[0] == "instrs":
                    a["instrs"] = it[1:]
                elif it[0] == "outcome":
                    a["outcome"] = it[1:]
                else:
                    a["items"].append(it)
            out["actions"].append(a)
            out["seq"].append(("action", a))
    return out


# ----------------------------------------------------------------------------- replay of a recorded violation

def replay(ctx, runner, kinds_of):
    """`./check Cxx --replay <file>`: re-run the recorded (program, configuration, schedule) on the
    current tree; the violation is reported again iff the same kind of failure still occurs.
    kinds_of(obj, Summary) -> list of failure kinds."""
    import json
    obj = json.load(open(ctx.replay_path))
    line = obj.get("replay_case") or obj.get("original_case")
    s = runner.one(line)
    kinds = kinds_of(obj, s)
    print("replay: %s" % line)
    print("observed: %s" % s.line[:1500])
    print("failure kinds now: %s (recorded: %s)" % (kinds, obj.get("what")))
    still = obj.get("what") in kinds
    ctx.cov.update({"evaluations": 1, "distinct_nontrivial": int(s.ok and s.nontrivial()), "rule": "replay of one recorded case",
                    "samples": [line], "traces_validated_against_impl": 0, "disagreements_checked": 1,
                    "replayed_failure_still_present": still, "obligations": 0, "discharged": 0,
                    "checker_cmd": "none (exploration; Coq model pending)"})
    if still:
        o = dict(obj)
        o["replayed"] = True
        o["observed"] = s.line[:3000]
        ctx.violation(o, finding_key=obj.get("finding"))
    return still


# ----------------------------------------------------------------------------- protocol-model replay (M-Sys, coq/theories/sys/Proto.v)
# A `qv_sim --trace` run of the real code is turned into the input of the extracted model
# (coq/driver/proto_main.ml): the schedule actions, the client calls, and for every worker step the
# oracle saying what the executed time slice did (read off the trace by diffing the dumps). The
# model's state after EVERY action is then compared with the simulator's dump.

class Unmodelled(Exception):
    pass


class _Intern:
    def __init__(self):
        self.ids = {"(t - ())": 0}

    def __call__(self, text):
        if text not in self.ids:
            self.ids[text] = len(self.ids)
        return self.ids[text]


INSPECT = ("GetStatuses", "GetWorkerInfo", "GetProcessTypes", "GetProcessInfo", "GetLocals", "GetExecutionStats")
NOOPS = ("UpdateProgram", "CompactLocals", "Subscribe", "Unsubscribe")
RESPONSES = ("StatusesResponse", "WorkerInfoResponse", "ProcessTypesResponse", "InfoResponse", "LocalsResponse", "StatsResponse")


def _fields(items):
    return {x[0]: x[1:] for x in items if isinstance(x, list) and x and isinstance(x[0], str)}


def _res(r, intern):
    if r == "-":
        return "-"
    if r[0] == "ok":
        return ["ok", str(intern(unparse(r[1])))]
    return ["err", str(intern("E " + unparse(r[1:])))]


def _results(rs, intern):
    return sorted(([t, _res(r, intern)] for t, r in rs), key=lambda e: int(e[0]))


def _cmd(c, intern):
    k = c[0]
    if k in NOOPS:
        return ["noop"]
    if k in INSPECT:
        return ["I", c[1]]
    if k == "StartProcess":
        return ["St", c[1], "1" if c[2] == "-" else "0"]
    if k == "SpawnProcess":
        return ["S", c[1]]
    if k == "ResumeProcess":
        return ["R", c[1]]
    if k == "QueryAndAwait":
        return ["Q", c[1], list(c[2])]
    if k == "UpdateAwaitResults":
        return ["U", c[1], _results(c[2], intern)]
    if k == "DeliverMessage":
        return ["D", c[1], unparse(c[2])]
    if k == "NotifySpawn":
        return ["N", c[1], c[2]]
    if k == "GetResult":
        return ["G", c[1], c[2]]
    raise Unmodelled("command " + k)


def _evt(e, intern):
    k = e[0]
    if k == "SpawnAction":
        return ["SA", e[1]]
    if k == "DeliverAction":
        return ["DA", e[1], unparse(e[2])]
    if k == "AwaitAction":
        return ["AA", e[1], list(e[2])]
    if k == "ProcessResults":
        return ["PR", e[1], _results(e[2], intern)]
    if k == "ResultResponse":
        return ["RR", e[1], _res(e[2], intern)]
    if k in RESPONSES:
        return ["IR", e[1]]
    raise Unmodelled("event " + k)


def _dump_state(state, intern):
    """Normalise a `(state ...)` dump of qv_sim into the shape printed by proto_main.ml."""
    nodes, env, clock = [], None, None
    for it in state[1:]:
        if it[0] == "worker":
            if it[2] != "alive":
                raise Unmodelled("dead worker")
            f = _fields(it[3:])
            procs = []
            for pr in it[3:]:
                if pr[0] != "proc":
                    continue
                pf = _fields(pr[3:])
                aw = sorted(([t, "-" if v == "-" else ["ok", str(intern(unparse(v)))]] for t, v in pf["awaiting"]), key=lambda e: int(e[0]))
                procs.append([pr[1], [unparse(m) for m in pf["mailbox"]], _res(pf["result"][0], intern), aw])
            if f.get("effecting"):
                raise Unmodelled("effecting")
            ch = _fields(f["chan"])
            nodes.append({
                "queue": list(f["queue"]), "spawning": sorted(f["spawning"], key=int), "selecting": sorted(f["selecting"], key=int),
                "procs": sorted(procs, key=lambda p: int(p[0])), "awaited": sorted(f["awaited"], key=int),
                "awaiters": sorted(([t, list(a)] for t, a in f["awaiters"]), key=lambda e: int(e[0])),
                "cmds": [_cmd(c, intern) for c in ch["cmds"]], "evts": [_evt(e, intern) for e in ch["evts"]]})
        elif it[0] == "env":
            if it[1] != "alive":
                raise Unmodelled("dead environment")
            f = _fields(it[2:])
            pend = []
            for pa in f["pending-awaits"]:
                pf = _fields(pa[1:])
                pend.append([pa[0], sorted(pf["expected"], key=int), sorted(pf["responded"], key=int), sorted(pf["answered"], key=int)])
            env = {"router": sorted(([p, w] for p, w in f["router"]), key=lambda e: int(e[0])),
                   "pending": sorted(pend, key=lambda e: int(e[0])), "next": f["next-pid"][0]}
        elif it[0] == "clock":
            clock = it[1]
    return {"nodes": nodes, "env": env, "clock": clock}


def _model_state(st, stamps):
    """Normalise one `(st ...)` printed by the model driver; message stamps -> value texts."""
    def m(x):
        return stamps.get((x[1], x[2], x[3]), "?" + unparse(x))

    def c(x):
        if x[0] in ("D", "DA"):
            return [x[0], x[1], m(x[2])]
        if x[0] in ("U", "PR"):
            return [x[0], x[1], [[t, r] for t, r in x[2]]]
        if x[0] in ("Q", "AA"):
            return [x[0], x[1], list(x[2])]
        return list(x)
    nodes, env, clock = [], None, None
    for it in st[1:]:
        if it[0] == "node":
            f = _fields(it[1:])
            nodes.append({
                "queue": list(f["queue"]), "spawning": list(f["spawning"]), "selecting": list(f["selecting"]),
                "procs": [[p[0], [m(x) for x in _fields(p[1:])["mail"]], _fields(p[1:])["res"][0],
                           [[t, r] for t, r in _fields(p[1:])["aw"]]] for p in f["procs"]],
                "awaited": list(f["awaited"]), "awaiters": [[t, list(a)] for t, a in f["awaiters"]],
                "cmds": [c(x) for x in f["cmds"]], "evts": [c(x) for x in f["evts"]]})
        elif it[0] == "env":
            f = _fields(it[1:])
            env = {"router": [[p, w] for p, w in f["router"]],
                   "pending": [[pa[0]] + [list(_fields(pa[1:])[k]) for k in ("exp", "resp", "ans")] for pa in f["pending"]],
                   "next": f["next"][0]}
        elif it[0] == "clock":
            clock = it[1]
    return {"nodes": nodes, "env": env, "clock": clock}


def _first_diff(a, b, path=""):
    if type(a) != type(b):
        return "%s: %r != %r" % (path, a, b)
    if isinstance(a, dict):
        for k in a:
            d = _first_diff(a[k], b.get(k), path + "." + k)
            if d:
                return d
        return None
    if isinstance(a, list):
        if len(a) != len(b):
            return "%s: impl %s != model %s" % (path, unparse(a) if a else "()", unparse(b) if b else "()")
        for i, (x, y) in enumerate(zip(a, b)):
            d = _first_diff(x, y, "%s[%d]" % (path, i))
            if d:
                return d
        return None
    return None if a == b else "%s: impl %r != model %r" % (path, a, b)


def _client_steps(items):
    steps = []
    for it in items:
        if it[0] != "send-cmd":
            continue
        w, c = it[1], it[2]
        k = c[0]
        if k == "StartProcess":
            steps.append("(x start %s)" % ("1" if c[2] == "-" else "0"))
        elif k in NOOPS:
            steps.append("(x noop %s)" % w)
        elif k in INSPECT:
            steps.append("(x inspect %s %s)" % (w, c[1]))
        elif k == "ResumeProcess":
            steps.append("(x resume %s)" % c[1])
        elif k == "GetResult":
            steps.append("(x getresult %s %s)" % (c[2], c[1]))
        else:
            raise Unmodelled("client command " + k)
    return steps


def _sel_text(sel):
    if sel == "-":
        return "-"
    f = _fields(sel[3:])
    targets = [s[1] for s in f["sources"] if isinstance(s, list) and s[0] == "p"]
    timeouts = [str(min(max(int(s[1]), 0), 100000)) for s in f["sources"] if isinstance(s, list) and s[0] == "i"]
    start = f["start"][0]
    return "(sel (targets %s) (cursors %s) (timeouts %s) (start %s))" % (
        " ".join(targets), " ".join(f["cursors"]), " ".join(timeouts), start if start == "-" else str(min(int(start), 10 ** 6)))


def _find_proc(dump, wi, pid):
    if dump is None or wi >= len(dump["nodes"]):
        return None
    for p in dump["nodes"][wi]["raw_procs"]:
        if p[1] == pid:
            return p
    return None


def _was_forgotten(before, after, pid, t):
    """A target that is awaited again by the Await action ending the slice: it was forgotten in
    between iff its entry held a result before (the new entry is None either way, so forgetting it
    first is unobservable; report it forgotten only when a stored result disappeared)."""
    b = dict((k, v) for k, v in before[pid]["awaiting"]).get(t, "-") if pid in before else "-"
    return b != "-"


def trace_to_replay(trace):
    """-> (driver input line, expected: list of normalised dumps or None per step, stamps, n_actions).
    Raises Unmodelled for traces the model does not cover (effects, dead components)."""
    intern = _Intern()
    nw = int(_fields(trace["sim"][1:])["workers"][0])
    steps, expected = [], []
    stamps = {}
    nsent = [0] * nw
    prev_raw = None           # previous raw `(state ...)`
    for kind, x in trace["seq"]:
        if kind == "client":
            for s in _client_steps(x):
                steps.append(s)
                expected.append(None)
            continue
        if kind == "state":
            prev_raw = x
            continue
        a = x
        if a["outcome"] and a["outcome"][0] in ("panic", "err", "dead", "no-such-worker"):
            break
        act = a["action"]
        for it in a["items"]:
            if it[0] in ("execute", "close-resource", "completion"):
                raise Unmodelled("effects")
        if act[0] == "t":
            steps.append("(t %s)" % act[1])
        elif act[0] == "e":
            steps.append("(e %s)" % " ".join(act[1:]))
        else:
            wi = int(act[1])
            k = act[2] if len(act) > 2 else "-"
            workers = [it for it in prev_raw[1:] if it[0] == "worker"] if prev_raw else []
            after_workers = [it for it in a["state"][1:] if it[0] == "worker"]

            def procs_of(w):
                return {p[1]: _fields(p[3:]) for p in w[3:] if p[0] == "proc"}
            before = procs_of(workers[wi]) if workers else {}
            after = procs_of(after_workers[wi])
            af = _fields(after_workers[wi][3:])
            ex = a["exec"]
            pid = None if (not ex or ex[0] == "idle") else _fields(ex)["pid"][0]
            did = "(did (taken) - (forget) - 0 - 0)"
            sent_evts = [it[2] for it in a["items"] if it[0] == "send-evt"]
            if pid is not None:
                pre = [unparse(m) for m in before[pid]["mailbox"]] if pid in before else []
                for it in a["items"]:
                    if it[0] == "recv-cmd" and it[2][0] == "SpawnProcess" and it[2][1] == pid:
                        pre = []
                    if it[0] == "recv-cmd" and it[2][0] == "StartProcess" and it[2][1] == pid:
                        pre = []
                    if it[0] == "recv-cmd" and it[2][0] == "DeliverMessage" and it[2][1] == pid:
                        pre.append(unparse(it[2][2]))
                post = [unparse(m) for m in after[pid]["mailbox"]]
                removed, j = [], 0
                for i, t in enumerate(pre):
                    if j < len(post) and post[j] == t:
                        j += 1
                    else:
                        removed.append(i)
                if j != len(post):
                    raise Unmodelled("mailbox of %s is not a subsequence of its previous content" % pid)
                taken = [str(r - n) for n, r in enumerate(removed)]
                action = "-"
                for e in sent_evts:
                    if e[0] == "SpawnAction":
                        action = "spawn"
                    elif e[0] == "DeliverAction":
                        action = "(deliver %s)" % e[1]
                        stamps[(pid, str(wi), str(nsent[wi]))] = unparse(e[2])
                        nsent[wi] += 1
                    elif e[0] == "AwaitAction":
                        action = "(await %s)" % " ".join(e[2])
                    elif e[0] == "EffectRequest":
                        raise Unmodelled("effects")
                res = after[pid]["result"][0]
                fin = "-"
                if res != "-":
                    r = _res(res, intern)
                    fin = "(%s %s)" % (r[0], r[1])
                heapy = "1" if (res != "-" and "(b " in unparse(res)) else "0"
                park = "1" if (pid in af["selecting"] and not action.startswith("(await") and fin == "-") else "0"
                # complete_select forgets the process sources of a completed select: keys of `awaiting`
                # that disappeared during the slice (an Await action of the same slice re-inserts its targets afterwards)
                keys_before = [t for t, _ in before[pid]["awaiting"]] if pid in before else []
                for it in a["items"]:
                    if it[0] == "recv-cmd" and it[2][0] in ("SpawnProcess", "StartProcess") and it[2][1] == pid:
                        keys_before = []
                keys_after = set(t for t, _ in after[pid]["awaiting"])
                await_targets = set(action[1:-1].split()[1:]) if action.startswith("(await") else set()
                forget = [t for t in keys_before if t not in keys_after or t in await_targets and _was_forgotten(before, after, pid, t)]
                did = "(did (taken %s) %s (forget %s) %s %s %s %s)" % (" ".join(taken), _sel_text(after[pid]["select"][0]), " ".join(forget), action, park, fin, heapy)
            allp = sorted(set(list(before) + list(after)), key=int)
            q_after = list(af["queue"])
            completed = []
            for e in sent_evts:
                if e[0] == "ProcessResults":
                    completed += [t for t, r in e[2] if r != "-"]
            hint1 = ([pid] if pid is not None else []) + q_after + allp
            def first_occ(l):        # the model de-duplicates priority lists keeping the LAST occurrence
                seen, out = set(), []
                for x in l:
                    if x not in seen:
                        seen.add(x)
                        out.append(x)
                return out
            steps.append("(w %d %s %s %s (expired %s) (awaiters %s) (completed %s))" % (
                wi, k, pid if pid is not None else "-", did, " ".join(first_occ(hint1)), " ".join(first_occ(q_after + allp)),
                " ".join(first_occ(completed + allp))))
        prev_raw = a["state"]
        expected.append(_dump_state(a["state"], intern))
    n_actions = sum(1 for e in expected if e is not None)
    return "(replay (workers %d) (steps %s))" % (nw, " ".join(steps)), expected, stamps, n_actions


def compare_replay(model_line, expected, stamps):
    """-> (number of actions whose state agreed, first divergence text or None, premises).
    premises: None, or {"actions": n, "<premise>": None | index of the first action violating it} as
    reported by the driver (the boolean oracle premises of the global theorems, sys/ProtoPremises.v)."""
    try:
        out = sexpr.parse("(" + model_line + ")")
    except Exception:
        return 0, "unparsable model output: " + model_line[:200], None
    if not out or not isinstance(out[0], list) or out[0][0] != "states":
        return 0, "model driver: " + model_line[:200], None
    states = out[0][1:]
    fault, premises = None, None
    for extra in out[1:]:
        if isinstance(extra, list) and extra and extra[0] == "fault":
            fault = extra
        elif isinstance(extra, list) and extra and extra[0] == "premises":
            premises = {}
            for item in extra[1:]:
                if item[0] == "actions":
                    premises["actions"] = int(item[1])
                elif item[0] == "relevant":
                    premises["relevant"] = {k: int(v) for k, v in item[1:]}
                else:
                    premises[item[0]] = None if item[1] == "ok" else int(item[1][1])
    agreed = 0
    for i, exp in enumerate(expected):
        if i >= len(states):
            return agreed, "model fault at step %d: %s" % (i, unparse(fault) if fault else "missing state"), premises
        if exp is None:
            continue
        d = _first_diff(exp, _model_state(states[i], stamps))
        if d:
            return agreed, "step %d: %s" % (i, d), premises
        agreed += 1
    return agreed, None, premises


# ----------------------------------------------------------------------------- proof layer shared by C03 / C04 / C15

def _replay_chunk(args):
    """Worker process: trace a chunk of cases on the real code, replay them through the model."""
    import subprocess
    exe, drv, lines = args
    out = subprocess.run([exe, "--trace"], input="\n".join(lines) + "\n", capture_output=True, text=True).stdout.splitlines()
    chunks, cur = [], []
    for l in out:
        cur.append(l)
        if l.startswith("(result") or l.startswith("(sim-panic"):
            chunks.append(cur)
            cur = []
    res = {"actions": 0, "traces": 0, "unmodelled": {}, "diverged": [], "summaries": {},
           "premise_traces": 0, "premise_actions": 0, "premise_violations": [], "premise_relevant": {}}
    replays, metas = [], []
    for line, ch in zip(lines, chunks):
        try:
            t = parse_trace(ch)
            rl, exp, stamps, n = trace_to_replay(t)
            replays.append(rl)
            metas.append((line, exp, stamps, ch[-1]))
        except Unmodelled as e:
            k = str(e).split(" ")[0]
            res["unmodelled"][k] = res["unmodelled"].get(k, 0) + 1
        except Exception as e:           # a trace this code cannot read is a correspondence failure, not a crash
            res["diverged"].append((line, "trace not understood: %r" % (e,), ch[-1] if ch else ""))
    if replays:
        mo = subprocess.run([drv], input="\n".join(replays) + "\n", capture_output=True, text=True).stdout.splitlines()
        mo += ["(missing-output)"] * (len(replays) - len(mo))
        for (line, exp, stamps, summ), m, rl in zip(metas, mo, replays):
            agreed, d, premises = compare_replay(m, exp, stamps)
            res["actions"] += agreed
            res["traces"] += 1
            if d:
                res["diverged"].append((line, d, summ))
            elif premises is not None:
                # the oracle premises of the global theorems, evaluated by the driver on every action of
                # this REAL trace (only meaningful when model and code agreed on the whole trace)
                res["premise_traces"] += 1
                res["premise_actions"] += premises.get("actions", 0)
                for k, v in premises.get("relevant", {}).items():
                    res["premise_relevant"][k] = res["premise_relevant"].get(k, 0) + v
                for name, idx in premises.items():
                    if name not in ("actions", "relevant") and idx is not None:
                        try:
                            step = unparse(sexpr.parse(rl)[2][1:][idx])
                        except Exception:
                            step = "?"
                        res["premise_violations"].append((name, idx, step, line, summ))
    return res


def correspondence(ctx, exe, drv, lines, judge_line):
    """Replay `lines` (qv_sim cases) through the extracted M-Sys model; every divergence is a
    `correspondence-broken` violation — with the real run's oracle verdict deciding between
    impl-violation and no-failing-input-found. judge_line(Summary) -> list of problems."""
    import concurrent.futures as cf
    from vplib.common import NCPU
    if not lines:
        return
    nchunks = max(1, min(NCPU, len(lines) // 4))
    size = (len(lines) + nchunks - 1) // nchunks
    jobs = [(exe, drv, lines[i:i + size]) for i in range(0, len(lines), size)]
    with cf.ProcessPoolExecutor(max_workers=nchunks) as ex:
        results = list(ex.map(_replay_chunk, jobs))
    actions = sum(r["actions"] for r in results)
    traces = sum(r["traces"] for r in results)
    unmod = {}
    diverged = []
    for r in results:
        for k, v in r["unmodelled"].items():
            unmod[k] = unmod.get(k, 0) + v
        diverged += r["diverged"]
    ctx.cov["traces_validated_against_impl"] = actions
    ctx.cov["traces_replayed"] = traces
    ctx.cov["traces_not_modelled"] = unmod
    ctx.cov["correspondence"] = "every scheduler action of a `qv_sim --trace` run replayed through the extracted sys/Proto.v (sys_step); state compared after EVERY action: run queue (ordered), parked sets, mailboxes, results, awaiting maps, awaited/awaiters, command and event queues (ordered, full contents), router, pending awaits, next pid, clock"
    ctx.cov["disagreements_checked"] = ctx.cov.get("disagreements_checked", 0) + len(diverged)
    # the boolean oracle premises of the global theorems (coq/theories/sys/ProtoPremises.v), checked on
    # every action of every real trace that replayed without divergence
    names = ["pid_honest", "await_honest", "park_honest", "time_honest", "resume_honest"]
    pviol = [v for r in results for v in r["premise_violations"]]
    pc = ctx.cov.get("premise_checks") or {"traces": 0, "actions": 0, "violations": {n: 0 for n in names}}
    pc["traces"] += sum(r["premise_traces"] for r in results)
    pc["actions"] += sum(r["premise_actions"] for r in results)
    for name, idx, step, line, summ in pviol:
        pc["violations"][name] = pc["violations"].get(name, 0) + 1
    rel = pc.setdefault("relevant_actions", {})
    for r in results:
        for k, v in r["premise_relevant"].items():
            rel[k] = rel.get(k, 0) + v
    pc["premises"] = "pid_honest = pid_honest_action (C15 step_never_errs); await_honest = await_honest_stepb (C04 await_backed / quiescent_no_ready); park_honest = honest_step (C04 parked_has_no_unseen_message); time_honest (C04 no_timeout_due_at_last_check); resume_honest = okc (C15 step_faults_only_bad_oracle_resume: resume_process only of a sleeping process); evaluated by the extracted premises_step on the model state before each replayed action"
    # negative control: a slice that sends to the never-allocated pid 7 must be flagged
    import subprocess
    neg = "(replay (workers 1) (steps (x start 0) (w 0 - 0 (did (taken) - (forget) (deliver 7) 0 - 0) (expired 0) (awaiters 0) (completed 0))))"
    nout = subprocess.run([drv], input=neg + "\n(selftest)\n", capture_output=True, text=True).stdout.splitlines()
    flagged = [compare_replay(l, [], {})[2] for l in nout]
    ok_neg = len(flagged) == 2 and all(f is not None and f.get("pid_honest") == 1 and f.get("actions") == 2 for f in flagged)
    pc["negative_control"] = "flagged" if ok_neg else "NOT FLAGGED"
    ctx.cov["premise_checks"] = pc
    if not ok_neg:
        ctx.violation({"kind": "correspondence-broken", "premise_check": "negative control (Send to an unallocated pid) not flagged by the driver",
                       "driver_output": [l[-300:] for l in nout]}, no_input=True)
    seen = set()
    for name, idx, step, line, summ in pviol:
        if name in seen:
            continue
        seen.add(name)
        ctx.violation({"kind": "correspondence-broken",
                       "premise": name, "meaning": "the hypothesis of the global theorem does not hold of this action of a REAL trace (the model and the code agree on the trace)",
                       "action_index": idx, "action": step, "case": line, "observed": summ[:2000]}, no_input=True)
    for line, d, summ in diverged[:3]:
        s = Summary(summ)
        probs = judge_line(s) if s.ok else ["simulator: " + summ[:200]]
        ctx.violation({"kind": "impl-violation" if probs else "correspondence-broken",
                       "correspondence": "M-Sys (coq/theories/sys/Proto.v) vs Environment/Worker/Executor through qv_sim",
                       "case": line, "first_divergence": d, "impl_oracles": probs, "observed": summ[:2000]},
                      no_input=not probs)


def proof_layer(ctx):
    """Build + audit the property's Coq cone and the extracted model driver. Returns (ok, driver)."""
    ok = ctx.coq_props()
    drv = ctx.driver("proto")
    return ok, drv


def theorem_broken(ctx, found_failures):
    ctx.violation({"kind": "theorem-broken", "theorem": getattr(ctx, "broken_theorem", "?"),
                   "searched": "schedule exploration of the real runtime (see coverage): %d failing cases" % found_failures},
                  no_input=(found_failures == 0))
