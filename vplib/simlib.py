"""Helpers around the deterministic simulator `qv_sim` (harness/src/bin/qv_sim.rs, format in
harness/SIM_FORMAT.md): Quiver program templates parameterised by size, schedule generators, summary
parsing, Python-level oracles, ddmin shrinking of schedules.

Every random choice takes an explicit `rng` (random.Random) so that runs are reproducible from
VERIF_SEED."""
import itertools, re
from vplib import sexpr

WORKER_COUNTS = [1, 2, 3, 5]
QUANTA = [1, 2, 3, 7, 1000]

# ----------------------------------------------------------------------------- case lines


def case_line(prog, workers=1, quantum=1000, schedule="", opts=""):
    """One stdin line for qv_sim. `prog` is a source string or a list of REPL lines; `schedule` a
    string of actions (e.g. "(w 0) (e)" or "(random 7 300 (starve 10))")."""
    lines = [prog] if isinstance(prog, str) else list(prog)
    return "(case (workers %d) (quantum %d) (program %s) (schedule %s) (opts %s))" % (
        workers, quantum, " ".join(sexpr.quote(l) for l in lines), schedule, opts)


def random_schedule(rng, steps=None, tick=False):
    """A seeded random walk executed inside qv_sim (it knows which actions are enabled)."""
    seed = rng.getrandbits(48)
    steps = steps or rng.choice([40, 120, 400, 1500])
    starve = rng.choice([0, 5, 10, 20, 35])
    partial = rng.choice([0, 10, 30, 60])
    s = "(random %d %d (starve %d) (partial %d)" % (seed, steps, starve, partial)
    if tick:
        s += " (tick %d)" % rng.choice([0, 5, 20])
    return s + ")"


def random_cfg(rng):
    return rng.choice(WORKER_COUNTS), rng.choice(QUANTA)


def bfs_alphabet(workers):
    """Action alphabet for exhaustive enumeration of short schedules."""
    acts = ["(e)"]
    for j in range(workers):
        ks = ["0"] * workers
        ks[j] = "1"
        acts.append("(e %s)" % " ".join(ks))          # exactly one event, of worker j
    for i in range(workers):
        acts += ["(w %d)" % i, "(w %d 1)" % i, "(w %d 0)" % i]
    return acts


def bfs_schedules(workers, depth):
    """All action sequences of length exactly `depth` (the simulator completes each fairly)."""
    alpha = bfs_alphabet(workers)
    for seq in itertools.product(alpha, repeat=depth):
        yield " ".join(seq)


# ----------------------------------------------------------------------------- summary parsing

class Summary:
    """Parsed summary line of qv_sim."""

    def __init__(self, line):
        self.line = line
        self.ok = line.startswith("(result")
        self.fields = {}
        if not self.ok:
            return
        try:
            items = sexpr.parse("(" + line + ")")
        except Exception:
            self.ok = False
            return
        for it in items:
            if isinstance(it, list) and it:
                self.fields[it[0]] = it[1:]
        self.result = self.fields.get("result", [])
        self.procs = {p[1]: (p[2], p[3]) for p in self.fields.get("per-process", [])}   # path -> (status, result)
        self.quiescent = self.fields.get("quiescent", ["false"])[0] == "true"
        self.hang = self.fields.get("hang")
        self.panics = self.fields.get("panics", [])
        self.errs = self.fields.get("errs", [])
        self.oracles = {o[0]: o[1] for o in self.fields.get("oracles", [])}
        self.stats = {s[0]: int(s[1]) for s in self.fields.get("stats", [])}
        self.pids = {p[0]: p[1] for p in self.fields.get("pids", [])}
        self.mailboxes = {m[0]: int(m[1]) for m in self.fields.get("mailbox-left", [])}
        self.schedule = self.fields.get("schedule")

    def oracle_failures(self, name):
        v = self.oracles.get(name, "ok")
        return [] if v == "ok" else v[1:]

    def observable(self):
        """What C03 compares across schedules: line results + per-process (status, result)."""
        m = re.match(r"(\(result.*?\)) \(quiescent ", self.line)
        return m.group(1) if m else self.line

    def nontrivial(self):
        """A schedule is non-trivial when it contains a partial-visibility action or a starvation
        stretch (>= 3 consecutive actions during which an enabled component was not scheduled)."""
        return self.stats.get("partial", 0) > 0 or self.stats.get("starve-stretches", 0) > 0


def unparse(x):
    if isinstance(x, list):
        return "(" + " ".join(unparse(i) for i in x) + ")"
    if x == "" or re.search(r'[\s()"]', x):
        return sexpr.quote(x)
    return x


def schedule_text(actions):
    return " ".join(unparse(a) for a in actions)


# ----------------------------------------------------------------------------- value helpers

def cons_list(v):
    """Decode a dumped `Nil | Cons[x, tail]` value into a python list (head first)."""
    out = []
    while isinstance(v, list) and len(v) >= 3 and v[0] == "t" and v[1] == "Cons":
        out.append(v[3])
        v = v[4]
    return out


def as_int(v):
    return int(v[1]) if isinstance(v, list) and v and v[0] == "i" else None


def pair(v):
    """`[a, b]` of ints -> (a, b)"""
    if isinstance(v, list) and v[0] == "t" and len(v) == 5:
        return as_int(v[3]), as_int(v[4])
    return None


def err_class(result):
    """(err Class "msg") -> (Class, msg)"""
    if isinstance(result, list) and result and result[0] == "err":
        return result[1], result[2] if len(result) > 2 else ""
    return None


# ----------------------------------------------------------------------------- program templates
# Each template returns a dict:
#   name, src (one REPL line), confluent (bool), size (dict), nprocs,
#   check(summary) -> list of problems for the Python-level `messages` oracle (may be absent)

LOG2 = "'log = Nil | Cons[['int, 'int], ^]\n"
LOG1 = "'ilog = Nil | Cons['int, ^]\n"
RECV2 = ("recv = #['int, 'log] { | =[0, acc] => acc | =[n, acc] => { m = !#['int, 'int], "
         "[[n, 1] __integer_subtract__, Cons[m, acc]] ^ } },\n")
RECV1 = ("recv1 = #['int, 'ilog] { | =[0, acc] => acc | =[n, acc] => { m = !#'int, "
         "[[n, 1] __integer_subtract__, Cons[m, acc]] ^ } },\n")


def _check_log(entries, expected_by_sender, who):
    """entries: list of (sender, seq) in receive order. Exactly-once + per-sender FIFO."""
    probs = []
    seen = {}
    for e in entries:
        if e is None:
            probs.append("%s: malformed log entry" % who)
            continue
        s, q = e
        seen.setdefault(s, []).append(q)
    for s, n in expected_by_sender.items():
        got = seen.get(s, [])
        if sorted(got) != list(range(n)):
            probs.append("%s: sender %s: expected each of %d messages exactly once, got %s" % (who, s, n, got))
        elif got != list(range(n)):
            probs.append("%s: sender %s: per-sender order violated: %s" % (who, s, got))
    for s in seen:
        if s not in expected_by_sender:
            probs.append("%s: message from unexpected sender %s" % (who, s))
    return probs


def t_fan_in(rng, k=None, m=None):
    k = k or rng.randint(2, 5)
    m = m or rng.randint(1, 4)
    main_sends = rng.random() < 0.5
    total = k * m + (m if main_sends else 0)
    src = LOG2 + RECV2
    src += "r = [%d, Nil] @recv,\n" % total
    src += "snd = #'int { " + ", ".join("[$, %d] r" % j for j in range(m)) + ", Ok },\n"
    src += ", ".join("s%d = %d @snd" % (i, i) for i in range(1, k + 1)) + ",\n"
    if main_sends:
        src += ", ".join("[0, %d] r" % j for j in range(m)) + ",\n"
    src += "!r"
    expected = {i: m for i in range(1, k + 1)}
    if main_sends:
        expected[0] = m

    def check(s):
        st, res = s.procs.get("0.0", ("missing", "-"))
        if st != "done":
            return ["receiver 0.0 did not finish: %s" % st]
        log = [pair(x) for x in reversed(cons_list(res[1]))]
        probs = _check_log(log, expected, "receiver 0.0")
        if s.mailboxes.get("0.0", 0):
            probs.append("receiver 0.0: %d messages left in the mailbox (duplicate delivery)" % s.mailboxes["0.0"])
        return probs

    return dict(name="fan_in", src=src, confluent=False, size=dict(k=k, m=m), nprocs=k + 2, check=check)


def t_fan_out(rng, k=None, m=None):
    k = k or rng.randint(2, 5)
    m = m or rng.randint(1, 4)
    via_proc = rng.random() < 0.5      # the single sender is a spawned process instead of the main one
    src = LOG2 + RECV2
    src += ", ".join("r%d = [%d, Nil] @recv" % (i, m) for i in range(k)) + ",\n"
    sends = ", ".join("[%d, %d] r%d" % (7, j, i) for j in range(m) for i in range(k))
    if via_proc:
        src += "s = @#{ " + sends + ", Ok },\n"
    else:
        src += sends + ",\n"
    src += "[" + ", ".join("!r%d" % i for i in range(k)) + "]"

    def check(s):
        probs = []
        for i in range(k):
            path = "0.%d" % i
            st, res = s.procs.get(path, ("missing", "-"))
            if st != "done":
                probs.append("receiver %s did not finish: %s" % (path, st))
                continue
            log = [pair(x) for x in reversed(cons_list(res[1]))]
            probs += _check_log(log, {7: m}, "receiver " + path)
            if s.mailboxes.get(path, 0):
                probs.append("receiver %s: messages left in the mailbox" % path)
        return probs

    return dict(name="fan_out", src=src, confluent=True, size=dict(k=k, m=m), nprocs=k + 1 + via_proc, check=check)


def t_pipeline(rng, stages=None, m=None):
    stages = stages or rng.randint(1, 4)
    m = m or rng.randint(1, 5)
    src = LOG1 + RECV1
    src += "sink = [%d, Nil] @recv1,\n" % m
    nxt = "sink"
    for k in range(stages, 0, -1):
        src += ("st%d = #'int { | =0 => Ok | =n => { x = !#'int, [x, %d] __integer_add__ %s, "
                "[n, 1] __integer_subtract__ ^ } },\n" % (k, k * 10, nxt))
        src += "p%d = %d @st%d,\n" % (k, m, k)
        nxt = "p%d" % k
    src += ", ".join("%d %s" % (j, nxt) for j in range(m)) + ",\n!sink"
    add = sum(k * 10 for k in range(1, stages + 1))

    def check(s):
        st, res = s.procs.get("0.0", ("missing", "-"))
        if st != "done":
            return ["sink did not finish: %s" % st]
        got = [as_int(x) for x in reversed(cons_list(res[1]))]
        if got != [j + add for j in range(m)]:
            return ["pipeline output %s != expected %s" % (got, [j + add for j in range(m)])]
        return []

    return dict(name="pipeline", src=src, confluent=True, size=dict(stages=stages, m=m), nprocs=stages + 2, check=check)


def t_request_reply(rng, clients=None, rounds=None):
    clients = clients or rng.randint(1, 4)
    rounds = rounds or rng.randint(1, 3)
    total = clients * rounds
    src = ("srvf = #'int { | =0 => Ok | =n => { !#[(@'int), 'int] =[c, x], [x, x] __integer_add__ c, "
           "[n, 1] __integer_subtract__ ^ } },\n")
    src += "srv = %d @srvf,\n" % total
    body = "[&., $] srv, a1 = !#'int"
    for r in range(2, rounds + 1):
        body += ", [&., a%d] srv, a%d = !#'int" % (r - 1, r)
    body += ", a%d" % rounds
    src += "cl = #'int { " + body + " },\n"
    src += ", ".join("c%d = %d @cl" % (i, i + 1) for i in range(clients)) + ",\n"
    src += "[" + ", ".join("!c%d" % i for i in range(clients)) + ", !srv]"

    def check(s):
        probs = []
        for i in range(clients):
            path = "0.%d" % (i + 1)
            st, res = s.procs.get(path, ("missing", "-"))
            want = (i + 1) * 2 ** rounds
            if st != "done" or as_int(res[1] if isinstance(res, list) and len(res) > 1 else None) != want:
                probs.append("client %s: %s %s, expected %d" % (path, st, res, want))
        return probs

    return dict(name="request_reply", src=src, confluent=True, size=dict(clients=clients, rounds=rounds),
                nprocs=clients + 2, check=check)


def _tree(rng, depth, fanout, counter, binaries):
    counter[0] += 1
    ident = counter[0]
    if depth == 0:
        if binaries and rng.random() < 0.5:
            return "@#{ 0x%02x%02x }" % (ident % 256, (ident * 7) % 256)
        return "@#{ %d }" % ident
    kids = [_tree(rng, depth - 1 if rng.random() < 0.8 else 0, fanout, counter, binaries) for _ in range(fanout)]
    binds = ", ".join("c%d = %s" % (i, k) for i, k in enumerate(kids))
    return "@#{ %s, N[%s, %d] }" % (binds, ", ".join("!c%d" % i for i in range(len(kids))), ident)


def t_await_tree(rng, depth=None, fanout=None, binaries=None):
    depth = depth or rng.randint(1, 3)
    fanout = fanout or rng.randint(1, 3)
    binaries = rng.random() < 0.5 if binaries is None else binaries
    counter = [0]
    src = "root = %s,\n!root" % _tree(rng, depth, fanout, counter, binaries)
    return dict(name="await_tree", src=src, confluent=True, size=dict(depth=depth, fanout=fanout, bin=int(binaries)),
                nprocs=counter[0] + 1)


def t_await_chain(rng, depth=None):
    depth = depth or rng.randint(1, 6)
    body = "@#{ %d }" % depth
    for d in range(depth - 1, 0, -1):
        body = "@#{ c = %s, [!c, %d] __integer_add__ }" % (body, d)
    src = "root = %s,\n!root" % body
    return dict(name="await_chain", src=src, confluent=True, size=dict(depth=depth), nprocs=depth + 1)


def t_late_await(rng, k=None):
    """Await processes that have (very probably) already finished, after some unrelated
    message round-trips; each process is awaited once (awaiting twice is F9 for binaries)."""
    k = k or rng.randint(1, 4)
    rounds = rng.randint(1, 4)
    binaries = rng.random() < 0.4
    src = "echo = @#{ " + ", ".join("!#(@'int) =c%d, %d c%d" % (j, j + 1, j) for j in range(rounds)) + ", Ok },\n"
    src += ", ".join("q%d = @#{ %s }" % (i, ("0x%02x" % (i + 1)) if binaries else str(i + 10)) for i in range(k)) + ",\n"
    # the round-trips are done by a helper process (a top-level `&.` is not receivable: finding F70)
    src += "d = @#{ " + ", ".join("&. echo, !#'int" for _ in range(rounds)) + " },\n!d,\n"
    src += "[" + ", ".join("!q%d" % i for i in range(k)) + "]"
    return dict(name="late_await", src=src, confluent=True, size=dict(k=k, rounds=rounds, bin=int(binaries)), nprocs=k + 3)


def t_select_mix(rng):
    """Selects mixing receive / process / timeout sources. Not confluent in general (timeouts
    race); used with the quiescence / no-internal-error oracles only."""
    variant = rng.randrange(4)
    t = rng.choice([0, 1, 5, 50])
    if variant == 0:
        src = "slow = @#{ !#'int }, r = ! [slow, %d], 7 slow, [r, !slow]" % t
    elif variant == 1:
        src = ("w = @#{ ! [#'int, %d] }, " % t) + rng.choice(["5 w, ", ""]) + "!w"
    elif variant == 2:
        src = ("recvr = @#{ fast = @#{ 99 }, ! [#'int, fast, %d] }, " % t) + rng.choice(["42 recvr, ", ""]) + "!recvr"
    else:
        src = ("p = @#{ ! [#'int { =42 => Ok }] }, " + ", ".join("%d p" % x for x in rng.sample([10, 20, 42, 30], rng.randint(1, 4)))
               + ", ! [p, %d]" % rng.choice([5, 100]))
    return dict(name="select_mix", src=src, confluent=False, size=dict(variant=variant, t=t), nprocs=3)


def t_resource_handoff(rng):
    """open / use / send / spawn-capture / terminate histories (C14 exploration, F10 shows here)."""
    awaited = rng.random() < 0.5
    variant = rng.randrange(3)
    if variant == 0:      # owner uses and terminates
        src = "p = @#{ r = 1 __test_open__, [r, 5] __test_use__ }, " + ("!p" if awaited else "7")
    elif variant == 1:    # hand-off by message, old owner then violates
        src = ("q = @#{ !#\\TestRes =r, [r, 7] __test_use__ }, "
               "p = @#{ r = 1 __test_open__, r q, Ok }, [!p, !q]")
    else:                 # hand-off by spawn capture
        src = "r = 1 __test_open__, c = @#{ [r, 3] __test_use__ }, " + ("!c" if awaited else "9")
    return dict(name="resource_handoff", src=src, confluent=False, size=dict(variant=variant, awaited=int(awaited)), nprocs=3)


# ---- failing member (C15) ---------------------------------------------------------------------
FAIL_SITES = ["div0", "effect_err", "open_err", "not_owner", "filter_send", "filter_spawn", "filter_select"]


def t_failing_member(rng, site=None, when=None):
    """A process F fails at `site`; awaiters A1..An await F before / during / after the failure;
    bystanders B exchange messages and must finish normally. The main process awaits only the
    bystanders (awaiting a failed process fails the awaiter, by specification)."""
    site = site or rng.choice(FAIL_SITES)
    when = when or rng.choice(["before", "during", "after"])
    n_aw = rng.randint(1, 3)
    # F waits for a go message (an int) so that `before` awaiters can register first
    pre = ""
    if site == "div0":
        fbody = "!#'int =g, [g, 0] __integer_divide__"
    elif site == "effect_err":
        fbody = "!#'int =g, r = 1 __test_open__, [r, 666] __test_use__"
    elif site == "open_err":
        fbody = "!#'int =g, r = 13 __test_open__, 5"
    elif site == "not_owner":
        pre = "keeper = @#{ !#\\TestRes =r, !#'int, [r, 1] __test_use__ },\n"
        fbody = "!#'int =g, r = 1 __test_open__, r keeper, [r, 2] __test_use__"
    elif site == "filter_send":
        pre = "sinkp = @#{ !#'int },\n"
        fbody = "! [#'int { 1 sinkp, Ok }]"
    elif site == "filter_spawn":
        fbody = "! [#'int { @#{ 1 }, Ok }]"
    else:  # filter_select
        fbody = "! [#'int { !#'int, Ok }]"
    src = pre + "f = @#{ %s },\n" % fbody
    # bystanders: a small ping-pong pair whose results are known
    src += "b1 = @#{ !#(@'int) =c, 21 c, Ok },\n"
    src += "b2 = @#{ &. b1, [!#'int, 2] __integer_multiply__ },\n"
    aw = "aw = #'int { !f },\n"
    go = "3 f"
    spawn_aw = ", ".join("a%d = %d @aw" % (i, i) for i in range(n_aw))
    # some extra traffic aimed at the failed process (must be harmless)
    extra = ", 4 f, 5 f" if rng.random() < 0.5 and site not in ("filter_send", "filter_spawn", "filter_select") else ""
    if when == "before":
        src += aw + spawn_aw + ",\n!b2 =x,\n" + go + extra + ",\nx"
    elif when == "during":
        src += aw + go + ", " + spawn_aw + extra + ",\n!b2"
    else:
        src += aw + go + extra + ",\n!b2 =x,\n" + spawn_aw + ",\nx"
    npre = 1 if pre else 0
    f_path = "0.%d" % npre
    aw_paths = ["0.%d" % (npre + 3 + i) for i in range(n_aw)]
    by_paths = {"0.%d" % (npre + 1): ("done", ["ok", ["t", "Ok", []]]), "0.%d" % (npre + 2): ("done", ["ok", ["i", "42"]])}
    return dict(name="failing_member", src=src, confluent=False, size=dict(site=site, when=when, awaiters=n_aw),
                nprocs=npre + 4 + n_aw, f_path=f_path, aw_paths=aw_paths, by_paths=by_paths, main_result=["ok", ["i", "42"]],
                site=site, when=when)


def t_await_then_spawn(rng):
    """Await a process that is still working when the await is issued, then spawn again and await
    that too (confluent). A stale empty UpdateAwaitResults reaching the awaiter while it waits for
    its spawn notification is finding F71."""
    n = rng.randint(1, 3)
    src = "a = @#{ !#'int },\n5 a,\n!a =x0,\n"
    for i in range(1, n + 1):
        src += "b%d = @#{ %s },\n!b%d =x%d,\n" % (i, rng.choice(["%d" % (i + 1), "!#'int"]), i, i) if False else ""
    parts = ["x0"]
    for i in range(1, n + 1):
        waits = rng.random() < 0.5
        src += "b%d = @#{ %s },\n" % (i, "!#'int" if waits else str(i + 1))
        if waits:
            src += "%d b%d,\n" % (i + 10, i)
        src += "!b%d =x%d,\n" % (i, i)
        parts.append("x%d" % i)
    src += "[" + ", ".join(parts) + "]"
    return dict(name="await_then_spawn", src=src, confluent=True, size=dict(n=n), nprocs=n + 2)


def f71_shape(s):
    """NARROW match for F71: no internal error, but some process failed with StackUnderflow (the
    re-executed Spawn/…), which no generated program can produce by itself."""
    return s.ok and not s.panics and not s.errs and "(err StackUnderflow" in s.line


CONFLUENT = [t_await_tree, t_await_chain, t_pipeline, t_fan_out, t_request_reply, t_late_await, t_await_then_spawn]
MESSAGE_SCENARIOS = [t_fan_in, t_fan_out, t_pipeline, t_request_reply, t_await_chain, t_late_await, t_select_mix]


# ----------------------------------------------------------------------------- shrinking

def ddmin(items, failing):
    """Classic delta debugging on a list: returns a 1-minimal sublist on which `failing` holds.
    `failing(list) -> bool`; assumes failing(items) is True."""
    n = 2
    items = list(items)
    while len(items) >= 2:
        chunk = max(1, len(items) // n)
        subsets = [items[i:i + chunk] for i in range(0, len(items), chunk)]
        reduced = False
        for i in range(len(subsets)):
            complement = [x for j, s in enumerate(subsets) if j != i for x in s]
            if failing(complement):
                items = complement
                n = max(n - 1, 2)
                reduced = True
                break
        if not reduced:
            if n >= len(items):
                break
            n = min(len(items), n * 2)
    if len(items) == 1 and failing([]):
        return []
    return items


def ddmin_batch(items, failing_many, max_rounds=80):
    """ddmin where all candidates of a round are evaluated in one batch (one simulator process).
    `failing_many(list of candidate lists) -> list of bool`."""
    items = list(items)
    n = 2
    rounds = 0
    while len(items) >= 2 and rounds < max_rounds:
        rounds += 1
        chunk = max(1, len(items) // n)
        subsets = [items[i:i + chunk] for i in range(0, len(items), chunk)]
        complements = [[x for j, sub in enumerate(subsets) if j != i for x in sub] for i in range(len(subsets))]
        verdicts = failing_many(complements)
        hit = next((k for k, v in enumerate(verdicts) if v), None)
        if hit is not None:
            items = complements[hit]
            n = max(n - 1, 2)
        else:
            if n >= len(items):
                break
            n = min(len(items), n * 2)
    return items


def shrink_schedule(run_many, prog, workers, quantum, opts, schedule_actions, predicate):
    """Shrink an explicit schedule (list of parsed actions) keeping `predicate(Summary)` true.
    `run_many(lines) -> [Summary]`. The simulator completes every schedule fairly, so removing
    actions always yields a legal schedule. First the shortest failing prefix (the tail of an
    emitted schedule is usually the fair completion), then ddmin."""
    def failing_many(cands):
        res = run_many([case_line(prog, workers, quantum, schedule_text(c), opts) for c in cands])
        return [s.ok and predicate(s) for s in res]

    if not failing_many([schedule_actions])[0]:
        return schedule_actions, False
    n = len(schedule_actions)
    cuts = sorted(set([0] + [n * k // 16 for k in range(1, 16)]))
    verdicts = failing_many([schedule_actions[:c] for c in cuts])
    for c, v in zip(cuts, verdicts):
        if v:
            schedule_actions = schedule_actions[:c]
            break
    return ddmin_batch(schedule_actions, failing_many), True


def t_priority_await(rng):
    """`!p1` first (so p1 is known to be finished), then `! [p1, p3, p2]`: by the written-order
    priority rule the result is p1's under every schedule, whatever p2/p3 are doing (confluent by
    specification; F8 breaks it)."""
    work = lambda n: ", ".join("[%d, %d] __integer_add__" % (i, i) for i in range(n))
    n2, n3 = rng.randint(0, 6), rng.randint(0, 6)
    src = "p1 = @#{ 11 },\n"
    src += "p2 = @#{ %s22 },\n" % (work(n2) + ", " if n2 else "")
    src += "p3 = @#{ %s33 },\n" % (work(n3) + ", " if n3 else "")
    order = rng.choice(["p1, p3, p2", "p1, p2, p3"])
    src += "!p1 =first,\n[first, ! [%s]]" % order
    return dict(name="priority_await", src=src, confluent=True, size=dict(n2=n2, n3=n3), nprocs=4)


def t_double_await(rng):
    """Await the same finished process twice (`!p, !p`): legal, deterministic. With a binary
    result this is the F9 trigger (leak in `initialize_select` -> debug panic)."""
    binary = rng.random() < 0.5
    nested = rng.random() < 0.5
    val = "0x0102" if binary else "7"
    body = "p = @#{ %s }, !p, !p, Ok" % val
    src = ("q = @#{ %s }, !q" % body) if nested else body
    return dict(name="double_await", src=src, confluent=True, size=dict(bin=int(binary), nested=int(nested)), nprocs=2 + nested)


# ----------------------------------------------------------------------------- running

class SimRunner:
    """Runs case lines through qv_sim (sharded) and returns Summary objects."""

    def __init__(self, ctx, exe):
        self.ctx, self.exe = ctx, exe
        self.cases_run = 0

    def run(self, lines, flags=()):
        if not lines:
            return []
        self.cases_run += len(lines)
        if len(lines) < 100:
            rc, out = self.ctx.run_bin(self.exe, lines, args=list(flags))
            out = out + ["(missing-output)"] * (len(lines) - len(out))
        else:
            rc, out = self.ctx.run_sharded(self.exe, lines, args=list(flags))
        return [Summary(o) for o in out[:len(lines)]]

    def one(self, line, flags=()):
        return self.run([line], flags)[0]

    def explicit_schedule(self, line):
        """Re-run a case with --emit-schedule; returns (Summary, list of parsed actions)."""
        s = self.one(line, flags=("--emit-schedule",))
        return s, (s.schedule or []) if s.ok else []

    def trace(self, line, limit=400):
        rc, out = self.ctx.run_bin(self.exe, [line], args=["--trace"])
        return out[:limit]


def basic_problems(s, want_quiescent=True):
    """Problems every scenario is checked for: simulator failure, hang, panic, Err, and the
    implementation-level oracles `refcounts`, `no-internal-error`, `quiescence`."""
    if not s.ok:
        return ["simulator: " + s.line[:200]]
    probs = []
    if s.hang:
        probs.append("hang " + unparse(s.hang))
    if want_quiescent and not s.quiescent:
        probs.append("not quiescent")
    for p in s.panics:
        probs.append("panic " + p)
    for e in s.errs:
        probs.append("err " + unparse(e))
    for name in ("refcounts", "quiescence"):
        for f in s.oracle_failures(name):
            probs.append("%s %s" % (name, unparse(f)))
    return probs


def corpus_lines(name):
    import os
    from vplib.common import VERIF
    p = os.path.join(VERIF, "corpus", name)
    if not os.path.exists(p):
        return []
    return [l.rstrip("\n") for l in open(p) if l.strip() and not l.startswith("#")]


def explore(ctx, runner, scenarios, nsched, judge, route=None, opts_for=None, extra_cov=None):
    """Generic exploration driver used by the C04 / C15 plugins.
    scenarios: list of template dicts; judge(tp, Summary) -> list of (kind, detail);
    route(tp, kind, Summary) -> finding key or None. One shrunk replay per (template, kind, finding)."""
    import collections
    rng = ctx.rng
    lines, meta = [], []
    for pi, tp in enumerate(scenarios):
        opts = opts_for(tp, rng) if opts_for else ""
        lines.append(case_line(tp["src"], 1, 1000, "", opts))
        meta.append((pi, (1, 1000), "fair"))
        for k in range(nsched):
            w, q = random_cfg(rng)
            sched = "" if rng.random() < 0.08 else random_schedule(rng, tick=tp["name"] == "select_mix")
            opts = opts_for(tp, rng) if opts_for else ""
            lines.append(case_line(tp["src"], w, q, sched, opts))
            meta.append((pi, (w, q), sched))
    for l in corpus_lines("sim_%s.txt" % ctx.pid.lower()):
        c = sexpr.parse(l)
        f = {x[0]: x[1:] for x in c[1:]}
        name = f.get("template", ["corpus"])[0]
        tp = dict(name=name, src=f["program"], confluent=False, size={"corpus": 1}, nprocs=0, corpus=True)
        scenarios = scenarios + [tp]
        lines.append(l)
        meta.append((len(scenarios) - 1, (int(f["workers"][0]), int(f["quantum"][0])), "corpus"))
    res = runner.run(lines)
    failures = collections.OrderedDict()
    hist_t, hist_w, hist_q = collections.Counter(), collections.Counter(), collections.Counter()
    feature = collections.Counter()
    nontrivial, actions, distinct = 0, 0, set()
    for i, (s, (pi, cfg, sched)) in enumerate(zip(res, meta)):
        tp = scenarios[pi]
        hist_t[tp["name"]] += 1
        hist_w[cfg[0]] += 1
        hist_q[cfg[1]] += 1
        for k, v in tp["size"].items():
            if isinstance(v, str):
                feature["%s=%s" % (k, v)] += 1
        if s.ok:
            actions += s.stats.get("actions", 0)
            if s.nontrivial():
                nontrivial += 1
                distinct.add(hash((str(tp["src"]), cfg, sched)))
        for kind, detail in judge(tp, s):
            fk = route(tp, kind, s) if route else None
            # one group per known finding (whatever its symptoms), else per (template, kind)
            key = ("*", "known", fk) if fk else (tp["name"], kind, None)
            failures.setdefault(key, []).append((i, detail, kind))
    known_hits = collections.Counter()
    for (tname, gkind, fk), hits in failures.items():
        i, detail, kind = min(hits, key=lambda h: len(lines[h[0]]))
        pi, cfg, sched = meta[i]
        tp = scenarios[pi]
        obj = shrunk_replay(runner, tp, lines[i], kind, detail, res[i], len(hits), lambda x, tp=tp: [k for k, _ in judge(tp, x)])
        if fk:
            known_hits[fk] += len(hits)
            obj["finding"] = fk
        ctx.violation(obj, finding_key=fk)
    cov = {
        "evaluations": len(lines), "scenarios": len(scenarios), "schedules_per_scenario": nsched,
        "actions_executed": actions, "distinct_nontrivial": len(distinct), "nontrivial_schedules": nontrivial,
        "rule": "a schedule is non-trivial when it contains a partial-visibility action ((w i k) with k < queued commands, (e k..) hiding a queued event) or a starvation stretch (an enabled component not scheduled for >= 3 consecutive actions); distinct by (program, configuration, schedule)",
        "templates": dict(hist_t), "worker_counts": {str(k): v for k, v in hist_w.items()},
        "quanta": {str(k): v for k, v in hist_q.items()}, "scenario_features": dict(feature),
        "failing_groups": {"%s/%s%s" % (t, k, "/" + f if f else ""): len(v) for (t, k, f), v in failures.items()},
        "known_finding_hits": dict(known_hits),
        "samples": [lines[0], lines[1], res[1].line[:400]] if len(lines) > 1 else [],
        "traces_validated_against_impl": 0, "disagreements_checked": sum(len(v) for v in failures.values()),
        "obligations": 0, "discharged": 0, "checker_cmd": "none (exploration; Coq model pending)",
    }
    if extra_cov:
        cov.update(extra_cov)
    ctx.cov.update(cov)
    return res, meta, failures


def shrunk_replay(runner, tp, line, kind, detail, s, count, kinds_of):
    """Confirm a failing case by re-running it, obtain its explicit schedule, shrink it."""
    again = runner.run([line, line])
    repro = sum(1 for a in again if kind in kinds_of(a))
    es, actions = runner.explicit_schedule(line)
    c = sexpr.parse(line)
    f = {x[0]: x[1:] for x in c[1:]}
    workers, quantum = int(f["workers"][0]), int(f["quantum"][0])
    opts = schedule_text(f.get("opts", []))
    shrunk, ok = actions, False
    if es.ok and kind in kinds_of(es):
        shrunk, ok = shrink_schedule(runner.run, f["program"], workers, quantum, opts, actions, lambda x: kind in kinds_of(x))
    sched_text = schedule_text(shrunk) if ok else schedule_text(f.get("schedule", []))
    replay_case = case_line(f["program"], workers, quantum, sched_text, opts)
    final = runner.one(replay_case) if ok else s
    return {
        "kind": "impl-violation", "what": kind, "detail": detail, "template": tp["name"], "size": tp["size"],
        "program": f["program"], "workers": workers, "quantum": quantum, "opts": opts,
        "original_case": line, "cases_with_this_failure": count, "reproduced": "%d/2" % repro,
        "schedule": sched_text, "schedule_shrunk": ok, "replay_case": replay_case,
        "observed": (final.line if final.ok else s.line)[:3000],
        "how_to_replay": "echo '<replay_case>' | .cache/cargo-target/debug/qv_sim --trace",
    }


# ----------------------------------------------------------------------------- trace parsing

def parse_trace(lines):
    """Parse the multi-line output of `qv_sim --trace` for ONE case into a dict:
    {"sim": [...], "lines": [(k, source, [log items])], "initial_state": <state sexp>,
     "actions": [{"n", "prelude", "action", "now", "exec", "items": [...], "outcome", "state"}], "summary": Summary}.
    Top-level forms start in column 0; continuation lines are indented."""
    chunks, cur = [], []
    for l in lines:
        if l.startswith("(") and cur:
            chunks.append("\n".join(cur))
            cur = []
        cur.append(l)
    if cur:
        chunks.append("\n".join(cur))
    out = {"sim": None, "lines": [], "initial_state": None, "actions": [], "summary": None, "programs": []}
    pending_line = None
    for ch in chunks:
        if ch.startswith("(result"):
            out["summary"] = Summary(ch)
            continue
        head = ch.split(None, 1)[0]
        if head == "(line":
            # `(line k "src")` followed by indented log items
            first, *rest = ch.split("\n")
            f = sexpr.parse(first)
            pending_line = (int(f[1]), f[2], [sexpr.parse(r) for r in rest if r.strip()])
            out["lines"].append(pending_line)
            continue
        x = sexpr.parse(ch)
        if x[0] == "sim":
            out["sim"] = x
        elif x[0] == "program":
            out["programs"].append(x)
        elif x[0] == "state":
            if out["actions"]:
                out["actions"][-1]["state"] = x
            else:
                out["initial_state"] = x
        elif x[0] == "action":
            body = x[2:]
            prelude = body and body[0] == ["prelude"]
            if prelude:
                body = body[1:]
            a = {"n": int(x[1]), "prelude": bool(prelude), "action": body[0], "now": None, "exec": None,
                 "instrs": None, "items": [], "outcome": None, "state": None}
            for it in body[1:]:
                if not isinstance(it, list) or not it:
                    continue
                if it[0] == "now":
                    a["now"] = int(it[1])
                elif it[0] == "exec":
                    a["exec"] = it[1:]
                elif it[0] == "instrs":
                    a["instrs"] = it[1:]
                elif it[0] == "outcome":
                    a["outcome"] = it[1:]
                else:
                    a["items"].append(it)
            out["actions"].append(a)
    return out


# ----------------------------------------------------------------------------- replay of a recorded violation

def replay(ctx, runner, kinds_of):
    """`./check Cxx --replay <file>`: re-run the recorded (program, configuration, schedule) on the
    current tree; the violation is reported again iff the same kind of failure still occurs.
    kinds_of(obj, Summary) -> list of failure kinds."""
    import json
    obj = json.load(open(ctx.replay_path))
    line = obj.get("replay_case") or obj.get("original_case")
    s = runner.one(line)
    kinds = kinds_of(obj, s)
    print("replay: %s" % line)
    print("observed: %s" % s.line[:1500])
    print("failure kinds now: %s (recorded: %s)" % (kinds, obj.get("what")))
    still = obj.get("what") in kinds
    ctx.cov.update({"evaluations": 1, "distinct_nontrivial": int(s.ok and s.nontrivial()), "rule": "replay of one recorded case",
                    "samples": [line], "traces_validated_against_impl": 0, "disagreements_checked": 1,
                    "replayed_failure_still_present": still, "obligations": 0, "discharged": 0,
                    "checker_cmd": "none (exploration; Coq model pending)"})
    if still:
        o = dict(obj)
        o["replayed"] = True
        o["observed"] = s.line[:3000]
        ctx.violation(o, finding_key=obj.get("finding"))
    return still
