"""Common driver library for the quiver verification checks.

A property plugin (vplib/props/cXX.py) defines `run(ctx)`; it uses the helpers of `Ctx` to
  1. build the Rust harness against /repo's *current working tree*   (ctx.harness)
  2. (re)build the property's Coq cone and audit it                     (ctx.coq_props)
  3. build the extracted-OCaml model driver                             (ctx.driver)
  4. generate cases from ctx.rng (seeded by VERIF_SEED), run both sides, diff
  5. report violations (ctx.violation) / known findings (ctx.known_finding)
  6. fill ctx.cov (coverage dict for the evidence file)
`check` writes evidence/<id>.json and sets the exit status.
"""
import hashlib, json, os, random, re, subprocess, sys, time

VERIF = os.path.dirname(os.path.dirname(os.path.abspath(__file__)))
REPO = os.environ.get("QUIVER_REPO", "/repo")
CACHE = os.path.join(VERIF, ".cache")
COQ = os.path.join(VERIF, "coq")
HARNESS = os.path.join(VERIF, "harness")
TARGET = os.path.join(CACHE, "cargo-target")
GUARD = "quiver_verif"
NCPU = os.cpu_count() or 4

FORBIDDEN = re.compile(
    r"\b(Admitted|admit|Axiom|Axioms|Parameter|Parameters|Conjecture|Hypothesis|Variable)\b|"
    r"Unset\s+Guard|bypass_check|type-in-type|impredicative-set|Admit\s+Obligations|Unset\s+Universe\s+Checking|Unset\s+Positivity")

# Axioms of the Coq standard library that a theorem may depend on (named in DESIGN.md §7).
ALLOWED_AXIOMS = {
    "functional_extensionality_dep", "FunctionalExtensionality.functional_extensionality_dep",
    "ClassicalDedekindReals.sig_forall_dec", "ClassicalDedekindReals.sig_not_dec",
    "Classical_Prop.classic", "proof_irrelevance", "JMeq_eq", "Eqdep.Eq_rect_eq.eq_rect_eq",
}


def sh(cmd, cwd=None, env=None, timeout=None, input=None):
    e = dict(os.environ)
    e.update({"CARGO_NET_OFFLINE": "true"})
    if env:
        e.update(env)
    p = subprocess.run(cmd, cwd=cwd, env=e, shell=isinstance(cmd, str), input=input,
                       stdout=subprocess.PIPE, stderr=subprocess.STDOUT, text=True, timeout=timeout)
    return p.returncode, p.stdout


class Ctx:
    def __init__(self, pid, tier, seed):
        self.pid = pid
        self.tier = tier
        self.seed = seed
        self.rng = random.Random(seed)
        self.t0 = time.time()
        self.violations = []        # list of (replay_path, no_input)
        self.known_hits = {}        # finding id -> what
        self.cov = {}
        self.assumptions = []
        self.level = "proof"
        self.findings = load_findings()
        os.makedirs(os.path.join(VERIF, "replays"), exist_ok=True)
        os.makedirs(os.path.join(VERIF, "evidence"), exist_ok=True)
        os.makedirs(CACHE, exist_ok=True)
        self.work = os.path.join(CACHE, "work", pid)
        os.makedirs(self.work, exist_ok=True)

    # ---------------------------------------------------------------- quick/thorough scaling
    def n(self, quick, thorough):
        return thorough if self.tier == "thorough" else quick

    # ---------------------------------------------------------------- Rust harness
    def harness(self, bin_name, release=False):
        """Build (incrementally) one harness binary against /repo's working tree; return its path."""
        prof = "release" if release else "debug"
        cmd = ["cargo", "build", "--offline", "--bin", bin_name] + (["--release"] if release else [])
        rc, out = sh(cmd, cwd=HARNESS, env={"RUSTFLAGS": "--cfg " + GUARD}, timeout=3000)
        if rc != 0:
            self.build_failure("harness:" + bin_name, out)
            return None
        return os.path.join(TARGET, prof, bin_name)

    def build_failure(self, what, log):
        path = self.replay({"kind": "build-broken", "what": what, "log_tail": log[-4000:]})
        self.violation_at(path, no_input=True)

    def run_bin(self, path, lines, args=(), timeout=600, env=None):
        """Feed `lines` (one case per line) to a harness/driver binary; return its stdout lines."""
        rc, out = sh([path] + list(args), input="\n".join(lines) + "\n", timeout=timeout, env=env)
        return rc, out.splitlines()

    def run_sharded(self, path, lines, args=(), shards=None, timeout=900, env=None):
        """Like run_bin, but split the cases over several processes (order preserved)."""
        import concurrent.futures as cf
        shards = shards or min(NCPU, max(1, len(lines) // 50))
        if shards <= 1:
            return self.run_bin(path, lines, args, timeout, env)
        size = (len(lines) + shards - 1) // shards
        chunks = [lines[i:i + size] for i in range(0, len(lines), size)]
        with cf.ThreadPoolExecutor(max_workers=shards) as ex:
            res = list(ex.map(lambda c: self.run_bin(path, c, args, timeout, env), chunks))
        out = []
        rc = 0
        for (r, o), c in zip(res, chunks):
            rc = rc or r
            if len(o) != len(c):
                # keep alignment: pad so that the differ reports the shard
                o = o + ["(missing-output)"] * (len(c) - len(o))
            out += o[:len(c)]
        return rc, out

    # ---------------------------------------------------------------- Coq
    def coq_make(self, targets, clean=False):
        """One `make` at a time across all processes (flock): concurrent makes would race on
        Makefile/.Makefile.d regeneration."""
        import fcntl
        os.makedirs(CACHE, exist_ok=True)
        with open(os.path.join(CACHE, "coq.lock"), "w") as lk:
            fcntl.flock(lk, fcntl.LOCK_EX)
            ensure_coq_makefile()
            if clean:
                sh(["make", "clean"], cwd=COQ, timeout=600)
                ensure_coq_makefile(force=True)
            rc, out = sh(["make", "-j%d" % NCPU] + targets, cwd=COQ, timeout=3400)
        return rc, out

    def coq_props(self, props_file=None, extra_targets=()):
        """Build the property cone theories/props/<ID>.vo, audit it, and fill the proof coverage
        keys. Returns True when every obligation is discharged."""
        pf = props_file or "theories/props/%s.v" % self.pid
        vo = pf[:-2] + ".vo"
        rc, out = self.coq_make([vo] + list(extra_targets), clean=False)
        names = theorem_names(os.path.join(COQ, pf))
        self.cov["obligations"] = len(names)
        self.cov["theorems"] = names
        self.cov["checker_cmd"] = "cd coq && coq_makefile -f _CoqProject -o Makefile && make %s (coqc 8.16.1); Print Assumptions under every theorem; forbidden-token grep" % vo
        if rc != 0:
            failing = first_coq_error(out)
            self.cov["discharged"] = 0
            self.cov["coq_error"] = failing
            self.broken_theorem = failing
            return False
        # audit: forbidden tokens anywhere in the cone; assumptions printed by the props file
        cone = coq_cone(pf)
        bad = []
        for f in cone:
            src = strip_coq_comments(open(os.path.join(COQ, f)).read())
            for m in FORBIDDEN.finditer(src):
                # `Variable`/`Hypothesis` are allowed inside a Section
                if m.group(1) in ("Variable", "Hypothesis") and in_section(src, m.start()):
                    continue
                bad.append("%s: %s" % (f, m.group(0)))
        # re-run coqc on the props file to capture Print Assumptions (dependencies are fresh)
        rc2, out2 = sh(["coqc", "-noglob", "-Q", "theories", "Quiver", pf], cwd=COQ, timeout=1200)
        axioms = parse_assumptions(out2)
        unknown = sorted(a for a in axioms if a.split(".")[-1] not in {x.split(".")[-1] for x in ALLOWED_AXIOMS})
        self.cov["axioms_used"] = sorted(axioms)
        self.cov["forbidden_tokens"] = bad
        ok = rc2 == 0 and not bad and not unknown
        self.cov["discharged"] = len(names) if ok else 0
        if not ok:
            self.broken_theorem = "audit: %s %s %s" % (bad[:3], unknown[:3], out2[-500:] if rc2 else "")
        if self.tier == "thorough" and ok:
            rc3, out3 = sh(["coqchk", "-o", "-silent", "-Q", "theories", "Quiver",
                            "Quiver." + pf[len("theories/"):-2].replace("/", ".")], cwd=COQ, timeout=3000)
            self.cov["coqchk"] = "ok" if rc3 == 0 else out3[-800:]
            if rc3 != 0:
                ok = False
                self.cov["discharged"] = 0
                self.broken_theorem = "coqchk failed"
        return ok

    def driver(self, name):
        """Build the extracted-OCaml model driver coq/driver/<name>_main.ml (+ extracted module
        produced by theories/extract/Extract<Name>.v). Returns the executable path."""
        ex_v = "theories/extract/Extract%s.vo" % name.capitalize()
        rc, out = self.coq_make([ex_v])
        if rc != 0:
            self.build_failure("coq-extract:" + name, out)
            return None
        bdir = os.path.join(CACHE, "driver", name)
        os.makedirs(bdir, exist_ok=True)
        exe = os.path.join(bdir, name + "_driver")
        ml = os.path.join(COQ, "extracted", name + "_model.ml")
        main = os.path.join(COQ, "driver", name + "_main.ml")
        common = os.path.join(COQ, "driver", "sexp.ml")
        stamp = os.path.join(bdir, "stamp")
        h = file_hash([ml, main, common])
        if os.path.exists(exe) and os.path.exists(stamp) and open(stamp).read() == h:
            return exe
        for f in (ml, ml + "i", main, common):
            if os.path.exists(f):
                sh(["cp", f, bdir])
        srcs = ["sexp.ml"]
        if os.path.exists(os.path.join(bdir, name + "_model.mli")):
            srcs.append(name + "_model.mli")
        srcs += [name + "_model.ml", name + "_main.ml"]
        rc, out = sh(["ocamlfind", "ocamlopt", "-O2" if False else "-inline", "50", "-w", "-a", "-o", exe] + srcs,
                     cwd=bdir, timeout=1200)
        if rc != 0:
            self.build_failure("ocaml-driver:" + name, out)
            return None
        open(stamp, "w").write(h)
        return exe

    # ---------------------------------------------------------------- reporting
    def replay(self, obj, tag=""):
        obj = dict(obj)
        obj.setdefault("property", self.pid)
        obj.setdefault("seed", self.seed)
        obj.setdefault("tier", self.tier)
        h = hashlib.sha1(json.dumps(obj, sort_keys=True, default=str).encode()).hexdigest()[:10]
        path = os.path.join(VERIF, "replays", "%s-%s%s.json" % (self.pid, tag, h))
        with open(path, "w") as f:
            json.dump(obj, f, indent=1, default=str)
        return path

    def violation_at(self, path, no_input=False):
        self.violations.append((path, no_input))

    def violation(self, obj, no_input=False, finding_key=None):
        """Report a violation unless it matches a *known* finding (then it is a KNOWN-FINDING)."""
        if finding_key is not None:
            f = self.findings.get(finding_key)
            if f and f.get("status") == "known" and f.get("property") == self.pid:
                self.known_hits[finding_key] = f.get("what", finding_key)
                return None
        if no_input:
            obj = dict(obj)
            obj["note"] = "no failing input found on the real code; the named theorem/correspondence no longer checks"
        path = self.replay(obj)
        self.violation_at(path, no_input)
        return path

    def finish(self):
        cov = self.cov
        cov.setdefault("trusted_base", TRUSTED_BASE)
        # keep the evidence schema-valid whatever a plugin put under a reserved key
        for k in ("evaluations", "distinct_nontrivial", "states", "transitions", "traces_validated_against_impl",
                  "obligations", "discharged", "programs", "disagreements_checked"):
            if k in cov and not (isinstance(cov[k], int) and not isinstance(cov[k], bool)):
                cov[k + "_detail"] = cov.pop(k)
        for k in ("rule", "checker_cmd", "explanation"):
            if k in cov and not isinstance(cov[k], str):
                cov[k] = json.dumps(cov[k], default=str)
        if "samples" in cov and not isinstance(cov["samples"], list):
            cov["samples"] = [cov["samples"]]
        if "exhaustive" in cov and not isinstance(cov["exhaustive"], bool):
            cov["exhaustive"] = bool(cov["exhaustive"])
        if not isinstance(cov.get("trusted_base"), list):
            cov["trusted_base"] = [str(cov.get("trusted_base"))]
        cov["trusted_base"] = [str(x) for x in cov["trusted_base"]]
        if "programs_detail" in cov and isinstance(cov["programs_detail"], dict) and isinstance(cov["programs_detail"].get("programs"), int):
            cov["programs"] = cov["programs_detail"]["programs"]
        ev = {
            "property_id": self.pid, "tier": self.tier, "seed": self.seed, "level": self.level,
            "coverage": cov, "assumptions": self.assumptions, "wall_s": round(time.time() - self.t0, 2),
            "violations": len(self.violations),
        }
        with open(os.path.join(VERIF, "evidence", self.pid + ".json"), "w") as f:
            json.dump(ev, f, indent=1, default=str)
        # known findings listed for this property are printed on every run (never added at run time)
        for k, f in sorted(self.findings.items()):
            if f.get("property") == self.pid and f.get("status") == "known":
                print("KNOWN-FINDING: property=%s %s" % (self.pid, f.get("what", k)))
        for path, no_input in self.violations:
            print("VIOLATION property=%s replay=%s%s" % (self.pid, path, " no-failing-input-found" if no_input else ""))
        return 1 if self.violations else 0


TRUSTED_BASE = [
    "Coq 8.16.1 kernel (coqc; vm_compute for finite sweeps; no native_compute)",
    "hand-written Gallina model tied to the code by differential execution (correspondence), not by translation",
    "extraction with ExtrOcamlBasic only (no Extract Constant), OCaml 4.13.1, hand-written OCaml driver",
    "Rust harness /verif/harness (path deps on /repo), Python generators and differ",
]


def load_findings():
    p = os.path.join(VERIF, "known_findings.json")
    if not os.path.exists(p):
        return {}
    return {f["id"]: f for f in json.load(open(p)).get("findings", [])}


def file_hash(paths):
    h = hashlib.sha1()
    for p in paths:
        if os.path.exists(p):
            h.update(open(p, "rb").read())
    return h.hexdigest()


def ensure_coq_makefile(force=False):
    mk = os.path.join(COQ, "Makefile")
    proj = os.path.join(COQ, "_CoqProject")
    gen_coqproject()
    if force or not os.path.exists(mk) or os.path.getmtime(mk) < os.path.getmtime(proj):
        sh(["coq_makefile", "-f", "_CoqProject", "-o", "Makefile"], cwd=COQ)


def gen_coqproject():
    """_CoqProject lists every .v under theories/ (sorted); rewritten only when the set changes."""
    files = []
    for root, _, fs in os.walk(os.path.join(COQ, "theories")):
        for f in fs:
            if f.endswith(".v"):
                files.append(os.path.relpath(os.path.join(root, f), COQ))
    text = "-Q theories Quiver\n-arg -w -arg -notation-overridden,-deprecated-hint-without-locality,-deprecated-instance-without-locality\n" + "\n".join(sorted(files)) + "\n"
    proj = os.path.join(COQ, "_CoqProject")
    if not os.path.exists(proj) or open(proj).read() != text:
        open(proj, "w").write(text)


def strip_coq_comments(src):
    out, depth, i = [], 0, 0
    instr = False
    while i < len(src):
        if not instr and src.startswith("(*", i):
            depth += 1; i += 2; continue
        if depth and src.startswith("*)", i):
            depth -= 1; i += 2; continue
        if depth == 0:
            if src[i] == '"':
                instr = not instr
            out.append(src[i])
        i += 1
    return "".join(out)


def in_section(src, pos):
    before = src[:pos]
    return len(re.findall(r"^\s*Section\s+\w+", before, re.M)) > len(re.findall(r"^\s*End\s+\w+", before, re.M)) - len(re.findall(r"^\s*Module\s+(?:Type\s+)?\w+", before, re.M))


def theorem_names(path):
    src = strip_coq_comments(open(path).read())
    return re.findall(r"^\s*(?:Theorem|Lemma|Corollary)\s+([A-Za-z0-9_']+)", src, re.M)


def first_coq_error(log):
    m = re.search(r'File "([^"]+)", line (\d+)[^\n]*\n(Error:[^\n]*(?:\n[^\n]+){0,6})', log)
    if m:
        return "%s:%s %s" % (m.group(1), m.group(2), m.group(3)[:600])
    return log[-800:]


def coq_cone(pf):
    """Transitive Quiver.* dependencies of a .v file (by scanning Require lines)."""
    seen, todo = [], [pf]
    while todo:
        f = todo.pop()
        if f in seen or not os.path.exists(os.path.join(COQ, f)):
            continue
        seen.append(f)
        src = strip_coq_comments(open(os.path.join(COQ, f)).read())
        for m in re.finditer(r"(?:From\s+Quiver\s+)?Require\s+(?:Import\s+|Export\s+)?([^.]*(?:\.[A-Za-z][^.]*)*)\.", src):
            for mod in m.group(1).split():
                mod = mod.strip()
                if mod.startswith("Quiver."):
                    mod = mod[len("Quiver."):]
                cand = "theories/" + mod.replace(".", "/") + ".v"
                if os.path.exists(os.path.join(COQ, cand)):
                    todo.append(cand)
    return seen


def parse_assumptions(out):
    """Collect axiom names from `Print Assumptions` output blocks (several blocks may be adjacent)."""
    axioms = set()
    in_ax = False
    for line in out.splitlines():
        if line.strip() == "Axioms:":
            in_ax = True
            continue
        if not in_ax:
            continue
        if line.startswith((" ", "\t")) or not line.strip():
            continue            # continuation of a type, or blank
        m = re.match(r"^([A-Za-z_][\w.']*)\s*:", line)
        if m:
            axioms.add(m.group(1))
        else:
            in_ax = False
    return axioms


def main(argv):
    import argparse, importlib
    ap = argparse.ArgumentParser()
    ap.add_argument("pid")
    ap.add_argument("--tier", default=os.environ.get("VERIF_TIER", "quick"))
    ap.add_argument("--replay")
    a = ap.parse_args(argv)
    seed = int(os.environ.get("VERIF_SEED", "20260923"))
    ctx = Ctx(a.pid, a.tier, seed)
    ctx.replay_path = a.replay
    mod = importlib.import_module("vplib.props." + a.pid.lower())
    try:
        mod.run(ctx)
    except subprocess.TimeoutExpired as e:
        ctx.violation({"kind": "check-timeout", "what": str(e)[:500]}, no_input=True)
    rc = ctx.finish()
    sys.exit(rc)
