"""C18 — the front end is total: any text yields a program or a located error.

Level: proof, PARTIAL.  Two separate layers, labelled as what they are:

theorem layer (coq/theories/props/C18.v): TERMINATION BOUNDS of the front end's genuinely recursive
    algorithms, on the executable models already tied to the code by C09 / C17: an explicit fuel
    bound for check_type_relation (Rel.v, `current_cfg`) on every bottom-up registry, recursive types
    included (the algorithm that did overflow the stack: F55; the pre-fix variant provably diverges);
    contains_cycle; totality of unescape with the located-error range, normalize_blocks, print.
    intersect_types (fuel 2n+2 suffices), compute_complement (structural fuel beyond 2n+2 irrelevant).
    The correspondence MEASURES the recursion depth of the model (minimal sufficient fuel) against
    the proved bound on generated registries (C09's generators + the F55 shapes) and checks that the
    real `is_compatible` / `types_overlap` terminate on them with the model's answers.

search layer (NOT a proof): the parser and the compiler driver are ~13 kLoC of Rust whose failure
    modes (unwrap / slicing / stack exhaustion / backtracking blow-up) no Gallina model covers.  They
    are run - `quiver_compiler::parse`, then `Compiler::compile`, nothing executed - in child
    processes with a fixed 8 MiB stack and a per-case CPU watchdog (harness qv_front) on: every
    repository source, prefixes, single-token deletion / duplication / substitution, character
    edits, nesting amplification up to the property's bound of 100, string-scanner stress texts,
    arbitrary texts over a weighted alphabet, grammar-generated programs and their mutants.
    Oracles: no panic / abort / timeout; a parse error's position lies inside the input and its
    line / column agree with the text; the outcome is deterministic."""
import hashlib, os
from vplib import sexpr, testsrc
from vplib.common import VERIF
from vplib import common as _common
# VERIF_JOBS caps the fan-out (shared machine); default: all cores
NCPU = max(1, min(_common.NCPU, int(os.environ.get("VERIF_JOBS", str(_common.NCPU)))))
from vplib.props import c18gen

MANIFEST = dict(
    category="proof",
    text="PARTIAL. PROVED (Coq, on the executable models that C09/C17 tie to the code by differential execution) - termination bounds of the front end's recursive algorithms, nothing else: (1) check_rel_terminates, in full, recursive types included: for every registry whose ids are topologically ordered (what Program::register_* builds bottom-up; back-references are Cycle(depth)) with n types, check_type_relation as in /repo (assumptions recorded for unions AND callables, retracted on failure, two stacks - and every model variant that records the callable assumption), both modes, every pair of ids, answers within fuel B(n) = n^2(4n+5)+4n+4, i.e. its recursion depth is at most B(n); general form from any reachable state with the measure (unassumed pairs, pair weight); both hypotheses are necessary: without the callable assumption (the code before e7dcc7d, finding F55) NO fuel is enough on a 5-type registry (check_rel_diverges_without_callable_assumption, for all fuel), and an id cycle through the tuple table exceeds 100 B(n); (2) narrowing: contains_cycle terminates within n+1; intersect_types / intersect_pair (incl. the exact-meet arms for callable and process types), in full: on every registry with topologically ordered ids and in-range tuple ids, structural fuel 2n+2 and relation fuel B(n) suffice for every pair of ids - the registry grows during the run but the recursion descends ids of the starting registry only, and the relation checks run on such ids (check_rel_fuel_enough and contains_cycle are proved WINDOWED: only the ids below K need be ordered, the bound is in K); compute_complement / subtract_one: recursion depth at most 2n+2, stated as irrelevance of the structural fuel beyond the bound for every relation fuel (results are fed back as operands; the measure is the id of the narrowed side, which never is a result) - if any structural fuel >= 2n+2 answers, 2n+2 gives the same answer; union_type_ids is not recursive; (3) parse_string_content with its position bookkeeping is total and its located error lies inside the segment and starts at the offending backslash (escape_error_offset_in_range; the span's END can fall inside a multi-byte character - latent, the caller drops the value); normalize_blocks is structurally recursive (the statement records only that); print is total (re-exported from C17). NOT PROVED: that a relation fuel given in n alone suffices for the relation checks made INSIDE compute_complement (they see ids registered during the run; the model's minimal structural fuel is measured on every run against the proved 2n+2 with a large relation fuel); anything about parser.rs / compiler.rs. SEARCHED ONLY, not proved: totality of the nom parser and of the compiler driver (no panic / abort / non-termination on texts of bracket nesting <= 100) and in-range, line/column-consistent positions of parse errors - robustness search on the real parse + Compiler::compile in watchdogged child processes (8 MiB stack, 5 s CPU per case, timeouts confirmed in isolation) over repository sources, token- and character-level mutants, prefixes, nesting amplification to depth 100, string-scanner stress, arbitrary text, grammar-generated programs; determinism checked on a re-run sample. The parser has no nesting-depth guard (none to model); known finding F77: parse time exponential in '(' nesting depth.",
    design_ref="§6 (was: not applicable), §5 C09/C17 models",
    note="A total Gallina function proves nothing about Rust panics: the theorems are termination bounds of modelled algorithms only; everything about parser.rs/compiler.rs is a search result. Trusted: Coq kernel, extraction, OCaml driver, Rust harness (child processes, /proc CPU watchdog), generators. Timeouts are confirmed by an isolated re-run before they count.",
    technique="Coq proof (fuel-sufficiency / termination bounds on executable models) + measured model recursion depth vs bound + robustness search of the real front end in watchdogged child processes with crash / timeout / position / determinism oracles",
)

CASE_MS = 5000
PAREN_KEY = "F77"             # exponential parse time in '(' nesting (known finding, id assigned by main)
PAREN_SIG_DEPTH = 14
INDEX_KEY = "F78"             # panic on a positional index >= 2^64 (fixed e9f4937: status fixed suppresses nothing)


def enc(text):
    return "x" + text.encode("utf-8").hex()


def outcome_key(o):
    p = o.split(" ")
    if o.startswith("(parsed)") or o.startswith("(parse-error"):
        return " ".join(p[:2])
    return p[0] + (")" if not p[0].endswith(")") else "")


def bad(o):
    return o.startswith("(panic") or o.startswith("(parsed) (panic") or o.startswith("(abort") or o.startswith("(timeout") \
        or o.startswith("(missing-output") or o.startswith("(invalid-utf8")


def position_ok(text, o):
    """a parse error's reported position lies inside the input and line/column agree with the text
    (nom_locate: 1-based line, 1-based BYTE column, byte offset).  Returns None or a reason."""
    p = o.strip("()").split(" ")
    if p[0] != "parse-error":
        return None
    if p[2:] == ["nospan"]:
        return None          # Incomplete: never produced by complete parsers; nothing to check
    try:
        off, line, col = int(p[2]), int(p[3]), int(p[4])
    except (ValueError, IndexError):
        return "unreadable position"
    b = text.encode("utf-8")
    if not (0 <= off <= len(b)):
        return "offset %d outside [0, %d]" % (off, len(b))
    if off < len(b) and (b[off] & 0xC0) == 0x80:
        return "offset %d is not a character boundary" % off
    want_line = 1 + b.count(b"\n", 0, off)
    last_nl = b.rfind(b"\n", 0, off)
    want_col = off - last_nl
    if line != want_line:
        return "line %d, text says %d" % (line, want_line)
    if col != want_col:
        return "column %d, text says %d" % (col, want_col)
    return None


class Front:
    def __init__(self, ctx, exe):
        self.ctx, self.exe = ctx, exe
        self.runs = 0

    def run(self, texts, times=False, case_ms=CASE_MS, shards=None):
        lines = [enc(t) for t in texts]
        args = ["--case-ms", str(case_ms)] + (["--times"] if times else [])
        self.runs += len(lines)
        rc, out = self.ctx.run_sharded(self.exe, lines, args=args, shards=shards or min(NCPU, max(1, len(lines) // 8)), timeout=3000)
        res = []
        for o in out:
            a, _, ms = o.partition("\t")
            res.append((a, int(ms) if ms.isdigit() else -1))
        return res

    def one(self, text, case_ms=CASE_MS):
        return self.run([text], case_ms=case_ms, shards=1)[0][0]


def ddmin(front, text, failing, budget=400):
    """delta debugging over characters; `failing(outcome)` is the predicate to preserve.  Candidates
    of one round are evaluated in one sharded batch."""
    chars = list(text)
    n = 2
    used = 0
    while len(chars) >= 2 and used < budget:
        size = max(1, len(chars) // n)
        cands = []
        for i in range(0, len(chars), size):
            c = chars[:i] + chars[i + size:]
            if c and c18gen.nesting("".join(c)) <= 100:
                cands.append(c)
        if not cands:
            break
        outs = front.run(["".join(c) for c in cands])
        used += len(cands)
        hit = next((c for c, (o, _) in zip(cands, outs) if failing(o)), None)
        if hit is not None:
            chars = hit
            n = max(n - 1, 2)
        else:
            if size == 1:
                break
            n = min(len(chars), n * 2)
    return "".join(chars)


def load_corpus(name):
    p = os.path.join(VERIF, "corpus", name)
    out = []
    if os.path.exists(p):
        for l in open(p):
            l = l.rstrip("\n")
            if l.strip() and not l.startswith("#"):
                out.append(l)
    return out


def run(ctx):
    import time
    t0 = time.time()
    timings = {}
    ok = ctx.coq_props()
    timings["coq_s"] = round(time.time() - t0, 1)
    qf = ctx.harness("qv_front")
    if not qf:
        return
    rng = ctx.rng
    front = Front(ctx, qf)
    if getattr(ctx, "replay_path", None):
        return replay(ctx, front)

    # ------------------------------------------------------------------ inputs
    sources = [(o, s) for o, s in testsrc.all_sources()]
    # grammar-generated valid programs (C17's concrete-syntax generator, C02's typed generator): run
    # verbatim and used as mutation seeds
    from vplib.props.c17gen import Gen as G17
    from vplib.props import c02gen
    ngen = ctx.n(120, 1500)
    gen_sources = []
    for i in range(ngen):
        try:
            if i % 3 == 0:
                gen_sources.append(("c02gen:%d" % i, c02gen.generate(rng)))
            else:
                g = G17(rng, noise=rng.choice([0.0, 0.3, 0.6]), comments=rng.choice([0.0, 0.3]), typed=(i % 3 == 1), budget=rng.choice([10, 25, 40, 80]))
                gen_sources.append(("c17gen:%d" % i, g.program()))
        except (IndexError, ValueError, KeyError, RecursionError):
            continue
    seeds = sources + gen_sources
    cases = []           # (class, origin, text, expect-or-None)
    for l in load_corpus("c18_probes.txt"):
        parts = sexpr.parse("(" + l + ")")
        cases.append(("corpus", "corpus", parts[0], parts[1][1] if len(parts) > 1 else None))
    ncorpus = len(cases)
    for o, s in seeds:
        if c18gen.nesting(s) <= 100:
            cases.append(("source", o, s, None))
    for t in c18gen.depth_probes():
        cases.append(("depth-probe", "-", t, None))
    shapes = c18gen.paren_probes()
    for name, f in shapes.items():
        for d in (1, 2, 4, 6, 8):
            cases.append(("paren-shallow", name, f(d), None))
    # type definitions, drawn systematically (compiler-totality leg: typing.rs resolution, spreads, partials, generics)
    for t in c18gen.typedef_probes():
        if c18gen.nesting(t) <= 100:
            cases.append(("typedef-probe", "-", t, None))
    tprogs, tstats = c18gen.typedef_programs(rng, ctx.n(1800, 30000))
    for t in tprogs:
        cases.append(("typedefs", "-", t, None))
    tm = c18gen.Mut(rng, [("typedefs", t) for t in tprogs])
    for _ in range(ctx.n(600, 10000)):
        o, src = tm.pick_source()
        t = getattr(tm, rng.choice(["delete", "substitute", "duplicate", "charmut", "prefix"]))(src)
        if c18gen.nesting(t) <= 100 and c18gen.paren_depth(t) <= 12:
            cases.append(("typedefs-mutant", "-", t, None))
    nmut = ctx.n(6000, 150000)
    for k, o, t in c18gen.generate(rng, seeds, nmut):
        cases.append((k, o, t, None))
    # determinism: a sample is run a second time (it lands in another shard / process)
    ndet = max(50, len(cases) // 12)
    det_idx = rng.sample(range(len(cases)), min(ndet, len(cases)))
    texts = [c[2] for c in cases] + [cases[i][2] for i in det_idx]
    timings["generate_s"] = round(time.time() - t0 - timings["coq_s"], 1)
    t1 = time.time()
    res = front.run(texts, times=True)
    timings["front_main_batch_s"] = round(time.time() - t1, 1)
    outs = [r[0] for r in res[:len(cases)]]
    ms = [r[1] for r in res[:len(cases)]]
    det_outs = [r[0] for r in res[len(cases):]]

    # ------------------------------------------------------------------ the exponential-paren probes (known finding)
    deep = []            # (shape, depth, text)
    for name in ("term", "type-valid", "or-valid"):
        deep.append((name, 40, shapes[name](40)))
    deep.append(("term", 100, shapes["term"](100)))
    deep_res = front.run([d[2] for d in deep], times=True, shards=len(deep))
    curve = {}
    curve_depths = [4, 8, 10, 12, 14, 16]
    curve_cases = [(n, d, shapes[n](d)) for n in ("term", "type-valid", "or-valid") for d in curve_depths]
    curve_res = front.run([c[2] for c in curve_cases], times=True, case_ms=20000, shards=min(NCPU, len(curve_cases)))
    for (n, d, _), (o, t) in zip(curve_cases, curve_res):
        curve.setdefault(n, {})[d] = t if t >= 0 else o

    # ------------------------------------------------------------------ oracles
    failures = []        # (index or None, kind, text, outcome, detail)
    # (1) no panic / abort / timeout.  A timeout / abort is confirmed by an isolated re-run.
    suspects = [i for i, o in enumerate(outs) if bad(o)]
    confirmed = {}
    if suspects:
        again = front.run([cases[i][2] for i in suspects], shards=min(NCPU, len(suspects)))
        for i, (o2, _) in zip(suspects, again):
            if bad(o2):
                confirmed[i] = o2
    flaky = [i for i in suspects if i not in confirmed]
    for i, o in confirmed.items():
        failures.append((i, "crash", cases[i][2], o, "first run: %s" % outs[i]))
    for (name, d, t), (o, _) in zip(deep, deep_res):
        if bad(o):
            failures.append((None, "crash", t, o, "deep '(' probe %s depth %d" % (name, d)))
    # (2) position of parse errors
    pos_checked = 0
    for i, o in enumerate(outs):
        if o.startswith("(parse-error"):
            pos_checked += 1
            why = position_ok(cases[i][2], o)
            if why:
                failures.append((i, "position", cases[i][2], o, why))
    # (3) determinism
    kind_only_diffs = 0
    for k, i in enumerate(det_idx):
        if k < len(det_outs) and det_outs[k] != outs[i] and not bad(det_outs[k]) and not bad(outs[i]):
            coarse = lambda o: "(parsed) (compile-error" if o.startswith("(parsed) (compile-error") else o
            if coarse(det_outs[k]) == coarse(outs[i]):
                kind_only_diffs += 1       # which compile error is reported first is not part of the property
                continue
            failures.append((i, "nondeterministic", cases[i][2], outs[i], "second run: %s" % det_outs[k]))
    # (4) corpus expectations (must-pass probes)
    for i in range(ncorpus):
        want = cases[i][3]
        if want and not outs[i].startswith(want):
            failures.append((i, "regression-probe", cases[i][2], outs[i], "expected %s" % want))

    # ------------------------------------------------------------------ report (shrunk, known-finding routing)
    reported = {}
    known = unmatched = 0
    for (i, kind, text, o, detail) in failures:
        is_paren = kind == "crash" and o.startswith("(timeout") and c18gen.paren_depth(text) >= PAREN_SIG_DEPTH
        sig = (kind, outcome_key(o), is_paren)
        reported[sig] = reported.get(sig, 0) + 1
        if reported[sig] > 2 and not is_paren:
            unmatched += 1
            continue
        if is_paren:
            obj = {"kind": "impl-violation", "oracle": "no-timeout", "input": text[:2000], "outcome": o, "paren_depth": c18gen.paren_depth(text),
                   "detail": detail, "matched_signature": PAREN_KEY, "replay_line": enc(text)}
            f = ctx.findings.get(PAREN_KEY)
            if f and f.get("status") == "known" and f.get("property") == ctx.pid:
                known += 1
                if reported[sig] <= 1:
                    ctx.violation(obj, finding_key=PAREN_KEY)
                else:
                    ctx.known_hits[PAREN_KEY] = f.get("what", PAREN_KEY)
                continue
            if reported[sig] > 1:
                unmatched += 1
                continue
            ctx.violation(obj)
            unmatched += 1
            continue
        if kind == "crash" and is_index_overflow(text, o) and INDEX_KEY:
            f = ctx.findings.get(INDEX_KEY)
            if f and f.get("status") == "known" and f.get("property") == ctx.pid:
                known += 1
                ctx.violation({"kind": "impl-violation", "oracle": "no-panic", "input": text[:500], "outcome": o, "matched_signature": INDEX_KEY,
                               "replay_line": enc(text)}, finding_key=INDEX_KEY)
                continue
        unmatched += 1
        if kind == "crash":
            pred = (lambda key: (lambda x: outcome_key(x) == key))(outcome_key(o))
        elif kind == "position":
            pred = None
        else:
            pred = None
        small = text
        if pred is not None and len(text) <= 3000:
            small = ddmin(front, text, pred, budget=ctx.n(300, 1500))
            if not pred(front.one(small)):
                small = text
        elif kind == "position" and len(text) <= 3000:
            small = shrink_position(front, text)
        ctx.violation({"kind": "impl-violation", "oracle": {"crash": "no panic / abort / timeout", "position": "a parse error's position lies inside the input and line/column agree with the text",
                                                               "nondeterministic": "same text, same outcome", "regression-probe": "must-pass probe"}[kind],
                       "input": small, "replay_line": enc(small), "outcome": front.one(small) if small != text else o,
                       "original_input": text[:2000] if small != text else None, "detail": detail,
                       "class": cases[i][0] if i is not None else "probe", "origin": cases[i][1] if i is not None else "-"})

    # ------------------------------------------------------------------ model layer: recursion depth vs proved bound
    t2 = time.time()
    timings["probes_oracles_shrinking_s"] = round(t2 - t1 - timings["front_main_batch_s"], 1)
    model_cov = model_layer(ctx, ok)
    timings["model_layer_s"] = round(time.time() - t2, 1)

    # ------------------------------------------------------------------ evidence
    by_class, hist = {}, {}
    for c, o in zip(cases, outs):
        by_class[c[0]] = by_class.get(c[0], 0) + 1
        k = outcome_key(o)
        hist[k] = hist.get(k, 0) + 1
    seen, nontrivial = set(), 0
    for c, o in zip(cases, outs):
        h = hashlib.sha1(c[2].encode("utf-8")).hexdigest()
        if h in seen:
            continue
        seen.add(h)
        if c[0] != "source" and len(c[2]) >= 3:
            nontrivial += 1
    nest_all = max(c18gen.nesting(c[2]) for c in cases)
    nest_parsed = max([c18gen.nesting(c[2]) for c, o in zip(cases, outs) if o.startswith("(parsed)")] or [0])
    nest_compiled = max([c18gen.nesting(c[2]) for c, o in zip(cases, outs) if o.startswith("(parsed) (compiled")] or [0])
    slow = sorted(((t, i) for i, t in enumerate(ms) if t >= 1000), reverse=True)[:5]
    ctx.cov.update({
        "evaluations": len(cases) + len(det_idx) + len(deep) + len(curve_cases), "distinct_nontrivial": nontrivial,
        "rule": "search layer: distinct input texts (SHA-1) that are not a verbatim repository/generated source and have >= 3 characters; every text has bracket nesting <= 100",
        "inputs_by_class": by_class, "outcomes": hist,
        "typedef_constructs_generated": dict(sorted(tstats.items())),
        "typedef_outcomes": typedef_hist(cases, outs),
        "parse_error_positions_checked": pos_checked,
        "determinism_pairs": len(det_idx), "determinism_compile_error_kind_only_differences": kind_only_diffs,
        "max_bracket_nesting_generated": nest_all, "max_bracket_nesting_parsed": nest_parsed, "max_bracket_nesting_compiled": nest_compiled,
        "stack_mb": 8, "case_cpu_ms_limit": CASE_MS,
        "max_case_ms": max(ms) if ms else 0, "slowest_cases": [{"ms": t, "class": cases[i][0], "input": cases[i][2][:160]} for t, i in slow],
        "timeouts_not_reproduced_in_isolation": len(flaky),
        "paren_nesting_ms_by_depth": curve, "deep_paren_probes": [{"shape": n, "depth": d, "outcome": o} for (n, d, _), (o, _) in zip(deep, deep_res)],
        "failures_matching_known_findings": known, "failures_unmatched": unmatched,
        "traces_validated_against_impl": model_cov.get("registries_real_agrees", 0),
        "disagreements_checked": model_cov.get("disagreements", 0),
        "samples": [{"class": c[0], "input": c[2][:200], "outcome": o} for c, o in list(zip(cases, outs))[ncorpus + len(seeds) + 60::max(1, len(cases) // 6)][:6]],
        "model_layer": model_cov, "timings_s": timings,
        "search_is_not_proof": "parser/compiler totality and error positions are searched, not proved",
    })
    if not ok:
        ctx.violation({"kind": "theorem-broken", "theorem": getattr(ctx, "broken_theorem", "?"),
                       "searched": "%d front-end inputs, %d unmatched failures; model depth-vs-bound on %d registries" % (len(cases), unmatched, model_cov.get("registries", 0))},
                      no_input=(unmatched == 0))


def replay(ctx, front):
    """./check C18 --replay <file>: re-run the recorded input on the current tree"""
    import json
    obj = json.load(open(ctx.replay_path))
    line = obj.get("replay_line")
    if line and line.startswith("x"):
        text = bytes.fromhex(line[1:]).decode("utf-8")
    else:
        text = obj.get("input")
    if text is None:
        print("replay: no input in", ctx.replay_path)
        return
    o1, o2 = front.one(text), front.one(text)
    why = position_ok(text, o1)
    print("replay: outcome now: %s%s" % (o1, (" ; position: " + why) if why else ""))
    ctx.cov.update({"evaluations": 2, "distinct_nontrivial": 1, "rule": "replay of one input", "samples": [text[:300]],
                    "traces_validated_against_impl": 0, "disagreements_checked": 1})
    if bad(o1) or why or o1 != o2:
        is_paren = o1.startswith("(timeout") and c18gen.paren_depth(text) >= PAREN_SIG_DEPTH
        ctx.violation({"kind": "impl-violation", "input": text[:2000], "replay_line": enc(text), "outcome": o1, "second_outcome": o2,
                       "position": why}, finding_key=PAREN_KEY if is_paren else None)


def is_index_overflow(text, o):
    """signature of the positional-index overflow: a panic inside parser.rs on a text that has a digit
    run of value >= 2^64 directly after a '.'"""
    import re
    if "(panic \"quiver-compiler/src/parser.rs:" not in o:
        return False
    return any(int(m.group(1)) >= 2 ** 64 for m in re.finditer(r"\.([0-9]{20,})", text))


def typedef_hist(cases, outs):
    h = {}
    for c, o in zip(cases, outs):
        if c[0].startswith("typedef"):
            k = c[0] + " " + (" ".join(o.split(" ")[:3]) if o.startswith("(parsed) (compile-error") else outcome_key(o))
            h[k] = h.get(k, 0) + 1
    return dict(sorted(h.items()))


def shrink_position(front, text):
    def failing(o):
        return False
    chars = text
    # ddmin with the position oracle re-evaluated on each candidate
    n = 2
    used = 0
    while len(chars) >= 2 and used < 300:
        size = max(1, len(chars) // n)
        cands = [chars[:i] + chars[i + size:] for i in range(0, len(chars), size)]
        cands = [c for c in cands if c and c18gen.nesting(c) <= 100]
        if not cands:
            break
        outs = front.run(cands)
        used += len(cands)
        hit = next((c for c, (o, _) in zip(cands, outs) if position_ok(c, o)), None)
        if hit is not None:
            chars = hit
            n = max(n - 1, 2)
        else:
            if size == 1:
                break
            n = min(len(chars), n * 2)
    return chars


# ---------------------------------------------------------------------- model layer
def model_layer(ctx, ok):
    """Measure the recursion depth of the check_rel / narrowing models (minimal sufficient fuel,
    computed by the extracted model itself) against the proved bounds on generated registries, and
    check that the REAL functions terminate on the same graphs with the model's answers."""
    from vplib.props import c09
    cov = {}
    drv = ctx.driver("front")
    qt = ctx.harness("qv_types")
    if not drv or not qt:
        return cov
    rng = ctx.rng
    lines, profs = [], []
    for l in c09.load_corpus("c09_graphs.txt"):
        k = l.find(" (expect ")
        l = l[:k] if k >= 0 else l
        # C09's corpus grows query kinds of its own (filter, unionids, ...): this leg knows the four
        # recursive algorithms only; drop the others, and the line if nothing is left
        j = l.find(" (qs ")
        if j >= 0:
            import re as _re
            body = "".join(" " + m.group(0) for m in _re.finditer(r"\((\w+)[^()]*\)", l[j + 4:])
                           if m.group(1) in ("compat", "overlap", "isect", "compl"))
            if not body:
                continue
            l = l[:j] + " (qs" + body + ")"
        lines.append(l)
        profs.append("c09-corpus")
    for l in load_corpus("c18_graphs.txt"):
        lines.append(l)
        profs.append("c18-corpus")
    n = ctx.n(1200, 20000)
    order = ["higher"] * 4 + ["fo"] * 2 + ["partial"] + ["shared"] + ["partial_rec"] + ["recfn"] * 3
    for i in range(n):
        p = order[i % len(order)]
        if p == "recfn":
            reg, qs = gen_recursive_callables(rng)
        elif p in c09.TEMPLATES:
            reg, qs, _ = c09.TEMPLATES[p](rng)
        else:
            reg, roots, _ = c09.gen_case(rng, p, max_types=rng.choice([12, 20, 30]))
            if len(roots) < 2:
                continue
            qs = c09.queries_for(rng, roots, 4)
        qs = [q for q in qs if q[0] in ("compat", "overlap", "isect", "compl")]
        lines.append(c09.case_line(reg, qs))
        profs.append(p)
    rc, mout = ctx.run_sharded(drv, lines, timeout=2400)
    real = c09.run_resilient(ctx, qt, lines)
    worst = {"rel": (0, 0, None), "narrow": (0, 0, None)}
    over_bound = []
    narrow_over = 0
    disagreements = 0
    agrees = 0
    rel_queries = narrow_queries = nontopo = 0
    hist_n, hist_d = {}, {}
    for line, p, m, r in zip(lines, profs, mout, real):
        pm = c09.parse_out(m)
        if not pm or "n" not in pm:
            over_bound.append((line, m, "model-output"))
            continue
        nn = int(pm["n"][0])
        hist_n[min(nn // 5 * 5, 40)] = hist_n.get(min(nn // 5 * 5, 40), 0) + 1
        if pm["topo"][0] != "1":
            nontopo += 1        # outside the theorem's hypothesis (never produced by the generators)
        for d, bound in pm.get("reldepths", []):
            rel_queries += 1
            if d == "over":
                if pm["topo"][0] == "1":
                    over_bound.append((line, m, "rel"))
                continue
            d, bound = int(d), int(bound)
            hist_d[min(d // 4 * 4, 40)] = hist_d.get(min(d // 4 * 4, 40), 0) + 1
            if d > worst["rel"][0]:
                worst["rel"] = (d, bound, line)
        hyp = pm["topo"][0] == "1" and pm.get("closed", ["1"])[0] == "1"
        for d, bound in pm.get("narrowdepths", []):
            narrow_queries += 1
            if d == "over" or int(d) > int(bound):
                narrow_over += 1
                if hyp:
                    # C18_intersect_types_terminates / C18_complement_bound_suffices: the model never needs more
                    over_bound.append((line, m, "narrow"))
                continue
            if int(d) > worst["narrow"][0]:
                worst["narrow"] = (int(d), int(bound), line)
        # the real functions terminated (no crash) and gave the model's answers at the proved fuel
        pr = c09.parse_out(r)
        if r == "(crash)" or not pr or "rs" not in pr:
            disagreements += 1
            ctx.violation({"kind": "impl-violation", "statement": "is_compatible / types_overlap / narrowing terminate on every registry (the model provably does, within the bound)",
                           "case": line, "real_output": r, "model_output": m})
            continue
        if [x for x in pr["rs"]] != [x for x in pm.get("rs", [])]:
            disagreements += 1
            if disagreements <= 3:
                ctx.violation({"kind": "correspondence-broken", "correspondence": "Rel.v/Narrow.v at the proved fuel vs types.rs/narrowing.rs",
                               "case": line, "real_output": r, "model_output": m}, no_input=True)
        else:
            agrees += 1
    for (line, m, kind) in over_bound[:3]:
        ctx.violation({"kind": "theorem-broken", "theorem": "C18_check_rel_terminates / C18_narrow_terminates: the extracted model needed more fuel than the proved bound (%s)" % kind,
                       "case": line, "model_output": m}, no_input=True)
    cov.update({
        "registries": len(lines), "registries_by_profile": {p: profs.count(p) for p in sorted(set(profs))},
        "registry_sizes_hist": {str(k): v for k, v in sorted(hist_n.items())},
        "max_model_recursion_depth_check_rel": worst["rel"][0], "bound_at_that_registry": worst["rel"][1],
        "worst_case_check_rel": worst["rel"][2],
        "check_rel_queries_measured": rel_queries, "check_rel_depth_hist": {str(k): v for k, v in sorted(hist_d.items())},
        "max_model_recursion_depth_narrow": worst["narrow"][0], "narrow_bound_2n+2_at_that_registry": worst["narrow"][1],
        "narrow_queries_measured": narrow_queries, "narrow_depth_over_proved_bound": narrow_over,
        "narrow_note": "intersect_types: fuel 2n+2 proved sufficient (C18_intersect_types_terminates); compute_complement: structural fuel beyond 2n+2 proved irrelevant (C18_complement_fuel_irrelevant); the measured minimal fuel must never exceed 2n+2",
        "registries_outside_topo_hypothesis": nontopo,
        "depth_over_bound": len(over_bound), "registries_real_agrees": agrees, "disagreements": disagreements,
    })
    return cov


def gen_recursive_callables(rng):
    """F55 shapes: function types that refer back to themselves (or to an enclosing union) through
    `^` in parameter / result / receive position, compared against another such type."""
    from vplib.props import c09
    reg = c09.Reg()
    leafs = [("int",), ("bin",), ("ref",)]

    def leaf():
        return reg.ty(rng.choice(leafs))

    def comp(depth_here):
        r = rng.random()
        if r < 0.45:
            return reg.ty(("cycle", rng.choice([1, 1, 2][:max(1, depth_here)])))
        if r < 0.7:
            return leaf()
        if r < 0.85:
            return reg.ty(("tuple", reg.tu(rng.choice([None, 0]), [(None, reg.ty(("cycle", 1)))])))
        return reg.ty(("union", ()))

    def fn(depth_here):
        p, r_, rc = comp(depth_here), comp(depth_here), (reg.ty(("union", ())) if rng.random() < 0.6 else comp(depth_here))
        if rng.random() < 0.35:
            inner = reg.ty(("fn", comp(depth_here + 1), comp(depth_here + 1), reg.ty(("union", ()))))
            if rng.random() < 0.5:
                p = inner
            else:
                r_ = inner
        return reg.ty(("fn", p, r_, rc))

    roots = []
    for _ in range(rng.choice([2, 3, 4])):
        f = fn(1)
        if rng.random() < 0.4:
            f = reg.ty(("union", tuple(dict.fromkeys([f, leaf(), fn(2)]))))
        if f not in roots:
            roots.append(f)
    qs = []
    for a in roots:
        for b in roots:
            if a != b:
                qs += [("compat", a, b), ("overlap", a, b)]
    if len(roots) >= 2:
        qs += [("isect", roots[0], roots[1]), ("compl", roots[0], roots[1])]
    return reg, qs
