"""C11 — REPL evaluation is equivalent to evaluating the lines as one program.

theorem layer : coq/theories/props/C11.v (model repl/Repl.v of the bookkeeping of repl.rs `evaluate` /
                `compact` / `keep_indices`, worker.rs `compact_locals` / `resume_process` / `get_result`,
                executor.rs `replace_locals` / `release_orphan_locals`, compiler.rs `local_count`)
correspondence: (a) the real `Repl::evaluate` driven line by line (real Environment + Workers, harness
                    qv_repl); after every line the binding map (hook `Repl::verif_bindings`), the whole
                    locals vector of the REPL process, `get_variables` order, every `request_variable`
                    and the stored result are compared with the extracted model fed the same line facts
end-to-end    : (b) real vs real: every history is also compiled and run as ONE program; the value of the
                    line that ends with step j must be the value of the program made of steps 1..j; all
                    ways of cutting the steps into lines (<= 6 free cut points, sampled above), rejected
                    lines in between must leave every observable (variables, values, stored result)
                    unchanged, all splittings must end with the same variables
                (c) `Executor::check_refcounts()` on every worker after every line (binary-valued bindings
                    shadowed and compacted)
impl oracle   : a value difference between the REPL line and the one-program step, a rejected line that
                changes an observable, a refcount failure, a panic / worker error, are violations on their
                own (replay = the history, shrunk by removing lines)."""
import hashlib, itertools, json, os, re
from vplib import sexpr

MANIFEST = dict(
    category="proof",
    text="Coq theorems on a model of the REPL bookkeeping (repl.rs evaluate/compact/keep_indices, worker.rs compact_locals/resume_process/get_result, executor.rs replace_locals/release_orphan_locals, compiler.rs local_count): the alignment invariant (every bound variable's slot holds its value) is preserved by compaction, by a successful line that stores every slot it binds, and by orphan release; a line rejected by the parser leaves the session identical, one rejected by the compiler leaves it observationally identical (get_variables order and every request_variable answer agree) up to the renumbering compaction applies first; folding an abstract step function line by line with the session threaded equals running the steps as one sequence for every way of cutting them into lines, as long as no intermediate result is nil. Validated, not proved: that the model is the code (differential execution of the extracted model against the real Repl after every line), and the end-to-end statement itself (real REPL lines vs the same steps compiled and run as one program, over all splittings of generated histories).",
    design_ref="§5 C11",
    note="F51 (a short-circuited line's unstored binders killed the session) is repaired in /repo and modelled as repaired (the REPL forgets variables at or beyond the locals count reported with the result). The compiler, parser and VM are not modelled here: the end-to-end equivalence is validated by real-vs-real search, not proved. The generator stays clear of known typing defects F13/F27 (no union-with-nil typed bindings or results feeding a later step) and of a previous result whose static type contains nil (the REPL types the next line's input with the unstripped type, the one-program compiler strips nil). Type aliases are hoisted to the front of the one-program text (the parser accepts them only before the first expression step). Trusted: Coq kernel, extraction (ExtrOcamlBasic), OCaml driver, Rust harness (in-memory Environment/Worker runner), Python generator/differ.",
    technique="Coq proof (bookkeeping model) + model/code correspondence by differential execution + real-vs-real metamorphic search (REPL lines vs one program, all splittings)",
)

OK = ["t", "Ok", []]
NIL = ["t", "-", []]

# ----------------------------------------------------------------------------------------------
# generator: typed steps with values known by construction
#   types : 'int' | 'bin' | ('tup', name|None, (label|None,..), (type,..)) | ('fn', arg, res) | 'list' | 'mod'
#   values: ('i', n) | ('b', bytes) | ('t', name, labels, fields) | ('f', pyfunc|None) | ('opaque',)
# ----------------------------------------------------------------------------------------------
VNIL = ("t", None, (), ())
VOK = ("t", "Ok", (), ())
POOL = ["a", "b", "c", "d", "e", "k", "m", "n"]
LABELS = ["x", "y", "z", "w"]
TNAMES = [None, "P", "Q", "R"]


def vdump(v):
    """The parsed form of the harness dump for a generator value (None when it contains a function)."""
    if v[0] == "i":
        return ["i", str(v[1])]
    if v[0] == "b":
        return ["b", v[1].hex()] if v[1] else ["b"]
    if v[0] == "t":
        fs = [vdump(f) for f in v[3]]
        if any(f is None for f in fs):
            return None
        return ["t", v[1] or "-", [l or "-" for l in v[2]]] + fs
    return None


def type_src(t):
    if t == "int":
        return "'int"
    if t == "bin":
        return "'bin"
    if t[0] == "tup":
        inner = ", ".join((l + ": " if l else "") + type_src(ft) for l, ft in zip(t[2], t[3]))
        return "%s[%s]" % (t[1] or "", inner)
    raise ValueError(t)


class Gen:
    def __init__(self, rng, binaries=False):
        self.rng = rng
        self.vars = {}          # name -> (type, value)
        self.aliases = {}       # alias name -> type
        self.prev = None        # (type, value) of the previous result when a later step may consume `~`
        self.n = 0
        self.items = []
        self.binaries = binaries
        self.tupled = set()     # names ever bound to a tuple value or by a destructuring pattern
        # in-memory modules of this history: %inc is a bare function, %m a record of functions that
        # also exports the type 'point, %kst a constant
        self.k1, self.k2, self.k3 = rng.randint(1, 9), rng.randint(10, 99), rng.randint(100, 999)
        self.mods = {
            "inc": "#'int { [~, %d] __integer_add__ }" % self.k1,
            "m": "'point = Point[x: 'int, y: 'int]\n[inc: #'int { [~, %d] __integer_add__ }, dec: #'int { [~, %d] __integer_subtract__ }]" % (self.k2, self.k2),
            "kst": "[%d, 0x%02x]" % (self.k3, self.k1),
        }
        self.POINT = ("tup", "Point", ("x", "y"), ("int", "int"))
        self.imported = set()       # modules imported so far by an ACCEPTED line
        self.f85_budget = 0
        self.touched_by_reject = set()
        self.stats = dict(bind=0, destructure=0, shadow=0, alias=0, function=0, capture=0, call=0, value=0,
                          consume_prev=0, nil=0, import_=0, reject_parse=0, reject_compile=0, binary_bind=0,
                          alias_use=0, f85_shapes_left_in=0, module_use=0, reject_after_import=0, reject_after_first_import=0,
                          module_use_after_rejected_import=0)

    # ------------------------------------------------------------------ helpers
    def fresh(self, p="v"):
        self.n += 1
        return "%s%d" % (p, self.n)

    def pick_name(self):
        n = self.pick_name_any()
        while n in self.tupled:     # known defect: a binder that shadows a tuple-valued variable keeps the
            n = self.fresh()        # shadowed type inside one compilation unit (stale narrowing)
        return n

    def pick_name_any(self):
        r = self.rng.random()
        bound = [n for n in self.vars]
        if bound and r < 0.35:
            return self.rng.choice(bound)
        if r < 0.75:
            return self.rng.choice(POOL)
        return self.fresh()

    def vars_of(self, pred):
        return [n for n, (t, _) in self.vars.items() if pred(t)]

    def rand_type(self, depth=0):
        r = self.rng.random()
        pb = 0.5 if self.binaries else 0.3
        if depth >= 2 or r < 0.55:
            return "bin" if self.rng.random() < pb else "int"
        k = self.rng.randint(1, 3)
        name = self.rng.choice(TNAMES)
        if self.rng.random() < 0.6:
            labels = tuple(self.rng.sample(LABELS, k))
        else:
            labels = (None,) * k
        return ("tup", name, labels, tuple(self.rand_type(depth + 1) for _ in range(k)))

    def rand_bytes(self):
        return bytes(self.rng.getrandbits(8) for _ in range(self.rng.choice([0, 1, 1, 2, 3, 8, 20])))

    def literal(self, t):
        if t == "int":
            n = self.rng.choice([0, 1, 2, 3, 7, -1, -5, 255, 2**31, 2**63, 2**64 + 1, -2**63 - 1, self.rng.randint(-100, 100)])
            return str(n), ("i", n)
        if t == "bin":
            b = self.rand_bytes()
            return "0x" + b.hex(), ("b", b)
        fs = [self.expr(ft, 3) for ft in t[3]]
        return self.tuple_src(t, [f[0] for f in fs]), ("t", t[1], t[2], tuple(f[1] for f in fs))

    @staticmethod
    def tuple_src(t, field_srcs):
        inner = ", ".join((l + ": " if l else "") + s for l, s in zip(t[2], field_srcs))
        return "%s[%s]" % (t[1] or "", inner)

    def expr(self, t, depth=0):
        """(source, value) of an expression of type t; only non-callable variables are mentioned, so it
        means the same as a tuple field and as the first term of a chain."""
        rng = self.rng
        cands = self.vars_of(lambda vt: vt == t)
        r = rng.random()
        if cands and r < 0.4:
            n = rng.choice(cands)
            if depth <= 1:
                self.tupled.add(n)      # a bare reference as a step / binding source / argument narrows n
            return n, self.vars[n][1]
        if depth < 2 and r < 0.5:
            # a field of a tuple variable
            hits = []
            for n, (vt, vv) in self.vars.items():
                if isinstance(vt, tuple) and vt[0] == "tup":
                    for i, ft in enumerate(vt[3]):
                        if ft == t:
                            hits.append((n, i, vt, vv))
            if hits:
                n, i, vt, vv = rng.choice(hits)
                self.tupled.add(n)
                return "%s.%s" % (n, vt[2][i] if vt[2][i] else str(i)), vv[3][i]
        if t == "int":
            if depth < 2 and r < 0.75:
                a, b = self.expr("int", depth + 1), self.expr("int", depth + 1)
                op = rng.choice(["add", "subtract", "multiply"])
                val = {"add": a[1][1] + b[1][1], "subtract": a[1][1] - b[1][1], "multiply": a[1][1] * b[1][1]}[op]
                return "[%s, %s] __integer_%s__" % (a[0], b[0], op), ("i", val)
            return self.literal("int")
        if t == "bin":
            if depth < 2 and r < (0.85 if self.binaries else 0.7):
                a, b = self.expr("bin", depth + 1), self.expr("bin", depth + 1)
                return "[%s, %s] __binary_concat__" % (a[0], b[0]), ("b", a[1][1] + b[1][1])
            return self.literal("bin")
        if t[0] == "tup":
            fs = [self.expr(ft, depth + 1) for ft in t[3]]
            return self.tuple_src(t, [f[0] for f in fs]), ("t", t[1], t[2], tuple(f[1] for f in fs))
        raise ValueError(t)

    def atom(self, t):
        """An expression usable as the argument in front of a callable (a single term)."""
        return self.expr(t, 1)     # (a chain is an infallible pipe: `[a, b] builtin f` applies f last)

    # ------------------------------------------------------------------ steps
    def add_step(self, src, rtype, rval, kind, nil=False, binds=()):
        self.items.append(dict(kind="step", src=src, what=kind, nil=nil, expect=vdump(rval) if rval is not None else None,
                               binds=list(binds)))
        self.prev = (rtype, rval) if (rtype is not None and not nil) else None
        if nil:
            self.prev = None

    def bind(self, name, t, v, src=None):
        if name in self.vars:
            self.stats["shadow"] += 1
        self.vars[name] = (t, v)
        # Names that may not be rebound later (stale-narrowing defect of the compiler inside one
        # compilation unit, reported): bound to a tuple value, by a destructuring pattern, from the
        # previous result, or from an expression with a provenance (a variable / field reference).
        plain = src is not None and (src.endswith("__") or re.fullmatch(r"-?\d+|0x[0-9a-f]*", src) or src == "#fn" or src == "#call")
        if (isinstance(t, tuple) and t[0] == "tup") or not plain:
            self.tupled.add(name)
        if t == "bin" or (isinstance(t, tuple) and "bin" in json.dumps(t)):
            self.stats["binary_bind"] += 1

    def step_bind(self):
        t = self.rand_type()
        s, v = self.expr(t)
        name = self.pick_name()
        self.stats["bind"] += 1
        if self.rng.random() < 0.5:
            src = "%s = %s" % (name, s)
        else:
            src = "%s =%s" % (s, name)
        self.bind(name, t, v, src=s)
        self.add_step(src, "ok", VOK, "bind", binds=[name])

    def step_destructure(self, force=None):
        rng = self.rng
        t = self.rand_type(0)
        while t in ("int", "bin") or (force and not (any(ft in ("int", "bin") for ft in t[3]) and len(t[3]) >= 2)):
            t = self.rand_type(0)
        s, v = self.expr(t)
        form = force or rng.choice(["full", "full", "partial", "star", "placeholder", "nested-literal"])
        labelled = all(t[2]) and len(set(t[2])) == len(t[2])
        names = []
        has_lit = False
        if form in ("partial", "star") and (not labelled or any(l in self.tupled for l in t[2])):
            form = "full"
        if form == "star":
            pat = (t[1] or "") + "*"
            names = list(zip(t[2], t[3], v[3]))
        elif form == "partial":
            k = rng.randint(1, len(t[2]))
            idx = sorted(rng.sample(range(len(t[2])), k))
            pat = "%s(%s)" % (t[1] or "", ", ".join(t[2][i] for i in idx))
            names = [(t[2][i], t[3][i], v[3][i]) for i in idx]
        else:
            parts = []
            used = set()
            for i, (l, ft, fv) in enumerate(zip(t[2], t[3], v[3])):
                if form == "placeholder" and rng.random() < 0.5:
                    p = "_"
                elif form == "nested-literal" and ft in ("int", "bin") and rng.random() < 0.4:
                    p = str(fv[1]) if ft == "int" else "0x" + fv[1].hex()   # matching literal
                    has_lit = True
                else:
                    n = self.pick_name()
                    while n in used:
                        n = self.fresh()
                    used.add(n)
                    names.append((n, ft, fv))
                    p = n
                parts.append((l + ": " if l else "") + p)
            pat = "%s[%s]" % (t[1] or "", ", ".join(parts))
        self.stats["destructure"] += 1
        if rng.random() < 0.5:
            src = "%s = %s" % (pat, s)
        else:
            src = "%s =%s" % (s, pat)
        for n, ft, fv in names:
            self.bind(n, ft, fv)
            self.tupled.add(n)      # (binders of a destructuring pattern carry a narrowing as well)
            if has_lit:
                # F85: the binders of a match that can fail are recorded as T | [] and only the next
                # step of the SAME line narrows the nil away, so a later line cannot use them as T.
                # They stay bound (and observed), but no later step mentions them; a capped number
                # of histories keeps them usable so that the classifier of F85 is exercised.
                if self.f85_budget > 0:
                    self.f85_budget -= 1
                    self.stats["f85_shapes_left_in"] += 1
                else:
                    self.vars.pop(n, None)
        self.add_step(src, "ok", VOK, "destructure", binds=[n for n, _, _ in names])
        if form == "nested-literal":
            # a literal inside the pattern makes the step fallible: a line containing it has a result
            # type with nil (F52: the REPL hands that unstripped type to the next line), so it stays
            # alone on its line
            self.items[-1]["alone"] = True

    def step_alias(self):
        t = self.rand_type()
        name = self.fresh("t")
        self.aliases[name] = t
        self.stats["alias"] += 1
        self.items.append(dict(kind="alias", src="'%s = %s" % (name, type_src(t)), what="alias"))
        # (the previous result and its recorded type survive an alias-only line: `prev` stays)

    def param_type_src(self, t):
        al = [a for a, at in self.aliases.items() if at == t]
        if al and self.rng.random() < 0.6:
            self.stats["alias_use"] += 1
            return "'" + self.rng.choice(al)
        return type_src(t)

    def step_function(self):
        rng = self.rng
        pt = rng.choice(["int", "bin", "int", "tup"])
        name = self.pick_name()
        cap = False
        if pt == "int":
            o, ov = self.expr("int", 1)
            cap = not o.lstrip("-").isdigit()
            k = rng.random()
            if k < 0.5:
                body, rt = "[~, %s] __integer_add__" % o, "int"
                fn = lambda a, ov=ov: ("i", a[1] + ov[1])
            else:
                b, bv = self.expr("bin", 1)
                cap = cap or not b.startswith("0x")
                body, rt = "Q[x: ~, y: %s, z: %s]" % (b, o), ("tup", "Q", ("x", "y", "z"), ("int", "bin", "int"))
                fn = lambda a, ov=ov, bv=bv: ("t", "Q", ("x", "y", "z"), (a, bv, ov))
        elif pt == "bin":
            b, bv = self.expr("bin", 1)
            cap = not b.startswith("0x")
            body, rt = "[%s, ~] __binary_concat__" % b, "bin"
            fn = lambda a, bv=bv: ("b", bv[1] + a[1])
        else:
            pt = ("tup", rng.choice(TNAMES), ("x", "y"), ("int", rng.choice(["int", "bin"])))
            o, ov = self.expr("int", 1)
            if re.search(r"\b[xy]\b", o):
                # (side observation, same in the REPL and in one program: a function body that reads
                # field `.x` of its parameter and also mentions a captured variable named `x` is
                # rejected with VariableUndefined)
                o, ov = self.literal("int")
            cap = not o.lstrip("-").isdigit()
            body, rt = "[.x, %s] __integer_multiply__" % o, "int"
            fn = lambda a, ov=ov: ("i", a[3][0][1] * ov[1])
        self.stats["function"] += 1
        if cap:
            self.stats["capture"] += 1
        src = "%s = #%s { %s }" % (name, self.param_type_src(pt), body)
        self.bind(name, ("fn", pt, rt), ("f", fn), src="#fn")
        self.add_step(src, "ok", VOK, "function", binds=[name])

    def step_call(self):
        fns = self.vars_of(lambda t: isinstance(t, tuple) and t[0] == "fn")
        if not fns:
            return self.step_function()
        f = self.rng.choice(fns)
        ft, fv = self.vars[f]
        a, av = self.atom(ft[1])
        res = fv[1](av)
        self.stats["call"] += 1
        r = self.rng.random()
        if r < 0.4:
            self.add_step("%s %s" % (a, f), ft[2], res, "call")
        else:
            name = self.pick_name()
            while name == f:
                name = self.fresh()
            src = "%s %s =%s" % (a, f, name) if r < 0.7 else "%s = %s %s" % (name, a, f)
            self.bind(name, ft[2], res, src="#call")
            self.add_step(src, "ok", VOK, "call-bind", binds=[name])

    def step_value(self):
        t = self.rand_type()
        s, v = self.expr(t)
        self.stats["value"] += 1
        self.add_step(s, t, v, "value")

    def step_consume(self):
        if self.prev is None:
            return self.step_value()
        rng = self.rng
        t, v = self.prev
        self.stats["consume_prev"] += 1
        r = rng.random()
        if t == "ok" and r < 0.3:
            # (reported compiler defect, same in a REPL line and in one program: binding the Ok of a
            # preceding match step `v =p` with `=b` makes a later `v =q` statically fail:
            # `n = 5, n =v3, =b, n =v5` evaluates to [])
            r = 0.5
        if r < 0.3:
            name = self.pick_name()
            src = rng.choice(["~ =%s", "=%s"]) % name
            if t == "ok":
                t = ("tup", "Ok", (), ())
            self.bind(name, t, v)
            return self.add_step(src, "ok", VOK, "bind-prev", binds=[name])
        if t == "int":
            o, ov = self.expr("int", 1)
            return self.add_step("[~, %s] __integer_add__" % o, "int", ("i", v[1] + ov[1]), "prev-int")
        if t == "bin":
            o, ov = self.expr("bin", 1)
            return self.add_step("[~, %s] __binary_concat__" % o, "bin", ("b", v[1] + ov[1]), "prev-bin")
        if isinstance(t, tuple) and t[0] == "tup" and t[3] and r < 0.7:
            i = rng.randrange(len(t[3]))
            return self.add_step("~.%s" % (t[2][i] if t[2][i] else str(i)), t[3][i], v[3][i], "prev-field")
        if t == "ok":
            t = ("tup", "Ok", (), ())
        nt = ("tup", "R", ("w", None), (t, t))
        return self.add_step("R[w: ~, ~]", nt, ("t", "R", ("w", None), (v, v)), "prev-wrap")

    def step_nil(self):
        rng = self.rng
        self.stats["nil"] += 1
        ints = self.vars_of(lambda t: t == "int")
        if ints and rng.random() < 0.6:
            n = rng.choice(ints)
            self.tupled.add(n)
            src = "%s =%d" % (n, self.vars[n][1][1] + rng.choice([1, -1, 1000]))
        else:
            src = rng.choice(["[]", "5 =6", "0xaa =0xab", "P[x: 1] =P[x: 2]"])
        self.add_step(src, None, VNIL, "nil", nil=True)

    def step_import(self):
        rng = self.rng
        self.stats["import_"] += 1
        r = rng.random()
        if r < 0.35:
            name = rng.choice(["l", "i"])
            mod = {"l": "%list", "i": "%int"}[name]
            self.bind(name, "mod:" + mod, ("opaque",))
            return self.add_step("%s = %s" % (name, mod), "ok", VOK, "import-bind", binds=[name])
        if r < 0.7:
            # (the bitwise builtins reject operands outside i64: small literals only)
            a, b = [(str(n), ("i", n)) for n in (rng.randint(-300, 300), rng.randint(0, 70000))]
            op = rng.choice(["and", "or", "xor"])
            f = {"and": lambda x, y: x & y, "or": lambda x, y: x | y, "xor": lambda x, y: x ^ y}[op]
            pre = "i" if self.vars.get("i", (None,))[0] == "mod:%int" and rng.random() < 0.5 else "%int"
            return self.add_step("[%s, %s] %s.%s" % (a[0], b[0], pre, op), "int", ("i", f(a[1][1], b[1][1])), "import-int")
        elems = [self.expr("int", 1) for _ in range(rng.randint(1, 3))]
        pre = "l" if self.vars.get("l", (None,))[0] == "mod:%list" and rng.random() < 0.5 else "%list"
        src = "%list.new" + "".join(" [~, %s] %s.prepend" % (e[0], pre) for e in elems)
        val = ("t", "Nil", (), ())
        for e in elems:
            val = ("t", "Cons", (None, None), (e[1], val))
        if rng.random() < 0.5:
            src += " %s.reverse" % pre
            val = ("t", "Nil", (), ())
            for e in reversed(elems):
                val = ("t", "Cons", (None, None), (e[1], val))
        self.add_step(src, None, val, "import-list")      # (recursive result type: not consumed by `~`)

    MODULES = ["inc", "m", "mtype", "kst", "list", "int"]

    def step_module(self, which=None):
        """A step that uses a module (user modules through the in-memory resolver, or std)."""
        rng = self.rng
        which = which or rng.choice(self.MODULES)
        self.stats["module_use"] += 1
        if which in self.touched_by_reject:
            self.stats["module_use_after_rejected_import"] += 1
        self.imported.add(which)
        a, av = self.expr("int", 1)
        if which == "inc":
            return self.add_step("%s %%inc" % a, "int", ("i", av[1] + self.k1), "module-inc")
        if which == "m":
            r = rng.random()
            if r < 0.4:
                return self.add_step("%s %%m.inc" % a, "int", ("i", av[1] + self.k2), "module-m")
            if r < 0.7:
                return self.add_step("%s %%m.dec" % a, "int", ("i", av[1] - self.k2), "module-m")
            self.bind("mq", "mod:%m", ("opaque",))
            self.add_step("mq = %m", "ok", VOK, "module-bind", binds=["mq"])
            return self.add_step("%s mq.inc" % a, "int", ("i", av[1] + self.k2), "module-m")
        if which == "mtype":
            name = self.pick_name()
            o, ov = self.literal("int")
            self.bind(name, ("fn", self.POINT, "int"), ("f", lambda p, ov=ov: ("i", p[3][0][1] + ov[1])), src="#fn")
            self.add_step("%s = #'%%m.point { [.x, %s] __integer_add__ }" % (name, o), "ok", VOK, "module-type", binds=[name])
            a, av = self.expr("int", 1)      # (after the rebinding: `name` may have been an int before)
            b, bv = self.expr("int", 1)
            return self.add_step("Point[x: %s, y: %s] %s" % (a, b, name), "int", ("i", av[1] + ov[1]), "module-type-call")
        if which == "kst":
            return self.add_step("%kst.0", "int", ("i", self.k3), "module-kst")
        if which == "int":
            x, y = rng.randint(-300, 300), rng.randint(0, 70000)
            return self.add_step("[%d, %d] %%int.xor" % (x, y), "int", ("i", x ^ y), "import-int")
        e, ev = self.expr("int", 1)
        val = ("t", "Cons", (None, None), (ev, ("t", "Nil", (), ())))
        return self.add_step("%%list.new [~, %s] %%list.prepend" % e, None, val, "import-list")

    def reject_after_import(self, which=None):
        """A line the compiler rejects only AFTER it imported a module / resolved a module type."""
        rng = self.rng
        which = which or rng.choice(self.MODULES)
        self.stats["reject_compile"] += 1
        self.stats["reject_after_import"] += 1
        if which not in self.imported and which not in self.touched_by_reject:
            self.stats["reject_after_first_import"] += 1
        self.touched_by_reject.add(which)
        use = {"inc": ["zf = %inc", "3 %inc =zz"], "m": ["zq = %m", "3 %m.inc =zz", "zq = %m, 4 zq.dec =zz"],
               "mtype": ["zh = #'%m.point { .x }", "'zt = '%m.point"], "kst": ["zk = %kst", "%kst.0 =zz"],
               "list": ["zl = %list", "%list.new [~, 1] %list.prepend =zz"], "int": ["zi = %int", "[6, 3] %int.xor =zz"]}[which]
        fail = rng.choice(["nosuch_var", "[0xaa, 1] __integer_add__", "5 nosuch_fn", "yy = 0x00, [yy, 1] __integer_add__"])
        self.items.append(dict(kind="reject", src="%s, %s" % (rng.choice(use), fail), what="compile-after-import", module=which))

    def reject(self):
        rng = self.rng
        if rng.random() < 0.25:
            return self.reject_after_import()
        if rng.random() < 0.4:
            self.stats["reject_parse"] += 1
            src = rng.choice(["x = )", "[1, 2", "a = = 3", "#{", "\"abc", "q = #'int { [~, 1] __integer_add__", "5 ; 6", "= ="])
            self.items.append(dict(kind="reject", src=src, what="parse"))
        else:
            self.stats["reject_compile"] += 1
            opts = ["nosuch_var", "[0xaa, 1] __integer_add__", "'tq = 'nosuch_alias", "x = %nosuch_module",
                    "zz = 5, nosuch_var", "zz = 0xaabb, [zz, 1] __integer_add__", "5 nosuch_fn", "[1, 2] __nosuch_builtin__"]
            tv = self.vars_of(lambda t: isinstance(t, tuple) and t[0] == "tup")
            if tv:
                opts.append("%s.nosuchfield" % rng.choice(tv))
            iv = self.vars_of(lambda t: t == "int")
            if iv:
                opts.append("yy = %s, [yy, 0x00] __binary_concat__" % rng.choice(iv))
            self.items.append(dict(kind="reject", src=rng.choice(opts), what="compile"))

    def history(self, n_items, scenario=False):
        rng = self.rng
        weights = [("bind", 22), ("destructure", 12), ("alias", 6), ("function", 10), ("call", 12), ("value", 10),
                   ("consume", 12), ("nil", 2), ("import", 5), ("reject", 9), ("module", 5)]
        names = [w[0] for w in weights]
        ws = [w[1] for w in weights]
        if scenario:
            # the shape "a line rejected after it imported module M for the first time, then new
            # functions / types, then M is used": the cache of modules must not remember anything of
            # the rejected line
            for _ in range(rng.randint(0, 2)):
                rng.choice([self.step_bind, self.step_value, self.step_function])()
            which = rng.choice(self.MODULES)
            self.reject_after_import(which)
            if rng.random() < 0.3:
                self.reject_after_import(rng.choice(self.MODULES))
            for _ in range(rng.randint(1, 3)):
                rng.choice([self.step_function, self.step_function, self.step_alias, self.step_bind])()
            self.step_module("m" if which == "mtype" and rng.random() < 0.3 else which)
            if rng.random() < 0.6:
                self.step_call()
        if self.f85_budget > 0:
            self.step_destructure(force="nested-literal")
        while len(self.items) < n_items:
            k = rng.choices(names, ws)[0]
            {"bind": self.step_bind, "destructure": self.step_destructure, "alias": self.step_alias,
             "function": self.step_function, "call": self.step_call, "value": self.step_value,
             "consume": self.step_consume, "nil": self.step_nil, "import": self.step_import,
             "reject": self.reject, "module": self.step_module}[k]()
            if self.items[-1]["kind"] == "reject":
                pass        # a rejected line leaves `prev` as it is: the previous result still flows in
        return self.items


# ----------------------------------------------------------------------------------------------
# splittings
# ----------------------------------------------------------------------------------------------
def cut_points(items):
    """(forced, free) cut positions; position p means a line break between items p-1 and p."""
    forced, free = set(), []
    for p in range(1, len(items)):
        a, b = items[p - 1], items[p]
        if a["kind"] == "reject" or b["kind"] == "reject" or a.get("alone") or b.get("alone"):
            forced.add(p)
        elif b["kind"] == "alias":
            forced.add(p)       # the parser accepts aliases only in front of the first expression
        elif a["kind"] == "step" and a.get("nil"):
            forced.add(p)       # (F51, repaired: a binder after a nil step in the same line is forgotten by the REPL;
                                # the generator's value tracking does not follow that, the corpus histories do)
        else:
            free.append(p)
    return forced, free


def lines_of(items, cuts):
    """[(source, index of the last item)] for the given set of cut positions."""
    out, cur, start = [], [], 0
    for p, it in enumerate(items):
        if p in cuts and cur:
            out.append((", ".join(cur), p - 1))
            cur = []
        cur.append(it["src"])
    out.append((", ".join(cur), len(items) - 1))
    return out


def splittings(rng, items, limit):
    forced, free = cut_points(items)
    if len(free) <= 5:
        combos = [set(c) for k in range(len(free) + 1) for c in itertools.combinations(free, k)]
    else:
        combos = [set(free), set()]
        seen = {frozenset(free), frozenset()}
        while len(combos) < limit:
            c = frozenset(p for p in free if rng.random() < 0.5)
            if c not in seen:
                seen.add(c)
                combos.append(set(c))
    combos.sort(key=lambda c: -len(c))     # finest first
    return [forced | c for c in combos[:limit]], len(free)


def one_program(items, j):
    """Steps 1..j as one program: aliases hoisted to the front, rejected lines dropped."""
    aliases = [it["src"] for it in items[:j + 1] if it["kind"] == "alias"]
    steps = [it["src"] for it in items[:j + 1] if it["kind"] == "step"]
    return "\n".join(aliases + [", ".join(steps)])


def mods_text(mods):
    return "(mods%s)" % "".join(" (mod %s %s)" % (sexpr.quote(k), sexpr.quote(v)) for k, v in sorted((mods or {}).items()))


def hist_case(workers, lines, mods=None):
    return "(hist %d %s %s)" % (workers, mods_text(mods), " ".join(sexpr.quote(l) for l in lines))


def one_case(workers, src, mods=None):
    return "(one %d %s %s)" % (workers, mods_text(mods), sexpr.quote(src))


def parse_session(out):
    """-> list of dicts (outcome, binds, aliases, vars, locals, last, stack, lrtnil, rc, quiet) or None."""
    try:
        s = sexpr.parse(out)
    except Exception:
        return None
    if not isinstance(s, list) or not s or s[0] != "session":
        return None
    res = []
    for l in s[1:]:
        d = dict(outcome=l[1])
        for sec in l[2:]:
            if isinstance(sec, list) and sec:
                d[sec[0]] = sec[1:]
        res.append(d)
    return res


def observable(d):
    """What a user can see of the session: variable order, names, values, and the stored result."""
    return (json.dumps(d.get("vars")), json.dumps(d.get("last")))


# ----------------------------------------------------------------------------------------------
# (a) bookkeeping correspondence: the extracted model fed the facts of each real line
# ----------------------------------------------------------------------------------------------
def to_text(v):
    return "(" + " ".join(to_text(x) for x in v) + ")" if isinstance(v, list) else v


def model_input(sess):
    """The model's input for a real session: per line the verdict, the binding map the compiler
    returned (hook), the values the line appended after its parameter (read off the real locals:
    the slots beyond the compacted prefix and the parameter), and its value."""
    out = []
    nvars = 0
    for d in sess:
        oc = d["outcome"]
        if oc[0] == "parse-error":
            out.append("(parse)")
            continue
        if oc[0] == "compile-error":
            out.append("(compile)")
            continue
        if oc[0] not in ("ok", "none") or "binds" not in d:
            break
        # (the map as the compiler returned it: `binds-raw`; `binds` is what is left of it once the REPL
        # has forgotten the variables the line never stored, which the model must predict)
        binds = "(binds %s)" % " ".join(to_text(b) for b in d.get("binds-raw", d["binds"]))
        aliases = "(aliases %s)" % " ".join(d["aliases"])
        rn = "1" if d["lrtnil"] == ["true"] else "0"
        if oc[0] == "none":
            out.append("(ok 0 %s %s %s (stored) (t - ()))" % (rn, binds, aliases))
        else:
            stored = d["locals"][nvars + 1:]
            out.append("(ok 1 %s %s %s (stored %s) %s)" % (rn, binds, aliases, " ".join(to_text(v) for v in stored), to_text(oc[1])))
        nvars = len(d["binds"])
    return "(hist %s)" % " ".join(out)


MODEL_KEYS = ("binds", "aliases", "vars", "locals", "last", "lrtnil")


def compare_model(sess, model_out):
    """None when the model's session equals the real one line by line, else a description."""
    m = parse_session(model_out)
    if m is None:
        return dict(what="unparsable model output", model=model_out[:500])
    usable = [d for d in sess if "binds" in d]
    if len(m) != len(usable):
        return dict(what="model session has %d lines, real one %d" % (len(m), len(usable)))
    for k, (r, mm) in enumerate(zip(usable, m)):
        ro, mo = r["outcome"], mm["outcome"]
        if ro[0] != mo[0] or (ro[0] == "ok" and ro != mo):
            return dict(what="outcome differs", line=k, real=ro, model=mo)
        for key in MODEL_KEYS:
            if r.get(key) != mm.get(key):
                return dict(what="%s differs after the line" % key, line=k, real=r.get(key), model=mm.get(key))
    return None


def corpus(name):
    from vplib.common import VERIF
    p = os.path.join(VERIF, "corpus", name)
    if not os.path.exists(p):
        return []
    return [l.rstrip("\n") for l in open(p) if l.strip() and not l.startswith("#")]


# ----------------------------------------------------------------------------------------------
# checking one history (all its splittings) on the real code
# ----------------------------------------------------------------------------------------------
class Problem(Exception):
    def __init__(self, kind, what, detail):
        self.kind, self.what, self.detail = kind, what, detail


def check_history(items, prefix_out, sessions, splits):
    """Raise Problem on the first failure. prefix_out[j] = real one-program outcome for steps 1..j."""
    nil_before = []
    seen_nil = False
    for it in items:
        nil_before.append(seen_nil)
        if it["kind"] == "step" and it.get("nil"):
            seen_nil = True
    compared = 0
    finals = []
    if len(sessions) == len(splits) + 1:
        # rejected lines must be inert: the session in which they were never entered yields, line by
        # line, what the finest splitting of the full history yields on its accepted lines, and ends
        # with the same variables (modules first imported by a rejected line included)
        twin = parse_session(sessions[-1])
        full = parse_session(sessions[0])
        kept = [it for it in items if it["kind"] != "reject"]
        if twin is not None and full is not None and len(full) == len(items) and len(splits[0]) == len(items) - 1:
            accepted = [d for it, d in zip(items, full) if it["kind"] != "reject"]
            if len(twin) != len(kept):
                raise Problem("generator", "the session without the rejected lines stopped early", dict(session=sessions[-1][:2000]))
            for it, a, t in zip(kept, accepted, twin):
                if a["outcome"] != t["outcome"] or observable(a) != observable(t):
                    raise Problem("impl-violation", "a line behaves differently in a session that saw a rejected line before it and in one that never did",
                                  dict(lines=[x["src"] for x in items], at=it["src"], with_rejected=a["outcome"], without_rejected=t["outcome"],
                                       vars_with=a.get("vars"), vars_without=t.get("vars")))
        sessions = sessions[:-1]
    for cuts, out in zip(splits, sessions):
        lines = lines_of(items, cuts)
        sess = parse_session(out)
        if sess is None or len(sess) != len(lines):
            raise Problem("impl-violation", "the session stopped early (panic, worker error or timeout)",
                          dict(lines=[l for l, _ in lines], session=out[:3000]))
        prev_obs = None
        for li, ((src, j), d) in enumerate(zip(lines, sess)):
            it = items[j]
            oc = d["outcome"]
            if len(d) < 5:
                raise Problem("impl-violation", "line ended the session: %s" % json.dumps(oc), dict(lines=[l for l, _ in lines], at=src))
            if d.get("rc") != ["ok"]:
                raise Problem("impl-violation", "check_refcounts failed after a REPL line: %s" % d.get("rc"),
                              dict(lines=[l for l, _ in lines], at=src))
            if d.get("stack") != ["0"] or d.get("quiet") != ["true"]:
                raise Problem("impl-violation", "REPL process not quiescent after a line (stack %s)" % d.get("stack"),
                              dict(lines=[l for l, _ in lines], at=src))
            if it["kind"] == "reject":
                if oc[0] not in ("parse-error", "compile-error"):
                    raise Problem("generator", "a line meant to be rejected was accepted", dict(at=src, outcome=oc))
                if prev_obs is not None and observable(d) != prev_obs:
                    raise Problem("impl-violation", "a rejected line changed the observable session",
                                  dict(lines=[l for l, _ in lines], at=src, before=prev_obs, after=observable(d)))
            elif it["kind"] == "alias":
                if oc != ["none"]:
                    raise Problem("generator", "alias-only line did not evaluate to Ok(None)", dict(at=src, outcome=oc))
                if prev_obs is not None and observable(d) != prev_obs:
                    raise Problem("impl-violation", "an alias-only line changed variables or the stored result",
                                  dict(lines=[l for l, _ in lines], at=src))
            else:
                if oc[0] in ("compile-error", "parse-error"):
                    accepted = not nil_before[j] and prefix_out.get(j, [None])[0] == "ok"
                    nilable = [x[0] for x in d.get("types", []) if is_nilable_type(x[1]) and re.search(r"(?<![\w.%%'])%s(?![\w?!])" % re.escape(x[0]), src)]
                    if accepted or nilable:
                        # (after a nil-valued step there is no one-program value to compare with: the
                        # rejection is then only examined for F85, otherwise it is a generator matter)
                        pr = Problem("impl-violation" if accepted else "generator",
                                     "the REPL rejects a line that is accepted as the same step of the one program: %s" % json.dumps(oc) if accepted
                                     else "a generated step was not evaluated: %s" % json.dumps(oc),
                                     dict(lines=[l for l, _ in lines], at=src, one_program=prefix_out.get(j) if accepted else None,
                                          program=one_program(items, j)))
                        if nilable:
                            pr.f85 = dict(cuts=cuts, li=li, nilable=nilable, sess=sess, want=prefix_out[j] if accepted else None)
                            pr.detail["variables_recorded_with_nil"] = {x[0]: x[1] for x in d.get("types", []) if x[0] in nilable}
                        raise pr
                if oc[0] != "ok":
                    raise Problem("impl-violation" if oc[0] in ("err", "panic", "env-error", "timeout") else "generator",
                                  "a generated step was not evaluated: %s" % json.dumps(oc), dict(lines=[l for l, _ in lines], at=src))
                if not nil_before[j]:
                    want = prefix_out[j]
                    got = sexpr.parse("(%s)" % " ".join([])) if False else oc
                    compared += 1
                    if want != got:
                        raise Problem("impl-violation", "REPL line value differs from the same step of the one program",
                                      dict(lines=[l for l, _ in lines], at=src, repl=got, one_program=want,
                                           program=one_program(items, j)))
                    if it.get("expect") is not None and got != ["ok", it["expect"]]:
                        raise Problem("impl-violation", "REPL line value differs from the value the step was built to have",
                                      dict(lines=[l for l, _ in lines], at=src, repl=got, built=it["expect"]))
            prev_obs = observable(d)
        finals.append(json.dumps(sess[-1].get("vars")))
    if len(set(finals)) > 1:
        a = finals[0]
        k = next(i for i, f in enumerate(finals) if f != a)
        raise Problem("impl-violation", "two splittings of the same steps end with different variables",
                      dict(lines_a=[l for l, _ in lines_of(items, splits[0])], lines_b=[l for l, _ in lines_of(items, splits[k])],
                           vars_a=a, vars_b=finals[k]))
    return compared


def is_nilable_type(ty):
    """`T | []`: nil is a top-level member of the formatted type."""
    depth, cur, members = 0, "", []
    for ch in ty:
        if ch in "([<":
            depth += 1
        elif ch in ")]>":
            depth -= 1
        if ch == "|" and depth == 0:
            members.append(cur.strip())
            cur = ""
        else:
            cur += ch
    members.append(cur.strip())
    return len(members) >= 2 and "[]" in members


F85_WHAT = ("nil-narrowing established by a step's success does not carry across REPL lines: a later line that needs the "
            "non-nil type is rejected although the same step is accepted in the one program")


def classify_f85(ctx, exe, items, workers, mods, pr):
    """True exactly when the rejection `pr` (REPL rejects a line the one program accepts) is F85:
    (1) the rejected line mentions a variable whose type recorded by the REPL is `T | []`;
    (2) control session: the same history with the lines from the one that bound those variables up
        to the rejected one entered as ONE line (aliases of that span first, rejected lines of the span
        dropped) — there the `,` after the binding step narrows the nil away — accepts the line and
        yields the one-program value. Anything else still alarms."""
    f = getattr(pr, "f85", None)
    if not f:
        return False
    lines = lines_of(items, f["cuts"])
    sess, li = f["sess"], f["li"]
    def binder_line(v, upto):
        for q in range(upto - 1, -1, -1):
            binds = dict((b[0], int(b[1])) for b in sess[q].get("binds", []))
            before = len(sess[q - 1].get("binds", [])) if q > 0 else 0
            if v in binds and binds[v] >= before and sess[q]["outcome"][0] == "ok":
                return q
        return None

    # The nil can be inherited: `R[1, e] = ..` (fallible) records e : T | [], a later infallible
    # `R[z: e] =R(z)` then records z : T | [] as well. The span therefore starts at the earliest line
    # that bound a nilable variable mentioned by the rejected line or, transitively, by a line of the span.
    all_nilable = [x[0] for x in sess[li].get("types", []) if is_nilable_type(x[1])]
    mentioned = set(f["nilable"])
    k = li
    while True:
        k2 = k
        for v in mentioned:
            kv = binder_line(v, li)
            if kv is None:
                return False
            k2 = min(k2, kv)
        text = " , ".join(l for l, _ in lines[k2:li + 1])
        more = {v for v in all_nilable if re.search(r"(?<![\w.%%'])%s(?![\w?!])" % re.escape(v), text)}
        if k2 == k and more <= mentioned:
            break
        k, mentioned = k2, mentioned | more
    first_item = lines[k - 1][1] + 1 if k > 0 else 0
    span = items[first_item:lines[li][1] + 1]
    control = [l for l, _ in lines[:k]] + [it["src"] for it in span if it["kind"] == "alias"] + \
              [", ".join(it["src"] for it in span if it["kind"] == "step")]
    _, outs = ctx.run_bin(exe, [hist_case(workers, control, mods)])
    cs = parse_session(outs[0]) if outs else None
    if not cs or len(cs) != len(control):
        return False
    return cs[-1]["outcome"] == f["want"] if f["want"] is not None else cs[-1]["outcome"][0] == "ok"


def run_real(ctx, exe, items, workers, limit, rng, mods=None):
    """Cases for one history: the one-program prefixes, one REPL session per splitting and, when the
    history has rejected lines, a last "twin" session in which they were never entered (finest split)."""
    splits, nfree = splittings(rng, items, limit)
    cases = [one_case(workers, one_program(items, j), mods) if items[j]["kind"] == "step" else None for j in range(len(items))]
    idx = [j for j, c in enumerate(cases) if c]
    hcases = [hist_case(workers, [l for l, _ in lines_of(items, c)], mods) for c in splits]
    if any(it["kind"] == "reject" for it in items) and any(it["kind"] != "reject" for it in items):
        hcases.append(hist_case(workers, [it["src"] for it in items if it["kind"] != "reject"], mods))
    return splits, nfree, idx, [cases[j] for j in idx], hcases


def evaluate_batch(ctx, exe, batch):
    """batch: list of (items, workers, splits, idx, ocases, hcases) -> per history (prefix_out, sessions)."""
    lines = []
    for b in batch:
        lines += b["ocases"] + b["hcases"]
    _, outs = ctx.run_sharded(exe, lines, shards=min(int(os.environ.get("VERIF_JOBS", "16")), max(1, len(lines) // 8)))
    res, pos = [], 0
    for b in batch:
        no, nh = len(b["ocases"]), len(b["hcases"])
        o = outs[pos:pos + no]
        h = outs[pos + no:pos + no + nh]
        pos += no + nh
        prefix = {}
        for j, line in zip(b["idx"], o):
            try:
                prefix[j] = sexpr.parse(line)
            except Exception:
                prefix[j] = ["unparsable", line]
        res.append((prefix, h))
    return res, len(lines)


def shrink(ctx, exe, items, workers, rng, mods=None):
    """Remove lines while the history still fails with an impl-violation (the values the steps were
    built to have are dropped: they are stale once a line is removed)."""
    items = [dict(it, expect=None) for it in items]

    def fails(its):
        if not its:
            return None
        splits, _, idx, oc, hc = run_real(ctx, exe, its, workers, 8, rng, mods)
        (res,), _ = evaluate_batch(ctx, exe, [dict(ocases=oc, hcases=hc, idx=idx)])
        try:
            check_history(its, res[0], res[1], splits)
        except Problem as p:
            if classify_f85(ctx, exe, its, workers, mods, p):
                return None
            return p if p.kind == "impl-violation" else None
        return None
    best = items
    changed = True
    while changed and len(best) > 1:
        changed = False
        for i in range(len(best) - 1, -1, -1):
            cand = best[:i] + best[i + 1:]
            if fails(cand):
                best = cand
                changed = True
                break
    return best, (fails(best) if len(best) < len(items) else None)


def known_probes(ctx, exe):
    """Probes of the known findings: F51/F52 (property C11) are routed through ctx.violation with their
    finding key (suppressed while listed as known; a probe that no longer misbehaves reports nothing);
    F53/F54 belong to C01 and are only recorded as related evidence; F85 probes go through classify_f85."""
    related = {}
    for line in corpus("c11_known.txt"):
        c = json.loads(line)
        w = c.get("workers", 1)
        cases = [hist_case(w, c["lines"])] + ([one_case(w, c["one"])] if c.get("one") else [])
        _, outs = ctx.run_bin(exe, cases)
        sess = parse_session(outs[0]) or []
        ocs = [d["outcome"] for d in sess]
        one = sexpr.parse(outs[1]) if len(outs) > 1 else None
        fid = c["finding"]
        if fid == "F85":
            items = [dict(kind="step", src=l, what="probe", expect=None) for l in c["lines"]]
            splits = [set(range(1, len(items)))]
            idx = list(range(len(items)))
            (res,), _ = evaluate_batch(ctx, exe, [dict(ocases=[one_case(w, one_program(items, j)) for j in idx],
                                                        hcases=[hist_case(w, c["lines"])], idx=idx)])
            still, classified = False, False
            try:
                check_history(items, res[0], res[1], splits)
            except Problem as pr:
                still = True
                classified = classify_f85(ctx, exe, items, w, None, pr)
                if classified:
                    ctx.violation({"kind": "impl-violation", "what": F85_WHAT, "history": c["lines"], "detail": pr.detail}, finding_key="F85")
                elif not c.get("must_not_classify"):
                    ctx.violation({"kind": "impl-violation", "what": pr.what, "history": c["lines"], "detail": pr.detail})
            related.setdefault("F85", []).append(dict(lines=c["lines"], still_present=still, classified_as_F85=classified,
                                                       expected_classification=not c.get("must_not_classify")))
            if c.get("must_not_classify") and classified:
                ctx.violation({"kind": "correspondence-broken", "correspondence": "F85 classifier", "what": "a rejection outside the F85 class was classified as F85",
                               "history": c["lines"]}, no_input=True)
            continue
        if fid == "F51":
            broken = len(sess) < len(c["lines"]) or any(o[0] in ("env-error", "panic", "timeout") for o in ocs) or \
                any("env-error" in json.dumps(d.get("vars", [])) for d in sess)
            still = broken
        else:
            still = bool(ocs) and one is not None and ocs[-1] != one
        related[fid] = dict(lines=c["lines"], repl=ocs[-1] if ocs else None, one_program=one, still_present=still)
        if still and fid in ("F51", "F52"):
            ctx.violation({"kind": "impl-violation", "what": "known-finding probe " + fid, "history": c["lines"],
                           "repl_outcomes": ocs, "one_program": one}, finding_key=fid)
    ctx.cov["known_related"] = related


def run(ctx):
    proofs_ok = ctx.coq_props()
    exe = ctx.harness("qv_repl")
    if not exe:
        return
    if getattr(ctx, "replay_path", None):
        return replay(ctx, exe)
    rng = ctx.rng
    cov = ctx.cov
    known_probes(ctx, exe)
    n_hist = ctx.n(220, 2500)
    batch = []
    stats_total = {}
    lens = {}
    for line in corpus("c11_histories.txt"):
        c = json.loads(line)
        items = [dict(what=it["kind"], **it) for it in c["items"]]
        for it in items:
            it.setdefault("expect", None)
        splits, nfree, idx, oc, hc = run_real(ctx, exe, items, c.get("workers", 2), 32, rng, c.get("mods"))
        batch.append(dict(items=items, workers=c.get("workers", 2), splits=splits, nfree=nfree, idx=idx, ocases=oc, hcases=hc,
                          corpus=c.get("name"), mods=c.get("mods")))
    n_corpus = len(batch)
    for h in range(n_hist):
        g = Gen(rng, binaries=(h % 3 == 0))
        n_items = rng.choice([3, 4, 5, 6, 6, 7, 8, 10, 12])
        if h % 12 == 7:
            g.f85_budget = 3        # cap: ~8 % of the histories may run into F85 (classified, counted)
        items = g.history(n_items, scenario=(h % 4 == 1))
        workers = rng.choice([1, 2, 2, 3])
        splits, nfree, idx, oc, hc = run_real(ctx, exe, items, workers, ctx.n(32, 48), rng, g.mods)
        batch.append(dict(items=items, workers=workers, splits=splits, nfree=nfree, idx=idx, ocases=oc, hcases=hc, mods=g.mods))
        for k, v in g.stats.items():
            stats_total[k] = stats_total.get(k, 0) + v
        lens[len(items)] = lens.get(len(items), 0) + 1
    results, nruns = evaluate_batch(ctx, exe, batch)
    compared = 0
    problems = 0
    f85_hits = 0
    generator_rejects = 0
    generator_reject_samples = []
    splits_compared = 0
    lines_run = 0
    nontrivial = set()
    for b, (prefix, sessions) in zip(batch, results):
        splits_compared += len(b["splits"])
        lines_run += sum(len(lines_of(b["items"], c)) for c in b["splits"])
        try:
            compared += check_history(b["items"], prefix, sessions, b["splits"])
            kinds = {it["what"] for it in b["items"]}
            if len(b["splits"]) >= 2 and len(kinds) >= 3:
                nontrivial.add(hashlib.sha1(json.dumps([it["src"] for it in b["items"]]).encode()).hexdigest())
        except Problem as p:
            if classify_f85(ctx, exe, b["items"], b["workers"], b.get("mods"), p):
                f85_hits += 1
                ctx.violation({"kind": "impl-violation", "what": F85_WHAT, "workers": b["workers"], "mods": b.get("mods") or {},
                               "history": [it["src"] for it in b["items"]], "detail": p.detail}, finding_key="F85")
                continue
            if p.kind != "impl-violation" and not b.get("corpus"):
                # a line the generator meant to be accepted (or rejected) that the REPL and the one program
                # agree to treat otherwise is a generator matter: counted, the history is skipped
                generator_rejects += 1
                if len(generator_reject_samples) < 3:
                    generator_reject_samples.append(dict(what=p.what, at=p.detail.get("at"), history=[it["src"] for it in b["items"]]))
                continue
            problems += 1
            if problems <= 3:
                if p.kind == "impl-violation":
                    small, sp = shrink(ctx, exe, b["items"], b["workers"], rng, b.get("mods"))
                    sp = sp or p
                    ctx.violation({"kind": "impl-violation", "what": sp.what, "workers": b["workers"], "mods": b.get("mods") or {},
                                   "history": [it["src"] for it in small], "detail": sp.detail,
                                   "unshrunk_history": [it["src"] for it in b["items"]]})
                else:
                    ctx.violation({"kind": "correspondence-broken", "correspondence": "C11 generator vs real compiler (a generated line was not accepted/rejected as intended)",
                                   "what": p.what, "history": [it["src"] for it in b["items"]], "detail": p.detail}, no_input=True)
    # ------------------------------------------------------------------ (a) model vs real bookkeeping
    drv = ctx.driver("repl")
    model_lines, model_meta = [], []
    renumbering = 0
    shadow_lines = 0
    rejected_lines = 0
    compile_rejected = 0
    for b, (prefix, sessions) in zip(batch, results):
        for cuts, out in zip(b["splits"], sessions):
            sess = parse_session(out)
            if not sess:
                continue
            model_lines.append(model_input(sess))
            model_meta.append((b, cuts, sess))
            prev = None
            for d in sess:
                if "binds" not in d:
                    break
                if prev is not None:
                    old = dict((x[0], x[1]) for x in prev["binds"])
                    new = dict((x[0], x[1]) for x in d["binds"])
                    if d["outcome"][0] != "parse-error" and any(n in new and new[n] != i for n, i in old.items() if n in new and int(new[n]) < len(old)):
                        renumbering += 1
                if d["outcome"][0] in ("parse-error", "compile-error"):
                    rejected_lines += 1
                    compile_rejected += d["outcome"][0] == "compile-error"
                prev = d
    model_bad = 0
    if drv:
        _, mouts = ctx.run_sharded(drv, model_lines)
        for (b, cuts, sess), mi, mo in zip(model_meta, model_lines, mouts):
            diff = compare_model(sess, mo)
            if diff:
                model_bad += 1
                if model_bad <= 3:
                    ctx.violation({"kind": "correspondence-broken",
                                   "correspondence": "repl/Repl.v evaluate/compact/release_orphan_locals vs repl.rs + worker.rs + executor.rs (session after every line)",
                                   "lines": [l for l, _ in lines_of(b["items"], cuts)], "workers": b["workers"],
                                   "difference": diff, "model_input": mi}, no_input=True)
    cov["traces_validated_against_impl"] = len(model_lines) - model_bad
    cov["model_sessions_compared"] = len(model_lines)
    cov["lines_whose_compaction_renumbered_a_binding"] = renumbering
    cov["rejected_lines_run"] = rejected_lines
    cov["rejected_by_compiler_after_compaction"] = compile_rejected
    problems += model_bad
    cov["evaluations"] = nruns + len(model_lines)
    cov["corpus_histories"] = n_corpus
    cov["f85_shapes_left_in_generated_histories"] = stats_total.get("f85_shapes_left_in", 0)
    cov["histories_classified_as_F85"] = f85_hits
    cov["generator_rejects"] = generator_rejects
    cov["generator_reject_samples"] = generator_reject_samples
    cov["sessions_without_the_rejected_lines_compared"] = sum(1 for b in batch if len(b["hcases"]) == len(b["splits"]) + 1)
    cov["rejected_after_import"] = stats_total.get("reject_after_import", 0)
    cov["rejected_after_first_import_of_a_module"] = stats_total.get("reject_after_first_import", 0)
    cov["module_uses_after_a_rejected_import"] = stats_total.get("module_use_after_rejected_import", 0)
    cov["shadowings"] = stats_total.get("shadow", 0)
    cov["nil_valued_steps"] = stats_total.get("nil", 0)
    cov["generator_exclusions"] = (
        "kept out of generated histories (known findings, each probed separately in corpus/c11_known.txt): F13/F27 (no value or "
        "binding whose static type is a union with nil feeds a later step); F52 (no `~`-consuming line after a line whose static "
        "type contains nil; a fallible literal-pattern step stays alone on its line); a line break is still forced after a nil-valued step (F51, repaired: the REPL forgets the variables a "
        "short-circuited line never stored; its reproducers are must-pass corpus histories); F53/F54 (C01: a name is rebound only if it was never bound to a tuple, by a destructuring pattern, "
        "from a bare variable/field reference or from the previous result, and never matched; `=b` does not bind the Ok of a "
        "preceding match step). Type aliases are hoisted to the front of the one-program text (the parser rejects an alias "
        "after an expression step, contrary to docs/spec.md); runtime errors are not generated.")
    cov["histories"] = len(batch)
    cov["splits_compared"] = splits_compared
    cov["repl_lines_run"] = lines_run
    cov["line_values_compared_with_one_program"] = compared
    cov["distinct_nontrivial"] = len(nontrivial)
    cov["rule"] = "distinct history (hash of its lines) with >= 2 splittings compared and >= 3 different kinds of step"
    cov["history_length_histogram"] = {str(k): v for k, v in sorted(lens.items())}
    cov["step_kinds"] = stats_total
    cov["disagreements_checked"] = problems
    cov["samples"] = [dict(history=[it["src"] for it in batch[-1]["items"]], splits=len(batch[-1]["splits"]))]
    if not proofs_ok:
        ctx.violation({"kind": "theorem-broken", "theorem": getattr(ctx, "broken_theorem", "?"),
                       "searched": "%d evaluations on the real code (REPL lines vs one program over %d splittings, model vs real bookkeeping on %d sessions), %d disagreements"
                                   % (cov["evaluations"], splits_compared, len(model_lines), problems)},
                      no_input=(problems == 0))


def replay(ctx, exe):
    """Re-run the history of a replay file: every accepted line against the one program made of the
    accepted lines so far (aliases hoisted), refcounts and quiescence after every line."""
    r = json.load(open(ctx.replay_path))
    lines = r.get("history") or r.get("lines") or []
    w = r.get("workers", 2)
    mods = r.get("mods") or {}
    _, outs = ctx.run_bin(exe, [hist_case(w, lines, mods)])
    sess = parse_session(outs[0]) or []
    items = []
    for l, d in zip(lines, sess):
        oc = d["outcome"][0]
        kind = "alias" if oc == "none" else "step"
        if oc == "parse-error":
            kind = "reject"
        elif oc == "compile-error":
            # a line the REPL rejects is a rejected line only if the one program rejects it too as the
            # next step after the accepted lines so far; otherwise it is a step (and the check fails on it)
            trial = items + [dict(kind="step", src=l)]
            _, o = ctx.run_bin(exe, [one_case(w, one_program(trial, len(trial) - 1), mods)])
            if not o or not o[0].startswith("(ok"):
                kind = "reject"
        items.append(dict(kind=kind, src=l, what="replay", expect=None, nil=d["outcome"] == ["ok", NIL]))
    items += [dict(kind="step", src=l, what="replay", expect=None) for l in lines[len(items):]]
    splits = [set(range(1, len(items)))]
    idx = [j for j, it in enumerate(items) if it["kind"] == "step"]
    hcases = [hist_case(w, lines, mods)]
    if any(it["kind"] == "reject" for it in items) and any(it["kind"] != "reject" for it in items):
        hcases.append(hist_case(w, [it["src"] for it in items if it["kind"] != "reject"], mods))
    (res,), _ = evaluate_batch(ctx, exe, [dict(ocases=[one_case(w, one_program(items, j), mods) for j in idx],
                                                hcases=hcases, idx=idx)])
    try:
        check_history(items, res[0], res[1], splits)
        print("replay: no failure on the current tree")
    except Problem as p:
        if classify_f85(ctx, exe, items, w, mods, p):
            ctx.violation({"kind": "impl-violation", "what": F85_WHAT, "history": lines, "workers": w, "detail": p.detail}, finding_key="F85")
            return
        ctx.violation({"kind": "impl-violation" if p.kind == "impl-violation" else "correspondence-broken", "what": p.what,
                       "history": lines, "workers": w, "detail": p.detail}, no_input=p.kind != "impl-violation")
