"""stub (being written)"""
def generate(rng, stats=None):
    return dict(src="[%d, 2] __integer_add__" % rng.randint(0, 9), feats=["builtin"], probe=None)
