"""C01 generator: TYPE-DIRECTED Quiver programs aimed at the compiler's typing rules.

A program is a list of SCENARIOS sharing one preamble of type aliases.  Each scenario picks types
at random (goal type -> term, the core-language terms come from vplib/props/c02gen.py's `Gen`),
defines one or more functions whose bodies depend on what the compiler must have inferred
(narrowing by branch order, complement narrowing, partial types, generics, recursive aliases,
tail calls, closures, spreads, pins, or-/as-patterns, spawn/send/select typing) and adds
observations; the program's value is the tuple of all observations, so that the extracted Coq
judgement decides `value : inferred type` for every one of them.  Non-generic functions are also
returned BY REFERENCE in the tuple: the check applies them to inputs enumerated from their
INFERRED parameter type.

About a third of the programs carry one ILL-TYPED PROBE: an argument / field / message of a type
the context does not admit (another variant, another scalar, nil).  The compiler must reject
those; when it accepts one and the run goes wrong, that is an unsoundness (the known ones are
F1 tail-call argument, F2 union argument to a generic non-union parameter, F13 nil through a later
type test, F27 nil binder, F53 stale narrowing after rebinding, F54 provenance of a match result).

`generate(rng, stats)` -> dict(src, feats, probe)."""
from vplib.props import c02gen
from vplib.props.c02gen import INT, BIN, STR, tup, ty_src

NAMES = ["A", "B", "C", "D", "P", "Q", "Box", "Pt", "Leaf", "Node"]
LABELS = ["x", "y", "z", "k", "w", "v"]


class G:
    def __init__(self, rng, stats):
        self.rng = rng
        self.stats = stats
        self.core = c02gen.Gen(rng, {})
        self.core.budget = 30
        self.n = 0
        self.aliases = []        # preamble lines
        self.steps = []          # definitions
        self.obs = []            # observation chains
        self.feats = set()
        self.probe = None

    def fresh(self, p):
        self.n += 1
        return "%s%d" % (p, self.n)

    def feat(self, *ks):
        for k in ks:
            self.feats.add(k)
            self.stats[k] = self.stats.get(k, 0) + 1

    def chance(self, p):
        return self.rng.random() < p

    # ------------------------------------------------------------------ types and terms
    def scalar(self):
        return self.rng.choice([INT, INT, BIN, STR])

    def small_type(self, depth=0):
        r = self.rng.random()
        if r < 0.55 or depth > 1:
            return self.scalar()
        n = self.rng.randint(1, 3)
        labelled = self.chance(0.5)
        labels = self.rng.sample(LABELS, n) if labelled else [None] * n
        return tup(self.rng.choice(NAMES[:7] + [None, None]), [(l, self.small_type(depth + 1)) for l in labels])

    def term(self, t, env=None):
        """a well-typed chain of type t (core generator; fresh budget per call)"""
        self.core.budget = self.rng.choice([1, 3, 6, 12])
        self.core.param = None
        s = self.core.expr(t, list(env or []), None, 1)
        return s

    def lit(self, t):
        return self.core.lit(t)

    def other_type(self, t):
        """a type different from t (for ill-typed probes)"""
        for _ in range(8):
            u = self.rng.choice([INT, BIN, STR, "nil", tup(None, [(None, INT)]), tup("Zz", [])])
            if u != t:
                return u
        return "nil"

    def wrong(self, t):
        """a term of a type other than t"""
        u = self.other_type(t)
        return "[]" if u == "nil" else self.lit(u)

    def int_op(self, a, b=None):
        op = self.rng.choice(["add", "subtract", "multiply"])
        return "[%s, %s] __integer_%s__" % (a, b if b is not None else self.rng.randint(0, 9), op)

    def use(self, t, v):
        """an int-valued chain that USES value expression v at type t (a wrong static type makes
        the run fail or the compiler reject)"""
        if t == INT:
            return self.int_op(v)
        if t == BIN:
            return "%s __binary_length__" % v
        if t == STR:
            return "%s .0 __binary_length__" % v
        if t[0] == "tup" and t[2]:
            i = self.rng.randrange(len(t[2]))
            l, ft = t[2][i]
            acc = "%s .%s" % (v, l if l and self.chance(0.7) else str(i))
            return self.use(ft, acc) if ft in (INT, BIN, STR) else "%s =c01u, 1" % acc
        return "%s =c01u, 2" % v

    # ------------------------------------------------------------------ scenarios
    def sc_union_dispatch(self):
        """a union alias of named variants; a function narrowing it branch by branch; the last
        branch relies on complement narrowing"""
        r = self.rng
        name = self.fresh("u")
        vs = []
        for nm in r.sample(NAMES, r.randint(2, 4)):
            k = r.randint(0, 2)
            labelled = self.chance(0.6)
            labels = r.sample(LABELS, k) if labelled else [None] * k
            vs.append(tup(nm, [(l, self.scalar()) for l in labels]))
        self.aliases.append("'%s = %s" % (name, " | ".join(ty_src(v) for v in vs)))
        f = self.fresh("f")
        order = list(vs)
        r.shuffle(order)
        branches = []
        for v in order[:-1]:
            pat, body = self.variant_branch(v)
            branches.append("=%s => %s" % (pat, body))
        last = order[-1]
        form = r.random()
        if form < 0.35:
            branches.append(str(r.randint(0, 99)))                       # default
        elif form < 0.7:
            pat, body = self.variant_branch(last)
            branches.append("=%s => %s" % (pat, body))
        else:
            # complement narrowing: only `last` remains, its fields are accessible on `~`
            if last[2]:
                i = r.randrange(len(last[2]))
                l, ft = last[2][i]
                branches.append(self.use(ft, "~.%s" % (l if l else i)))
                self.feat("complement_narrowing")
            else:
                branches.append("~ =%s, 5" % last[1])
                self.feat("complement_narrowing")
        self.steps.append("%s = #'%s { | %s }" % (f, name, " | ".join(branches)))
        self.feat("unions", "narrowing_by_branch_order")
        for v in r.sample(vs, min(len(vs), 2)):
            self.obs.append("%s %s" % (self.lit(v), f))
        self.obs.append("&" + f)
        if self.want_probe():
            self.obs.append("%s %s" % (self.lit(tup("Zz", [(None, INT)])), f))
            self.set_probe("non-member-to-union-param")
        return f, ("alias", name), vs

    def variant_branch(self, v):
        r = self.rng
        if not v[2]:
            return v[1], str(r.randint(0, 50))
        k = r.randrange(len(v[2]))
        parts, body = [], None
        for i, (l, ft) in enumerate(v[2]):
            if i == k:
                x = self.fresh("b")
                parts.append((l + ": " if l else "") + x)
                body = self.use(ft, x)
            else:
                parts.append((l + ": " if l else "") + "_")
        return "%s[%s]" % (v[1], ", ".join(parts)), body

    def sc_scalar_tests(self):
        """type tests over a union of scalars and nil, in random order (F13 lives here)"""
        r = self.rng
        members = r.sample([INT, BIN, "nil", STR], r.randint(2, 4))
        f = self.fresh("t")
        order = list(members)
        r.shuffle(order)
        branches = []
        for m in order[:-1] if self.chance(0.6) else order:
            if m == "nil":
                branches.append("=[] => %d" % r.randint(0, 9))
            elif self.chance(0.3):
                x = self.fresh("a")
                branches.append("=(%s)%s => %s" % (ty_src(m), x, self.use(m, x)))
                self.feat("as_patterns")
            else:
                branches.append("=%s => %s" % (ty_src(m), self.use(m, "~")))
        if len(branches) < len(order):
            last = order[-1]
            branches.append("0" if last == "nil" or self.chance(0.4) else self.use(last, "~"))
            self.feat("complement_narrowing")
        self.steps.append("%s = #(%s) { | %s }" % (f, " | ".join(ty_src(m) for m in members), " | ".join(branches)))
        self.feat("unions", "type_tests", "narrowing_by_branch_order")
        for m in r.sample(members, min(2, len(members))):
            self.obs.append("%s %s" % ("[]" if m == "nil" else self.lit(m), f))
        self.obs.append("&" + f)

    def sc_partial(self):
        r = self.rng
        k = r.randint(1, 2)
        labels = r.sample(LABELS, k)
        ftypes = [self.scalar() for _ in labels]
        nm = r.choice([None, None, "P", "Q"])
        f = self.fresh("p")
        body_i = r.randrange(k)
        head = "%s(%s)" % (nm or "", ", ".join("%s: %s" % (l, ty_src(t)) for l, t in zip(labels, ftypes)))
        if self.chance(0.5):
            body = self.use(ftypes[body_i], "$.%s" % labels[body_i])
        else:
            binds = ", ".join(labels)
            body = "=%s(%s) => %s" % (nm or "", binds, self.use(ftypes[body_i], labels[body_i]))
            self.feat("partial_patterns")
        self.steps.append("%s = #%s { %s }" % (f, head, body))
        self.feat("partials")
        extra = [l for l in LABELS if l not in labels]
        for _ in range(2):
            fields = [(l, t) for l, t in zip(labels, ftypes)]
            for e in r.sample(extra, r.randint(0, 2)):
                fields.insert(r.randint(0, len(fields)), (e, self.scalar()))
            self.obs.append("%s %s" % (self.lit(tup(nm or r.choice(["A", None]), fields)), f))
        self.obs.append("&" + f)
        if self.want_probe():
            bad = [(l, self.other_type(t) if i == body_i else t) for i, (l, t) in enumerate(zip(labels, ftypes))]
            bad = [(l, INT if t == "nil" else t) for l, t in bad]
            self.obs.append("%s %s" % (self.lit(tup(nm, bad)), f))
            self.set_probe("partial-field-of-wrong-type")

    def sc_generic(self):
        r = self.rng
        kind = r.choice(["id", "first", "wrap", "pair_use", "opt"])
        f = self.fresh("g")
        self.feat("generics")
        a, b = self.small_type(), self.small_type()
        if kind == "id":
            self.steps.append("%s = #<'t>'t { $ }" % f)
            self.obs.append(self.use(a, "%s %s" % (self.lit(a), f)) if a in (INT, BIN, STR) else "%s %s" % (self.lit(a), f))
            self.obs.append("%s %s" % (self.lit(b), f))
        elif kind == "first":
            self.steps.append("%s = #<'a, 'b>['a, 'b] { %s }" % (f, r.choice(["$0", "$1", "[$1, $0]", "=[p, q] => [q, p, q]"])))
            self.obs.append("[%s, %s] %s" % (self.lit(a), self.lit(b), f))
            self.obs.append("[%s, %s] %s" % (self.lit(b), self.lit(a), f))
        elif kind == "wrap":
            self.steps.append("%s = #<'t>'t { Box[v: ~] }" % f)
            self.obs.append("%s %s .v" % (self.lit(a), f))
            self.obs.append("%s %s" % (self.lit(b), f))
        elif kind == "pair_use":
            # a generic function with a NON-generic component that it uses (F2's shape)
            self.steps.append("%s = #<'t>['int, 't] { [%s, $1] }" % (f, self.int_op("$0")))
            self.obs.append("[%d, %s] %s" % (r.randint(0, 9), self.lit(a), f))
            if self.want_probe():
                g = self.fresh("h")
                self.steps.append("%s = #('int | 'bin) { [~, %s] %s }" % (g, self.lit(b), f))
                self.obs.append("0x01 %s" % g)
                self.set_probe("union-arg-to-generic-nonunion-param")
        else:
            self.steps.append("%s = #<'t>('t | []) { | =[] => None | Some[~] }" % f)
            self.obs.append("%s %s" % (self.lit(a), f))
            self.obs.append("[] %s" % f)
            self.feat("unions")

    def sc_list(self):
        """recursive alias + tail-recursive functions over it"""
        r = self.rng
        if not any(a.startswith("'list<") for a in self.aliases):
            self.aliases.append("'list<'t> = Nil | Cons['t, ^]")
        self.feat("recursive_types", "generics", "tail_calls")
        et = self.scalar()
        n = r.randint(0, 4)

        def mk(k):
            return "Nil" if k == 0 else "Cons[%s, %s]" % (self.lit(et), mk(k - 1))
        kind = r.choice(["len", "rev", "sum", "last", "tail", "mono"])
        f = self.fresh("l")
        if kind == "len":
            self.steps.append("%s = #<'t>['list<'t>, 'int] { | =[Nil, n] => n | =[Cons[_, t], n] => [t, [n, 1] __integer_add__] ^ }" % f)
            self.obs.append("[%s, 0] %s" % (mk(n), f))
        elif kind == "rev":
            self.steps.append("%s = #<'t>['list<'t>, 'list<'t>] { | =[Nil, acc] => acc | =[Cons[h, t], acc] => [t, Cons[h, acc]] ^ }" % f)
            self.obs.append("[%s, Nil] %s" % (mk(n), f))
        elif kind == "sum":
            self.steps.append("%s = #['list<'int>, 'int] { | =[Nil, n] => n | =[Cons[h, t], n] => [t, [n, h] __integer_add__] ^ }" % f)
            et = INT
            self.obs.append("[%s, 0] %s" % (mk(n), f))
            self.obs.append("&" + f)
        elif kind == "last":
            self.steps.append("%s = #<'t>'list<'t> { | =Cons[h, Nil] => h | =Cons[_, t] => t ^ }" % f)
            self.obs.append("%s %s" % (mk(max(n, 1)), f))
        elif kind == "tail":
            # a binder taken from the recursive position
            self.steps.append("%s = #'list<%s> { | =Cons[_, t] => t | Nil }" % (f, ty_src(et)))
            self.obs.append("%s %s" % (mk(n), f))
            self.feat("binder_of_recursive_field")
        else:
            self.steps.append("%s = #'list<%s> { | =Nil => 0 | =Cons[h, _] => %s }" % (f, ty_src(et), self.use(et, "h")))
            self.obs.append("%s %s" % (mk(n), f))
            self.obs.append("&" + f)
        if self.want_probe():
            self.obs.append("%s %s" % ("Cons[%s, %s]" % (self.lit(et), self.wrong(INT)), f) if kind in ("mono", "tail", "last")
                            else "[Cons[%s, Zz], %s] %s" % (self.lit(et), "0" if kind != "rev" else "Nil", f))
            self.set_probe("ill-formed-list-argument")

    def sc_tail(self):
        """tail calls: `^`, `^f`, `^~`; the argument's type is what F1 is about"""
        r = self.rng
        self.feat("tail_calls")
        pt = self.scalar()
        f = self.fresh("k")
        self.steps.append("%s = #%s { %s }" % (f, ty_src(pt), self.use(pt, "~")))
        g = self.fresh("k")
        at = self.scalar()
        kind = r.choice(["named", "named", "self", "ripple"])
        probe = self.want_probe()
        if kind == "named":
            arg = self.wrong(pt) if probe else self.term(pt)
            self.steps.append("%s = #%s { %s ^%s }" % (g, ty_src(at), arg, f))
            if probe:
                self.set_probe("ill-typed-tail-call-argument")
        elif kind == "self":
            arg = self.wrong(INT) if probe else self.int_op("~", 1).replace("multiply", "subtract").replace("add", "subtract")
            self.steps.append("%s = #'int { | =0 => %s | =1 => %s | %s ^ }" % (g, self.lit(at), self.lit(at), arg))
            at = INT
            if probe:
                self.set_probe("ill-typed-self-tail-call-argument")
        else:
            h = self.fresh("k")
            self.steps.append("%s = #{ %s }" % (h, self.term(pt)))
            self.steps.append("%s = #%s { &%s ^~ }" % (g, ty_src(at), h))
        self.obs.append("%s %s" % (self.lit(at) if kind != "self" else str(r.randint(0, 6)), g))
        self.obs.append("&" + g)

    def sc_closure(self):
        r = self.rng
        self.feat("closures")
        ct, pt = self.scalar(), self.scalar()
        mk = self.fresh("c")
        inner = "[%s, %s]" % (self.use(ct, "n"), self.use(pt, "~"))
        self.steps.append("%s = #%s { n = $, #%s { %s } }" % (mk, ty_src(ct), ty_src(pt), inner))
        c = self.fresh("c")
        self.steps.append("%s = %s %s" % (c, self.lit(ct), mk))
        self.obs.append("%s %s" % (self.lit(pt), c))
        self.obs.append("&" + c)
        self.obs.append("&" + mk)
        if self.chance(0.4):
            # rebinding after capture: the closure keeps the old value
            self.steps.append("n = %s" % self.lit(self.scalar()))
            self.obs.append("%s %s" % (self.lit(pt), c))
            self.feat("rebinding")
        if self.want_probe():
            self.obs.append("%s %s" % (self.wrong(pt), c))
            self.set_probe("ill-typed-call-argument")

    def sc_tuple_ops(self):
        """spreads, field access, pins, or-patterns, nested blocks"""
        r = self.rng
        t = tup(r.choice(NAMES[:6]), [(l, self.scalar()) for l in r.sample(LABELS, r.randint(1, 3))])
        x = self.fresh("r")
        self.steps.append("%s = %s" % (x, self.lit(t)))
        l0, t0 = t[2][0]
        newl = [l for l in LABELS if l not in [l for l, _ in t[2]]][0]
        nt = self.scalar()
        y = self.fresh("r")
        form = r.random()
        if form < 0.4:
            self.steps.append("%s = %s[..., %s: %s]" % (y, x, newl, self.lit(nt)))
            self.obs.append(self.use(nt, "%s.%s" % (y, newl)))
        elif form < 0.7:
            ot = self.scalar()
            self.steps.append("%s = %s[...%s, %s: %s]" % (y, r.choice(NAMES[:6]), x, l0, self.lit(ot)))
            self.obs.append(self.use(ot, "%s.%s" % (y, l0)))
            self.feat("spread_override")
        else:
            self.steps.append("%s = %s [..., %s: %s]" % (y, x, newl, self.lit(nt)))
            self.obs.append(self.use(t0, "%s.%s" % (y, l0)))
        self.feat("spreads", "field_access")
        self.obs.append(y)
        # pins / or-patterns / nested blocks on an int
        v = self.fresh("i")
        self.steps.append("%s = %d" % (v, r.randint(0, 5)))
        self.obs.append("%d { | =&%s => 1 | =(%d | %d) => { %s { =0 => 2 | 3 } } | 4 }" % (r.randint(0, 5), v, r.randint(0, 5), r.randint(0, 5), v))
        self.feat("pins", "or_patterns", "nested_blocks")

    def sc_nil_flow(self):
        """values that may be nil: bare binders (F27), rebinding (F53), match provenance (F54)"""
        r = self.rng
        kind = r.choice(["maybe_bind", "maybe_bind", "rebinding", "provenance", "opt_fn"])
        self.feat("nil_flow")
        if kind == "maybe_bind":
            a = self.fresh("m")
            t = self.scalar()
            sel = r.randint(0, 2)
            self.steps.append("%s = %d { | =1 => [] | %s }" % (a, sel, self.lit(t)))
            # a sound compiler types `a` as T | []: using it at T must be rejected, testing it is fine
            how = r.random()
            if how < 0.4:
                self.obs.append("%s { | =[] => 0 | 1 }" % a)
            elif how < 0.7:
                self.obs.append("[%s]" % a)
            else:
                self.obs.append(self.use(t, a))
                self.set_probe("maybe-nil-used-at-non-nil-type")
        elif kind == "rebinding":
            d = self.fresh("d")
            t1 = tup(r.choice(NAMES[:6]), [("z", INT)])
            t2 = self.scalar()
            self.steps.append("%s = %s" % (d, self.lit(t1)))
            if self.chance(0.5):
                self.obs.append("%s.z" % d)
            self.steps.append("%s = %s" % (d, self.lit(t2)))
            self.obs.append(self.use(t2, d) if self.chance(0.6) else d)
            self.feat("rebinding")
            if self.want_probe():
                self.obs.append("%s.z" % d)
                self.set_probe("field-of-rebound-scalar")
        elif kind == "provenance":
            n = self.fresh("n")
            self.steps.append("%s = %d" % (n, r.randint(0, 9)))
            self.steps.append("%s =%s, =%s, %s =%s" % (n, self.fresh("v"), self.fresh("b"), n, self.fresh("v")))
            self.feat("match_provenance")
        else:
            f = self.fresh("o")
            t = self.scalar()
            self.steps.append("%s = #'int { | =0 => [] | %s }" % (f, self.lit(t)))
            x = self.fresh("m")
            self.steps.append("%s %s =%s" % (r.choice(["0", "1"]), f, x))
            self.obs.append("%s { =[] => 0 | 1 }" % x if self.chance(0.6) else "[%s]" % x)
            self.obs.append("&" + f)

    def sc_process(self):
        r = self.rng
        kind = r.choice(["await", "recv", "recv_union", "self_send", "capture"])
        self.feat("spawn")
        t = self.scalar()
        p = self.fresh("pr")
        probe = self.want_probe()
        if kind == "await":
            arg = self.wrong(t) if probe else self.lit(t)
            self.steps.append("%s = %s @%s { %s }" % (p, arg, ty_src(t), self.use(t, "~")))
            self.obs.append("!%s" % p)
            self.feat("await")
            if probe:
                self.set_probe("ill-typed-spawn-argument")
        elif kind == "recv":
            self.steps.append("%s = @{ !%s %s }" % (p, ty_src(t) if t != STR else "#Str['bin]", "{ %s }" % self.use(t, "~")))
            msg = self.wrong(t) if probe else self.lit(t)
            self.steps.append("%s %s" % (msg, p))
            self.obs.append("!%s" % p)
            self.feat("send", "select")
            if probe:
                self.set_probe("ill-typed-message")
        elif kind == "recv_union":
            self.steps.append("%s = @{ !#('int | 'bin) { | ='int => %s | %s } }" % (p, self.int_op("~"), "~ __binary_length__"))
            self.steps.append("%s %s" % (self.wrong(INT) if probe else r.choice(["0x0102", "7"]), p))
            self.obs.append("!%s" % p)
            self.feat("send", "select", "unions", "type_tests")
            if probe:
                self.set_probe("ill-typed-message")
        elif kind == "self_send":
            self.steps.append("%s = @{ %s ., !%s %s }" % (p, self.lit(t), ty_src(t) if t != STR else "#Str['bin]", "{ %s }" % self.use(t, "~")))
            self.obs.append("!%s" % p)
            self.feat("send", "select", "self")
        else:
            c = self.fresh("cv")
            self.steps.append("%s = %s" % (c, self.lit(t)))
            self.steps.append("%s = @{ %s }" % (p, self.use(t, c)))
            self.obs.append("!%s" % p)
            self.feat("await", "closures")

    def sc_chain_dispatch(self):
        """multi-branch dispatch whose conditions are CHAINS of several type / pattern tests on ONE
        provenance (the parameter, a field `$.k`, a field of a field, a bound alias) over
        OVERLAPPING alias unions, followed by branches that rely on the complement (a variant
        pattern that needs no run-time check once the complement is right, field access and
        arithmetic on the narrowed part); called with every variant.  The generator tracks the
        TRUE set of variants that can reach each branch, so everything it writes is well-typed
        for a compiler whose narrowing is exact or weaker (weaker = a compile error, no verdict)."""
        r = self.rng
        names = r.sample(NAMES, r.randint(3, 5))
        variants = []
        for nm in names:
            variants.append(tup(nm, [(None, self.scalar())] if self.chance(0.75) else []))
        tname = self.fresh("w")
        self.aliases.append("'%s = %s" % (tname, " | ".join(ty_src(v) for v in variants)))
        subsets = []
        for _ in range(r.randint(2, 3)):
            k = r.randint(1, len(variants) - 1)
            sub = r.sample(variants, k)
            sub = [v for v in variants if v in sub]
            sname = self.fresh("w")
            self.aliases.append("'%s = %s" % (sname, " | ".join(ty_src(v) for v in sub)))
            subsets.append((sname, sub))
        shape = r.choice(["param", "field", "field", "labelled_field", "nested_field", "bound_alias", "bound_field"])
        self.feat("chained_tests", "overlapping_aliases", "chain_shape_" + shape, "unions", "narrowing_by_branch_order")
        T = "'" + tname
        if shape in ("param", "bound_alias"):
            ptype = T
            mkarg = lambda lit: lit
        elif shape in ("field", "bound_field"):
            ptype = "[%s, 'int]" % T
            mkarg = lambda lit: "[%s, %d]" % (lit, r.randint(0, 9))
        elif shape == "labelled_field":
            ptype = "[v: %s, n: 'int]" % T
            mkarg = lambda lit: "[v: %s, n: %d]" % (lit, r.randint(0, 9))
        else:
            ptype = "[['int, %s], 'bin]" % T
            mkarg = lambda lit: "[[%d, %s], 0x01]" % (r.randint(0, 9), lit)
        P = {"param": "$", "field": "$.0", "labelled_field": "$.v", "nested_field": "$.0.1",
             "bound_alias": "x", "bound_field": "y"}[shape]

        def vpat(v, binder=None):
            if not v[2]:
                return v[1]
            return "%s[%s]" % (v[1], binder or "_")

        def whole_pattern(v, binder):
            """a pattern on the WHOLE parameter selecting variant v at the provenance"""
            inner = vpat(v, binder)
            if shape == "param":
                return "=" + inner
            if shape == "field":
                return "=[%s, _]" % inner
            if shape == "labelled_field":
                return "=[v: %s, n: _]" % inner
            if shape == "nested_field":
                return "=[[_, %s], _]" % inner
            return "%s =%s" % (P, inner)            # bound alias: test the alias itself

        def test(remaining):
            """one failable test on P: (source, set of variants it accepts)"""
            k = r.random()
            if k < 0.5:
                sname, sub = r.choice(subsets)
                if self.chance(0.25):
                    self.feat("as_patterns")
                    return "%s =('%s)%s" % (P, sname, self.fresh("z")), sub
                self.feat("type_tests")
                return "%s ='%s" % (P, sname), sub
            if k < 0.8:
                v = r.choice(variants)
                return "%s =%s" % (P, vpat(v)), [v]
            vs = r.sample(variants, 2)
            self.feat("or_patterns")
            return "%s =(%s)" % (P, " | ".join(vpat(v) for v in vs)), vs

        remaining = list(variants)
        branches = []
        nb = r.randint(2, 4)
        chains = 0
        for bi in range(nb):
            if not remaining:
                break
            want_chain = chains == 0 or self.chance(0.45)
            if want_chain and bi < nb - 1:
                m = r.choice([1, 2, 2, 2, 3])
                tests, acc = [], list(remaining)
                for _ in range(m):
                    src, accepted = test(remaining)
                    tests.append(src)
                    acc = [v for v in acc if v in accepted]
                branches.append("%s => %d" % (", ".join(tests), r.randint(100, 199)))
                remaining = [v for v in remaining if v not in acc]
                chains += 1
                if m >= 2:
                    self.feat("chain_len_%d" % m)
            else:
                # rely on the complement
                v = r.choice(remaining)
                if len(remaining) == 1 and v[2] and self.chance(0.5):
                    # only v can arrive: its field is accessible on the narrowed provenance
                    branches.append(self.use(v[2][0][1], "%s.0" % P))
                    self.feat("complement_field_access")
                    remaining = []
                    break
                if v[2]:
                    b = self.fresh("b")
                    branches.append("%s => %s" % (whole_pattern(v, b), self.use(v[2][0][1], b)))
                else:
                    branches.append("%s => %d" % (whole_pattern(v, None), r.randint(200, 299)))
                self.feat("complement_pattern")
                remaining = [u for u in remaining if u != v]
        branches.append(str(r.randint(0, 9)))
        f = self.fresh("d")
        body = " | ".join(branches)
        if shape == "bound_alias":
            self.steps.append("%s = #%s { x = $, x { | %s } }" % (f, ptype, body))
            self.feat("bound_alias_provenance")
        elif shape == "bound_field":
            self.steps.append("%s = #%s { y = $.0, y { | %s } }" % (f, ptype, body))
            self.feat("bound_alias_provenance")
        else:
            self.steps.append("%s = #%s { | %s }" % (f, ptype, body))
        for v in variants:
            self.obs.append("%s %s" % (mkarg(self.lit(v)), f))
        self.obs.append("&" + f)

    def sc_core(self):
        """a plain core-language expression of a random type (c02gen): blocks, matches mid-chain,
        strings, spreads, closures over rebinding"""
        t = self.small_type()
        self.obs.append(self.term(t))
        self.feat("core_expression")

    def sc_annotated(self):
        """declared result types `#P -> R`"""
        r = self.rng
        p, res = self.scalar(), self.small_type()
        f = self.fresh("a")
        probe = self.want_probe()
        body = self.wrong(res) if probe else self.term(res)
        self.steps.append("%s = #%s -> %s { %s }" % (f, c02gen.param_src(p), ty_src(res), body))
        self.obs.append("%s %s" % (self.lit(p), f))
        self.obs.append("&" + f)
        self.feat("declared_result_type")
        if probe:
            self.set_probe("body-of-wrong-declared-result-type")

    # ------------------------------------------------------------------ probes
    def want_probe(self):
        return self.probe is None and self.probe_budget and self.chance(0.5)

    def set_probe(self, what):
        self.probe = what
        self.stats["probe:" + what] = self.stats.get("probe:" + what, 0) + 1

    # ------------------------------------------------------------------ program
    def program(self):
        r = self.rng
        self.probe_budget = r.random() < 0.35
        scen = [(self.sc_chain_dispatch, 7), (self.sc_union_dispatch, 4), (self.sc_scalar_tests, 3), (self.sc_partial, 3), (self.sc_generic, 4),
                (self.sc_list, 4), (self.sc_tail, 3), (self.sc_closure, 3), (self.sc_tuple_ops, 2), (self.sc_nil_flow, 3),
                (self.sc_process, 2), (self.sc_core, 2), (self.sc_annotated, 2)]
        k = r.choice([1, 1, 2, 2, 3])
        total = sum(w for _, w in scen)
        has_proc = False
        for _ in range(k):
            x = r.random() * total
            for fn, w in scen:
                x -= w
                if x <= 0:
                    break
            if fn == self.sc_process:
                if has_proc:
                    continue
                has_proc = True
            fn()
        if not self.obs:
            self.obs.append("Ok")
        r.shuffle(self.obs)
        body = self.steps + ["[" + ", ".join(self.obs) + "]"]
        if self.chance(0.15):
            # the whole observation inside a nested block
            body = self.steps + ["{ [" + ", ".join(self.obs) + "] }"]
            self.feat("nested_blocks")
        return "\n".join(self.aliases) + ("\n" if self.aliases else "") + ",\n".join(body)


def generate(rng, stats=None):
    stats = stats if stats is not None else {}
    for _ in range(20):
        g = G(rng, stats)
        try:
            src = g.program()
            return dict(src=src, feats=sorted(g.feats), probe=g.probe)
        except (IndexError, ValueError, KeyError, TypeError):
            continue
    return dict(src="Ok", feats=[], probe=None)
