"""C12 — builtins are total and agree with reference models.

theorem layer : coq/theories/props/C12.v (impl_<b> = spec on the flat bytes, never Panic, result ropes wf;
                rope denotation theorems; shape independence)
correspondence: extracted impl_<b> (OCaml) vs the real builtin functions (harness qv_builtin),
                debug and (thorough) release builds, boundary-weighted arguments, every rope shape;
                value AND resulting rope shape are compared; the extracted reference specs are run on
                the same cases too (spec vs real on the flattened result)
impl oracles  : (1) PANIC / hang / missing output from the real code,
                (2) the real result differing between two rope shapes of equal content,
                are violations on their own (no model needed)."""
import hashlib, re
from vplib import sexpr

MANIFEST = dict(
    category="proof",
    text="Coq theorems: (a) rope representation invariant wf and the denotation theorems (len/byte_at/iter/find_byte/slice/concat/tiled agree with plain list functions on bytes_of; shape independence); (b) for every integer_*, binary_* and vector_* builtin except integer_sin/cos, the implementation model (Rust control flow of integer.rs/binary.rs/vector.rs on machine integers and ropes, every unwrap/index/overflow an explicit Panic arm) equals a plain reference spec over unbounded Z / flat byte lists for ALL arguments whose binaries are wf ropes, never panics, and returns wf ropes. The model is tied to the code by differential execution of the extracted model AND the extracted spec against the real builtin functions (debug and release builds) on boundary-weighted arguments and every rope shape (value and result rope shape compared), plus a shape-independence oracle on the real code.",
    design_ref="§5 C12",
    note="Trusted: Coq kernel, extraction (ExtrOcamlBasic), OCaml driver, Rust harness, generators. integer_sin/cos go through f64/libm and are only exercised for totality (never compared with a model). Model-coverage guard: a registered integer_/binary_/vector_ builtin that is neither modelled nor totality-only is a violation. Rope.v does not model usize overflow inside BinaryData methods (impossible under wf: every node length <= MAX_BINARY_SIZE).",
    technique="Coq proof (impl model = reference spec, panic-freedom, rope invariant) + model/code correspondence by differential execution + metamorphic shape-independence oracle",
)

MAXB = 16 * 1024 * 1024
TOTALITY_ONLY = ["integer_cos", "integer_sin"]          # f64/libm: only `never panics` is checked
# builtins that never walk the bytes of their argument: safe to feed near-MAX lazy ropes
NON_MATERIALISING = {"binary_length", "binary_slice", "binary_concat", "binary_repeat", "binary_new", "binary_index"}

BOUNDARY = [0, 1, -1, 2, 7, 8, 9, 63, 64, 65, 127, 128, 255, 256, 2**31 - 1, 2**31, 2**32 - 1, 2**32, 2**32 + 1,
            2**63 - 1, 2**63, 2**63 + 1, 2**64 - 1, 2**64, 2**64 + 1, 2**70, 10**30,
            -2, -8, -64, -65, -2**31, -2**32, -2**63, -2**63 - 1, -2**64, -10**30, MAXB, MAXB + 1, MAXB - 1]


def gen_int(rng, small_bias=0.35):
    r = rng.random()
    if r < small_bias:
        return rng.randint(-20, 70)
    if r < 0.8:
        return rng.choice(BOUNDARY) + rng.choice([0, 0, 0, 1, -1])
    if r < 0.9:
        return rng.randint(-2**64, 2**64)
    return rng.randint(-2**16, 2**16)


def gen_bytes(rng, n):
    mode = rng.random()
    if mode < 0.2:
        return bytes([rng.choice([0, 0xff, 0x80, 0x01])] * n)
    if mode < 0.3:
        return bytes(rng.choice([0, 0xff, 0x7f, 0x80]) for _ in range(n))
    return bytes(rng.getrandbits(8) for _ in range(n))


# ------------------------------------------------------------------ ropes
# A binary argument is a *content descriptor*; `shape` renders it as a random well-formed rope
# expression (every node length <= MAXB) of exactly that content, so one case can be rendered in
# two shapes for the shape-independence oracle.
#   ("bytes", b)            small explicit content
#   ("zeros", n)            n zero bytes (possibly near MAXB)
#   ("periodic", unit, c)   unit repeated c times (possibly near MAXB)

def shape(rng, d, depth=0):
    kind = d[0]
    if kind == "zeros":
        n = d[1]
        r = rng.random()
        if n <= 64 and r < 0.3:
            return shape(rng, ("bytes", bytes(n)), depth)
        if r < 0.5 or n < 2 or depth > 2:
            return "(zero %d)" % n
        if r < 0.65:
            a = rng.randint(1, n - 1)
            return "(cat %s %s)" % (shape(rng, ("zeros", a), depth + 1), shape(rng, ("zeros", n - a), depth + 1))
        if r < 0.8:
            for k in rng.sample([1, 2, 4, 8, 1024], 5):
                if n % k == 0 and n // k >= 2:
                    return "(tile %s %d)" % (shape(rng, ("zeros", k), depth + 1), n // k)
            return "(zero %d)" % n
        off = rng.randint(0, min(MAXB - n, 9))
        extra = rng.randint(0, min(MAXB - n - off, 9))
        if off + extra == 0:
            return "(zero %d)" % n
        return "(slice (zero %d) %d %d)" % (n + off + extra, off, n)
    if kind == "periodic":
        unit, c = d[1], d[2]
        r = rng.random()
        if c < 2 or len(unit) == 0:
            return shape(rng, ("bytes", unit * c), depth)
        if r < 0.5 or depth > 2:
            return "(tile %s %d)" % (shape(rng, ("bytes", unit), depth + 1), c)
        if r < 0.7:
            a = rng.randint(1, c - 1)
            return "(cat %s %s)" % (shape(rng, ("periodic", unit, a), depth + 1), shape(rng, ("periodic", unit, c - a), depth + 1))
        if r < 0.85 and c % 2 == 0 and c >= 4:
            return "(tile %s %d)" % (shape(rng, ("periodic", unit, 2), depth + 1), c // 2)
        if len(unit) * (c + 1) <= MAXB:
            k = rng.randint(1, len(unit))
            # a slice of a longer tiling, starting at a unit boundary
            return "(slice (tile %s %d) 0 %d)" % (shape(rng, ("bytes", unit), depth + 1), c + 1, len(unit) * c) if k else ""
        return "(tile %s %d)" % (shape(rng, ("bytes", unit), depth + 1), c)
    content = d[1]
    n = len(content)
    r = rng.random()
    if n == 0:
        return rng.choice(["(own)", "(zero 0)", "(slice (own 0102) 1 0)", "(tile (own 01) 0)", "(tile (own) 5)", "(cat (own) (zero 0))"])
    if depth > 3 or r < 0.25:
        return "(own %s)" % content.hex()
    if r < 0.5 and n >= 2:
        k = rng.randint(1, n - 1)
        return "(cat %s %s)" % (shape(rng, ("bytes", content[:k]), depth + 1), shape(rng, ("bytes", content[k:]), depth + 1))
    if r < 0.55:
        return "(cat %s %s)" % ((shape(rng, ("bytes", b""), depth + 1), shape(rng, d, depth + 1)) if rng.random() < 0.5
                                else (shape(rng, d, depth + 1), shape(rng, ("bytes", b""), depth + 1)))
    if r < 0.75:
        pre = gen_bytes(rng, rng.randint(0, 3)); post = gen_bytes(rng, rng.randint(0, 3))
        if pre or post:
            return "(slice %s %d %d)" % (shape(rng, ("bytes", pre + content + post), depth + 1), len(pre), n)
    if all(b == 0 for b in content) and r < 0.9:
        return "(zero %d)" % n
    for p in (1, 2, 3, 4, 8):
        if n % p == 0 and n // p >= 2 and content == content[:p] * (n // p):
            return "(tile %s %d)" % (shape(rng, ("bytes", content[:p]), depth + 1), n // p)
    return "(own %s)" % content.hex()


def gen_content(rng, big_ok=False, sizes=None):
    r = rng.random()
    if big_ok and r < 0.12:
        n = rng.choice([MAXB, MAXB - 1, MAXB - 7, MAXB // 2, MAXB // 2 + 1, 2**20, 70000, 4097, 4096])
        if rng.random() < 0.5:
            return ("zeros", n)
        unit = gen_bytes(rng, rng.choice([1, 2, 3, 4, 8]))
        return ("periodic", unit, max(2, n // len(unit)))
    if r < 0.2:
        unit = gen_bytes(rng, rng.choice([1, 2, 3, 4, 8]))
        return ("bytes", unit * rng.randint(0, 12))
    if r < 0.27:
        return ("bytes", bytes(rng.randint(0, 40)))
    n = rng.choice(sizes or [0, 1, 2, 3, 4, 7, 8, 9, 12, 16, 17, 32]) if r < 0.85 else rng.randint(0, 90)
    return ("bytes", gen_bytes(rng, n))


def content_len(d):
    return d[1] if d[0] == "zeros" else len(d[1]) * d[2] if d[0] == "periodic" else len(d[1])


# ------------------------------------------------------------------ per-builtin argument templates
# A template is a nested list of ("i", n) | ("b", descriptor) | ("t", [fields]) | ("o",)

def I(n): return ("i", n)
def B(d): return ("b", d)
def T(*fs): return ("t", list(fs))


def near(rng, x, spread=2):
    return x + rng.randint(-spread, spread)


def lane_bytes(rng, w, count, mode):
    out = b""
    lo, hi = -(2 ** (8 * w - 1)), 2 ** (8 * w - 1) - 1
    if mode == "saturate":
        # every lane the same extreme: makes reductions (dot, sum) accumulate monotonically, the
        # case in which a fixed-width accumulator overflows although each term fits
        v = rng.choice([lo, hi, lo, hi, lo + 1, -1])
        return (v % 2 ** (8 * w)).to_bytes(w, "little") * count
    for _ in range(count):
        r = rng.random()
        if mode == "small" or r < 0.4:
            v = rng.randint(-1000, 1000)
        elif r < 0.7:
            v = rng.choice([lo, hi, lo + 1, hi - 1, 0, -1, 1, 2**31 - 1, -2**31, 2**31, 2**32, 3037000500, -3037000500, 46341, -46341])
            v = max(lo, min(hi, v))
        else:
            v = rng.randint(lo, hi)
        out += (v % 2 ** (8 * w)).to_bytes(w, "little")
    return out


def gen_width(rng):
    r = rng.random()
    return 4 if r < 0.45 else 8 if r < 0.9 else rng.choice([0, 1, 2, 3, 5, 16, -4, 2**63, 2**64 + 4, -2**63 - 1])


def targeted(rng, name):
    big = name in NON_MATERIALISING
    c = lambda **kw: gen_content(rng, big_ok=big, **kw)
    if name == "integer_sqrt" and rng.random() < 0.6:
        # around perfect squares of every magnitude: where a floating-point or Newton shortcut
        # for the integer root is off by one (k^2 - 1, k^2, k^2 + 1; k from 2^20 to beyond 2^64)
        k = rng.choice([rng.randint(2**20, 2**26), rng.randint(2**26, 2**32 - 1), rng.randint(2**26, 2**32 - 1),
                        rng.randint(2**31, 2**32 - 1), rng.randint(2**32, 2**40), rng.randint(2**63, 2**70), 2**32 - 1, 2**32, 2**26 + 1, 94906267])
        return I(k * k + rng.choice([-1, -1, 0, 1, -2]))
    if name in ("integer_divide", "integer_modulo") and rng.random() < 0.3:
        a = rng.choice([2**63, -2**63, 2**64, -(2**64) - 1, 10**30, -(10**30)]) + rng.randint(-3, 3)
        b = rng.choice([1, -1, 2, -2, 3, -3, 2**32, -(2**32), 2**63, -(2**63), 7, -7])
        return T(I(a), I(b))
    if name in ("binary_length", "binary_not", "binary_popcount", "binary_hash32", "binary_hash64"):
        return B(c())
    if name == "binary_new":
        return I(rng.choice([0, 1, 5, 4096, 4097, MAXB - 1, MAXB, MAXB + 1, 2**32, 2**63, 2**64 - 1, 2**64, -1, -2**63]) if rng.random() < 0.7 else gen_int(rng))
    if name == "binary_concat":
        a = c()
        if rng.random() < 0.3:
            rest = MAXB - content_len(a)
            n = max(0, near(rng, rest, 1))
            b = ("zeros", n) if n > 64 or rng.random() < 0.5 else ("bytes", gen_bytes(rng, n))
            if content_len(b) > MAXB:
                b = ("zeros", MAXB)
        else:
            b = c()
        return T(B(a), B(b)) if rng.random() < 0.5 else T(B(b), B(a))
    if name in ("binary_and", "binary_or", "binary_xor"):
        a = c()
        b = ("bytes", gen_bytes(rng, max(0, near(rng, content_len(a), 3)))) if rng.random() < 0.5 else c()
        return T(B(a), B(b))
    if name == "binary_repeat":
        a = c()
        n = content_len(a)
        r = rng.random()
        if r < 0.35:
            cnt = rng.randint(0, 6)
        elif r < 0.7 and n > 0:
            cnt = max(0, near(rng, MAXB // n, 1))
        else:
            cnt = rng.choice([0, 1, 2, 2**31, 2**32, 2**63 - 1, 2**63, 2**64 - 1, 2**64, -1, MAXB, MAXB + 1, (2**64) // max(n, 1), (2**64) // max(n, 1) + 1])
        return T(B(a), I(cnt))
    if name == "binary_shift":
        a = c()
        bits = content_len(a) * 8
        r = rng.random()
        if r < 0.5:
            k = rng.randint(-bits - 2, bits + 2)
        elif r < 0.7:
            k = rng.choice([1, -1, 1, -1, 0]) * rng.choice([0, 1, 7, 8, 9, 15, 16, bits - 1, bits, bits + 1, bits - 8, bits - 7])
        else:
            k = rng.choice([2**32, 2**32 + 1, -2**32, -2**32 - 1, 2**32 + 8, 2**63 - 1, -2**63, 2**63, -2**63 - 1, 2**31, -2**31, 2**64, 2**32 - 1, 0])
        return T(B(a), I(k))
    if name in ("binary_get", "binary_set"):
        a = c(sizes=[0, 1, 2, 7, 8, 9, 10, 12, 16, 17])
        n = content_len(a)
        r = rng.random()
        nb = rng.choice([1, 2, 7, 8, 9, 15, 16, 17, 31, 32, 33, 56, 57, 63, 64]) if r < 0.6 else rng.randint(1, 64)
        bi = rng.randint(0, 7)
        if n > 0 and rng.random() < 0.8:
            # a window that fits: shrink num_bits if necessary, then place it (often flush with the end)
            nb = max(1, min(nb, 8 * n - bi))
            need = (bi + nb + 7) // 8
            bo = rng.choice([0, n - need, rng.randint(0, n - need), rng.randint(0, n - need)])
        else:
            need = (bi + nb + 7) // 8
            bo = rng.choice([0, max(0, n - need), max(0, n - need + 1), rng.randint(0, max(0, n))])
        r2 = rng.random()
        if r2 < 0.06:
            nb = rng.choice([0, 65, -1, 2**63, 2**64, 128])
        elif r2 < 0.12:
            bi = rng.choice([8, -1, 2**63, -2**63 - 1, 64])
        elif r2 < 0.2:
            bo = rng.choice([n, n + 1, 2**61, 2**61 - 1, 2**60, 2**63 - 1, 2**63, -1, 2**64, 2**32, -2**63])
        if name == "binary_get":
            return T(B(a), I(bo), I(bi), I(nb))
        lim = 2 ** max(0, min(nb, 70)) if nb > 0 else 1
        r3 = rng.random()
        v = rng.randint(0, lim - 1) if r3 < 0.6 else rng.choice([lim - 1, lim, 0, 1, 2**63 - 1, 2**63, 2**64 - 1, -1, lim // 2, 2**64])
        return T(B(a), I(bo), I(bi), I(v), I(nb))
    if name == "binary_slice":
        a = c()
        n = content_len(a)
        r = rng.random()
        if r < 0.7:
            s = rng.randint(0, n); e = rng.randint(s, n)
            if rng.random() < 0.3:
                s, e = rng.choice([(0, n), (0, 0), (n, n), (1, n), (0, max(0, n - 1))])
                s = min(s, n)
        else:
            s = rng.choice([0, n, n + 1, -1, 2**63, 2**64, 2**64 - 1, 1]); e = rng.choice([0, n, n + 1, -1, 2**64, 2**64 - 1, n - 1])
        return T(B(a), I(s), I(e))
    if name == "binary_index":
        a = c()
        n = content_len(a)
        if a[0] == "bytes" and a[1] and rng.random() < 0.6:
            byte = rng.choice(a[1])
        elif a[0] == "periodic" and rng.random() < 0.6:
            byte = rng.choice(a[1])
        else:
            byte = rng.choice([0, 0, 255, 1, 256, -1, 2**63, rng.randint(0, 255)])
        off = rng.randint(0, n + 1) if rng.random() < 0.7 else rng.choice([0, n, n - 1, n + 1, -1, 2**63, 2**64 - 1, 2**64, MAXB])
        return T(B(a), I(byte), I(off))
    if name == "binary_append":
        a = c()
        r = rng.random()
        nbytes = rng.randint(1, 8) if r < 0.8 else rng.choice([0, 9, -1, 2**63, 2**64])
        lim = 2 ** (8 * max(0, min(nbytes, 9)))
        r3 = rng.random()
        v = rng.randint(0, max(0, lim - 1)) if r3 < 0.6 else rng.choice([lim - 1, lim, 0, 2**63 - 1, 2**63, 2**64 - 1, -1, 2**64])
        return T(B(a), I(v), I(nbytes))
    if name in ("vector_add", "vector_subtract", "vector_multiply", "vector_less_than", "vector_equal", "vector_greater_than", "vector_dot"):
        w = gen_width(rng)
        ww = w if w in (4, 8) else 4
        lanes = rng.choice([0, 1, 2, 3, 5, 9])
        mode = rng.choice(["small", "edge", "edge", "saturate"])
        if name == "vector_dot" and mode == "saturate":
            lanes = rng.choice([2, 3, 4, 5, 9, 33])
        a = lane_bytes(rng, ww, lanes, mode)
        b = lane_bytes(rng, ww, lanes, mode)
        r = rng.random()
        if r < 0.1:
            b = b + gen_bytes(rng, rng.randint(1, ww))
        elif r < 0.2:
            extra = gen_bytes(rng, rng.randint(1, ww - 1)); a += extra; b += gen_bytes(rng, len(extra))
        elif r < 0.3 and lanes:
            b = a
        return T(B(("bytes", a)), B(("bytes", b)), I(w))
    if name == "vector_take":
        w = gen_width(rng)
        ww = w if w in (4, 8) else 4
        lanes = rng.choice([0, 1, 2, 3, 5, 9])
        data = lane_bytes(rng, ww, lanes, "edge")
        mask = bytes(rng.choice([0, 1, 1, 255, 2]) for _ in range(lanes))
        r = rng.random()
        if r < 0.1:
            mask += b"\x01"
        elif r < 0.2:
            data += gen_bytes(rng, rng.randint(1, ww - 1))
        elif r < 0.25 and lanes:
            mask = mask[:-1]
        return T(B(("bytes", data)), I(w), B(("bytes", mask)))
    if name == "vector_get":
        w = gen_width(rng)
        ww = w if w in (4, 8) else 4
        lanes = rng.choice([0, 1, 2, 3, 5, 9])
        data = lane_bytes(rng, ww, lanes, "edge")
        if rng.random() < 0.12:
            data += gen_bytes(rng, rng.randint(1, ww - 1))
        idx = rng.randint(0, lanes) if rng.random() < 0.7 else rng.choice([-1, lanes, lanes - 1, 2**64 - 1, 2**64, 2**63, 2**62, 2**61, (2**64) // ww, (2**64) // ww - 1, 2**32])
        return T(B(("bytes", data)), I(w), I(idx))
    if name == "vector_push":
        w = gen_width(rng)
        ww = w if w in (4, 8) else 4
        lanes = rng.choice([0, 1, 2, 3, 5, 9])
        data = lane_bytes(rng, ww, lanes, "edge")
        if rng.random() < 0.12:
            data += gen_bytes(rng, rng.randint(1, ww - 1))
        v = rng.choice([0, 1, -1, 2**31 - 1, 2**31, -2**31, -2**31 - 1, 2**63 - 1, 2**63, -2**63, -2**63 - 1, 2**64, rng.randint(-2**63, 2**63 - 1), rng.randint(-2**31, 2**31 - 1)])
        return T(B(("bytes", data)), I(w), I(v))
    if name == "vector_sum":
        w = gen_width(rng)
        ww = w if w in (4, 8) else 4
        lanes = rng.choice([0, 1, 2, 3, 5, 9, 20])
        data = lane_bytes(rng, ww, lanes, rng.choice(["edge", "edge", "saturate"]))
        if rng.random() < 0.12:
            data += gen_bytes(rng, rng.randint(1, ww - 1))
        return T(B(("bytes", data)), I(w))
    return None


def from_spec(rng, spec, big):
    if spec == "int":
        return I(gen_int(rng))
    if spec == "bin":
        return B(gen_content(rng, big_ok=big))
    if isinstance(spec, list) and spec[0] == "tuple":
        return T(*[from_spec(rng, f[1], big) for f in spec[2:]])
    return ("o",)


ILL = [("o",), I(1), T(), T(I(1)), B(("bytes", b"\x01")), T(I(1), I(2), I(3)), T(B(("bytes", b"\x01\x02")), ("o",)),
       T(B(("bytes", b"")), B(("bytes", b"")), B(("bytes", b""))), T(I(4), B(("bytes", b"\x00" * 8)), I(0)),
       T(B(("bytes", b"\x01")), I(0), I(0), I(1), I(1), I(1)), T(T(), T())]


def gen_template(rng, name, spec):
    r = rng.random()
    if r < 0.08:
        return rng.choice(ILL)
    if r < 0.2:
        t = from_spec(rng, spec, name in NON_MATERIALISING)
        if r < 0.12 and t[0] == "t" and t[1]:
            # corrupt one field / the arity
            fs = list(t[1])
            k = rng.randrange(len(fs))
            m = rng.random()
            if m < 0.4:
                fs[k] = rng.choice([("o",), T(), I(0), B(("bytes", b"\x00"))])
            elif m < 0.7:
                fs.pop(k)
            else:
                fs.append(I(0))
            t = T(*fs)
        return t
    t = targeted(rng, name)
    return t if t is not None else from_spec(rng, spec, name in NON_MATERIALISING)


def render(rng, t):
    k = t[0]
    if k == "i":
        return "(i %d)" % t[1]
    if k == "b":
        return "(b %s)" % shape(rng, t[1])
    if k == "t":
        return "(t%s)" % "".join(" " + render(rng, f) for f in t[1])
    return "(o)"


def has_bin(t):
    return t[0] == "b" or (t[0] == "t" and any(has_bin(f) for f in t[1]))


def classify(case):
    """non-trivial: touches a boundary magnitude, a non-Owned rope, an unaligned bit window, or an
    ill-typed argument."""
    if re.search(r"\((zero|cat|slice|tile) ", case):
        return True
    for m in re.finditer(r"\(i (-?\d+)\)", case):
        if abs(int(m.group(1))) >= 2**31:
            return True
    m = re.match(r"\(binary_[gs]et \(t \(b .*\) \(i (-?\d+)\) \(i (-?\d+)\)", case)
    if m and int(m.group(2)) % 8 != 0:
        return True
    return "(o)" in case or "(t)" in case


def strip_shape(out):
    return out.split(" #shape=")[0]


def canon(out):
    return re.sub(r'\(panic "[^"]*"\)', "(panic)", out)


def run(ctx):
    ok = ctx.coq_props()
    qb = ctx.harness("qv_builtin")
    drv = ctx.driver("builtins")
    if not qb or not drv:
        return
    # --- model-coverage guard (hard): every registered pure builtin is modelled or totality-only
    _, sigs = ctx.run_bin(qb, [], args=["--names"])
    _, modelled = ctx.run_bin(drv, [], args=["--names"])
    _, specced = ctx.run_bin(drv, [], args=["--spec-names"])
    modelled = set(modelled)
    specced = set(specced)
    specs = {}
    max_binary = None
    for line in sigs:
        s = sexpr.parse(line)
        if s[0] == "sig":
            specs[s[1]] = s[2]
        elif s[0] == "max_binary_size":
            max_binary = int(s[1])
    pure = sorted(n for n in specs if n.split("_")[0] in ("integer", "binary", "vector"))
    unmodelled = [n for n in pure if n not in modelled and n not in TOTALITY_ONLY]
    ctx.cov["builtins_registered_pure"] = len(pure)
    ctx.cov["builtins_modelled"] = sorted(modelled & set(pure))
    ctx.cov["builtins_with_extracted_spec"] = sorted(specced & set(pure))
    ctx.cov["builtins_totality_only"] = [n for n in TOTALITY_ONLY if n in pure]
    ctx.cov["builtins_unmodelled"] = unmodelled
    ctx.cov["builtins_modelled_but_not_registered"] = sorted(modelled - set(pure))
    for n in unmodelled:
        ctx.violation({"kind": "theorem-broken", "theorem": "model-coverage guard",
                       "what": "registered pure builtin %s %s is neither modelled in Builtins.v nor in the totality-only list; C12 is not shown for it" % (n, specs[n])},
                      no_input=True)
    if max_binary != MAXB:
        ctx.violation({"kind": "theorem-broken", "theorem": "model-coverage guard",
                       "what": "MAX_BINARY_SIZE is %s in the code, %d in Rope.v" % (max_binary, MAXB)}, no_input=True)
    # --- cases: corpus, then generated templates, each rendered in two rope shapes
    names = sorted(modelled & set(pure))
    ncases = ctx.n(9000, 300000)
    corpus = ctx_corpus("c12_builtin_cases.txt")
    cases = list(corpus)
    pair_of = {}                  # index of shape-B case -> index of its shape-A twin
    for i in range(ncases):
        name = ctx.rng.choice(names)
        t = gen_template(ctx.rng, name, specs[name])
        a = "(%s %s)" % (name, render(ctx.rng, t))
        cases.append(a)
        if has_bin(t) and ctx.rng.random() < 0.6:
            b = "(%s %s)" % (name, render(ctx.rng, t))
            if b != a:
                pair_of[len(cases)] = len(cases) - 1
                cases.append(b)
    tot_cases = []
    for n in ctx.cov["builtins_totality_only"]:
        for i in range(ctx.n(300, 5000)):
            tot_cases.append("(%s %s)" % (n, render(ctx.rng, I(gen_int(ctx.rng)) if ctx.rng.random() < 0.9 else ctx.rng.choice(ILL))))
    rc1, impl = ctx.run_sharded(qb, cases + tot_cases)
    rc2, model = ctx.run_sharded(drv, cases)
    rc3, spec = ctx.run_sharded(drv, cases, args=["--spec"])
    builds = [("debug", impl)]
    if ctx.tier == "thorough":
        qbr = ctx.harness("qv_builtin", release=True)
        if qbr:
            builds.append(("release", ctx.run_sharded(qbr, cases + tot_cases)[1]))
    hist, seen, nontrivial = {}, set(), 0
    disagreements = spec_disagreements = shape_pairs = shape_viol = panics = model_crashes = 0
    outcome_hist = {}
    reported = 0

    def report(obj, no_input):
        nonlocal reported
        reported += 1
        if reported <= 8:
            ctx.violation(obj, no_input=no_input)

    for i, c in enumerate(cases):
        name = c[1:c.index(" ")]
        hist[name] = hist.get(name, 0) + 1
        h = hashlib.sha1(c.encode()).hexdigest()
        if h not in seen:
            seen.add(h)
            if classify(c):
                nontrivial += 1
        m = model[i] if i < len(model) else "(missing-output)"
        key = name + ":" + (m[1:].split(" ")[0].rstrip(")") if m.startswith("(") else "?")
        outcome_hist[key] = outcome_hist.get(key, 0) + 1
        for bname, out in builds:
            got = out[i] if i < len(out) else "(missing-output)"
            if got.startswith("(panic") or got == "(missing-output)":
                panics += 1
                report({"kind": "impl-violation", "oracle": "the real builtin panicked / produced no outcome (%s build)" % bname,
                        "case": c, "impl": got, "model": m}, False)
                continue
            if m == "(unmodelled)":
                continue
            if m.startswith("(model-crash"):
                # resource exhaustion of the OCaml driver (not of the code): counted, never a violation
                model_crashes += 1
                continue
            if canon(got) != m:
                disagreements += 1
                value_differs = strip_shape(canon(got)) != strip_shape(m)
                report({"kind": "correspondence-broken",
                        "correspondence": "Builtins.v impl_%s vs %s (%s build)%s" % (name, name, bname, "" if value_differs else " — result rope shape only"),
                        "case": c, "model": m, "impl": got},
                       not (value_differs and got.startswith("(ok")))
            # reference spec (flat bytes, unbounded Z) against the real result
            s = spec[i] if i < len(spec) else "(missing-output)"
            if s != "(unspecified)" and strip_shape(canon(got)) != s:
                spec_disagreements += 1
                report({"kind": "correspondence-broken", "correspondence": "BuiltinSpec.v spec_%s vs %s (%s build)" % (name, name, bname),
                        "case": c, "spec": s, "impl": got}, not got.startswith("(ok"))
        # shape-independence oracle on the real code
        if i in pair_of:
            j = pair_of[i]
            for bname, out in builds:
                shape_pairs += 1
                x, y = strip_shape(out[i]), strip_shape(out[j])
                if x != y:
                    shape_viol += 1
                    report({"kind": "impl-violation", "oracle": "shape independence: equal content in two rope shapes gives different real results (%s build)" % bname,
                            "case_a": cases[j], "impl_a": out[j], "case_b": c, "impl_b": out[i]}, False)
    tot_ok = 0
    for k, c in enumerate(tot_cases):
        for bname, out in builds:
            got = out[len(cases) + k] if len(cases) + k < len(out) else "(missing-output)"
            if got.startswith("(panic") or got == "(missing-output)":
                panics += 1
                report({"kind": "impl-violation", "oracle": "totality: the real builtin panicked / produced no outcome (%s build)" % bname,
                        "case": c, "impl": got}, False)
            else:
                tot_ok += 1
    nev = (len(cases) + len(tot_cases)) * len(builds)
    ctx.cov.update({
        "evaluations": nev, "distinct_nontrivial": nontrivial,
        "rule": "per-builtin targeted arguments (boundary magnitudes 0, +-1, 2^31, 2^32, 2^63, 2^64-1, beyond; unaligned bit windows; lane values at the i32/i64 edges; sizes around MAX_BINARY_SIZE as lazy zero/tile ropes for non-materialising builtins), 20% generic/ill-typed arguments, every binary rendered as a random well-formed rope (own/zero/cat/slice/tile, depth <= 4) built with the real constructors; non-trivial = touches |n| >= 2^31, a non-Owned rope, an unaligned bit window or an ill-typed argument; distinct by SHA-1 of the case line",
        "samples": cases[len(corpus):len(corpus) + 5] + [{"case": cases[-1], "impl": impl[len(cases) - 1], "model": model[-1], "spec": spec[-1]}],
        "traces_validated_against_impl": len(cases) * len(builds) - disagreements,
        "disagreements_checked": disagreements + spec_disagreements + shape_viol + panics,
        "model_vs_impl_disagreements": disagreements, "spec_vs_impl_disagreements": spec_disagreements,
        "shape_independence_pairs_checked_on_real_code": shape_pairs, "shape_independence_violations": shape_viol,
        "totality_only_evaluations": tot_ok, "real_panics": panics, "model_driver_crashes_skipped": model_crashes,
        "per_builtin_cases": hist, "model_outcome_histogram": outcome_hist, "builds": [b for b, _ in builds],
        "corpus_cases": len(corpus),
    })
    if not ok:
        ctx.violation({"kind": "theorem-broken", "theorem": getattr(ctx, "broken_theorem", "?"),
                       "searched": "%d differential cases on the real builtins, %d disagreements" % (len(cases), disagreements)},
                      no_input=(disagreements + shape_viol + panics == 0))


def ctx_corpus(name):
    import os
    from vplib.common import VERIF
    p = os.path.join(VERIF, "corpus", name)
    if not os.path.exists(p):
        return []
    return [l.strip() for l in open(p) if l.strip() and not l.startswith("#")]
