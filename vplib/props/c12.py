"""C12 — builtins are total and agree with reference models.

theorem layer : coq/theories/props/C12.v (impl_<b> = spec, never Panic)
correspondence: extracted impl_<b> (OCaml) vs the real builtin functions (harness qv_builtin),
                debug and (thorough) release builds, boundary-weighted arguments, every rope shape
impl oracle   : PANIC from the real code, or the real result differing between two rope shapes of
                equal content, is a violation on its own (no model needed)."""
import hashlib, re
from vplib import sexpr

MANIFEST = dict(
    category="proof",
    text="Coq theorems: each modelled builtin's implementation model (integer.rs/binary.rs/vector.rs control flow on machine integers and ropes) equals a plain reference spec over unbounded Z / flat byte lists and never panics, for all arguments; the model is tied to the code by differential execution of the extracted model against the real builtin functions (debug and release builds) on boundary-weighted arguments and every rope shape.",
    design_ref="§5 C12",
    note="Trusted: Coq kernel, extraction (ExtrOcamlBasic), OCaml driver, Rust harness, generators. integer_sin/cos go through f64/libm and are only exercised for totality. Model-coverage guard lists unmodelled builtins in the evidence.",
    technique="Coq proof (impl model = reference spec, panic-freedom) + model/code correspondence by differential execution",
)

BOUNDARY = [0, 1, -1, 2, 7, 8, 9, 63, 64, 65, 127, 128, 255, 256, 2**31 - 1, 2**31, 2**32 - 1, 2**32, 2**32 + 1,
            2**63 - 1, 2**63, 2**63 + 1, 2**64 - 1, 2**64, 2**64 + 1, 2**70, 10**30,
            -2, -8, -64, -65, -2**31, -2**32, -2**63, -2**63 - 1, -2**64, -10**30, 16 * 1024 * 1024, 16 * 1024 * 1024 + 1]


def gen_int(rng, small_bias=0.35):
    r = rng.random()
    if r < small_bias:
        return rng.randint(-20, 70)
    if r < 0.8:
        return rng.choice(BOUNDARY) + rng.choice([0, 0, 0, 1, -1])
    if r < 0.9:
        return rng.randint(-2**64, 2**64)
    return rng.randint(-2**16, 2**16)


def gen_bytes(rng, n):
    mode = rng.random()
    if mode < 0.2:
        return bytes([rng.choice([0, 0xff, 0x80, 0x01])] * n)
    return bytes(rng.getrandbits(8) for _ in range(n))


def rope_shapes(rng, content):
    """A rope expression (generator syntax) whose bytes are exactly `content`, of a random shape."""
    n = len(content)
    kind = rng.random()
    if n == 0:
        return rng.choice(["(own)", "(zero 0)", "(slice (own 0102) 1 0)", "(tile (own 01) 0)"])
    if kind < 0.3:
        return "(own %s)" % content.hex()
    if kind < 0.5 and n >= 2:
        k = rng.randint(1, n - 1)
        return "(cat %s %s)" % (rope_shapes(rng, content[:k]), rope_shapes(rng, content[k:]))
    if kind < 0.7:
        pre = gen_bytes(rng, rng.randint(0, 3)); post = gen_bytes(rng, rng.randint(0, 3))
        if pre or post:
            return "(slice %s %d %d)" % (rope_shapes(rng, pre + content + post) if rng.random() < 0.3 else "(own %s)" % (pre + content + post).hex(), len(pre), n)
    if all(b == 0 for b in content) and kind < 0.9:
        return "(zero %d)" % n
    # tiled, when content is periodic
    for p in (1, 2, 3, 4):
        if n % p == 0 and n // p >= 2 and content == content[:p] * (n // p):
            return "(tile %s %d)" % (rope_shapes(rng, content[:p]), n // p)
    return "(own %s)" % content.hex()


def gen_rope(rng):
    r = rng.random()
    if r < 0.08:
        n = rng.choice([16 * 1024 * 1024, 16 * 1024 * 1024 - 1, 2**20, 70000])
        return rng.choice(["(zero %d)" % n, "(tile (own 00ff) %d)" % (n // 2)])
    n = rng.choice([0, 1, 2, 3, 4, 7, 8, 9, 12, 16, 17, 32]) if r < 0.8 else rng.randint(0, 80)
    return rope_shapes(rng, gen_bytes(rng, n))


def gen_arg(rng, spec, well_typed=True):
    if not well_typed and rng.random() < 0.3:
        return rng.choice(["(o)", "(i 1)", "(t)", "(t (i 1))", "(b (own 01))", "(t (i 1) (i 2) (i 3))"])
    if spec == "int":
        return "(i %d)" % gen_int(rng)
    if spec == "bin":
        return "(b %s)" % gen_rope(rng)
    if isinstance(spec, list) and spec[0] == "tuple":
        return "(t %s)" % " ".join(gen_arg(rng, f[1], well_typed) for f in spec[2:])
    return "(o)"


def classify(case):
    """non-trivial: touches a boundary magnitude, a non-Owned rope, or an ill-typed argument."""
    if re.search(r"\((zero|cat|slice|tile) ", case):
        return True
    for m in re.finditer(r"\(i (-?\d+)\)", case):
        if abs(int(m.group(1))) >= 2**31:
            return True
    return "(o)" in case


def run(ctx):
    ok = ctx.coq_props()
    qb = ctx.harness("qv_builtin")
    drv = ctx.driver("builtins")
    if not qb or not drv:
        return
    # --- model-coverage guard: which registered pure builtins does the model cover?
    _, sigs = ctx.run_bin(qb, [], args=["--names"])
    _, modelled = ctx.run_bin(drv, [], args=["--names"])
    modelled = set(modelled)
    specs = {}
    for line in sigs:
        s = sexpr.parse(line)
        if s[0] == "sig":
            specs[s[1]] = s[2]
    pure = sorted(n for n in specs if n.split("_")[0] in ("integer", "binary", "vector"))
    unmodelled = [n for n in pure if n not in modelled]
    ctx.cov["builtins_registered_pure"] = len(pure)
    ctx.cov["builtins_modelled"] = sorted(modelled & set(pure))
    ctx.cov["builtins_unmodelled"] = unmodelled
    # --- cases
    names = sorted(modelled & set(pure))
    ncases = ctx.n(6000, 400000)
    cases = []
    corpus = ctx_corpus("c12_builtin_cases.txt")
    cases += corpus
    for i in range(ncases):
        name = ctx.rng.choice(names)
        cases.append("(%s %s)" % (name, gen_arg(ctx.rng, specs[name], well_typed=ctx.rng.random() < 0.85)))
    rc1, impl = ctx.run_sharded(qb, cases)
    rc2, model = ctx.run_sharded(drv, cases)
    builds = [("debug", impl)]
    if ctx.tier == "thorough":
        qbr = ctx.harness("qv_builtin", release=True)
        if qbr:
            builds.append(("release", ctx.run_sharded(qbr, cases)[1]))
    hist, seen, nontrivial = {}, set(), 0
    disagreements = 0
    skipped = 0
    for i, c in enumerate(cases):
        name = c[1:c.index(" ")]
        hist[name] = hist.get(name, 0) + 1
        h = hashlib.sha1(c.encode()).hexdigest()
        if h not in seen:
            seen.add(h)
            if classify(c):
                nontrivial += 1
        if model[i] == "(unmodelled)":
            skipped += 1
            continue
        for bname, out in builds:
            got = out[i] if i < len(out) else "(missing-output)"
            got_c = re.sub(r'\(panic "[^"]*"\)', "(panic)", got)
            if got_c != model[i]:
                disagreements += 1
                if disagreements <= 5:
                    kind = "impl-violation" if got.startswith("(panic") else "correspondence-broken"
                    ctx.violation({"kind": kind, "correspondence": "Builtins.v impl_%s vs %s (%s build)" % (name, name, bname),
                                   "case": c, "model": model[i], "impl": got},
                                  no_input=(kind != "impl-violation" and not wrong_vs_spec(c, got)))
    ctx.cov.update({
        "evaluations": len(cases) * len(builds), "distinct_nontrivial": nontrivial,
        "rule": "boundary-weighted integers (0, +-1, 2^31, 2^32, 2^63, 2^64-1, beyond), ropes of 5 shapes built with the real constructors, 15% ill-typed arguments; non-trivial = touches |n| >= 2^31, a non-Owned rope or an ill-typed argument; distinct by SHA-1 of the case line",
        "samples": cases[len(corpus):len(corpus) + 5] + [{"case": cases[-1], "impl": impl[-1], "model": model[-1]}],
        "traces_validated_against_impl": len(cases) - disagreements,
        "disagreements_checked": disagreements, "per_builtin_cases": hist, "corpus_cases_skipped_unmodelled": skipped, "builds": [b for b, _ in builds],
    })
    if not ok:
        ctx.violation({"kind": "theorem-broken", "theorem": getattr(ctx, "broken_theorem", "?"),
                       "searched": "%d differential cases on the real builtins, %d disagreements" % (len(cases), disagreements)},
                      no_input=(disagreements == 0))


def wrong_vs_spec(case, got):
    """A disagreement where the real code returns a value is treated as a failing input: the model
    is proved equal to the reference spec, so a differing real value is a wrong value."""
    return got.startswith("(ok")


def ctx_corpus(name):
    import os
    from vplib.common import VERIF
    p = os.path.join(VERIF, "corpus", name)
    if not os.path.exists(p):
        return []
    return [l.strip() for l in open(p) if l.strip() and not l.startswith("#")]
