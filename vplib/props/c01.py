"""C01 — type soundness: accepted programs never get stuck on a type error, and a produced value
structurally inhabits the result type the compiler inferred.

theorem layer : coq/theories/props/C01.v — the semantic facts the compiler's typing rules rely on
                (builtin_result_typed over the mirrored TypeSpec table, get_typed,
                data_moves_preserve_wt, istype_refines, inhabv_sound_fo, monitor_sound); the full
                statement `type_soundness` is kept there as NOT proved (no model of compiler.rs).
deciding part : an oracle run on the REAL compiler + REAL VM (harness qv_typed): every source the
                compiler accepts is run; (1) the outcome must not be a VM-level type failure,
                (2) the result value must inhabit the inferred result type — judged by the
                Coq-defined, extracted `Typed.judge` (Sem.walk_inh), (3) every tuple of the result
                must carry fields inhabiting its own tuple type (`wt_valueb`, obligation O1 as far
                as the result shows it).  Function results are applied to inputs enumerated from
                their inferred parameter type by the extracted `enum_inputs`.
sources       : corpus/c01_*.txt, every source text of /repo (tests, std, examples, spec) and
                mutations of them, and the type-directed generator vplib/props/c01gen.py.
known findings: each failure is matched against a NARROW signature of F1/F2/F27/F53/F54 and routed
                through ctx.violation(.., finding_key=ID): suppression follows known_findings.json
                (a `fixed` entry suppresses nothing, so a recurrence is reported)."""
import hashlib, os, re
from vplib import sexpr
from vplib.common import VERIF

MANIFEST = dict(
    category="proof",
    text="PARTIAL. Proved in Coq (props/C01.v, 16 theorems, no axioms): (1) for a CORE FRAGMENT of the language (typed/Core.v: literals, named / labelled tuples, field access by position and by label, integer_add / binary_length, bare and type-ascribed binders with nil-narrowing, blocks on a variable with forward and complement narrowing exactly as compile_block implements them after the repairs F13 F53 F54 F59 F66 F74 F80 F86, calls of monomorphic non-dispatching functions) full type safety of an AST-level typing judgement: core_soundness (accepted at T and evaluates to v => v in [[T]]), core_progress (an accepted expression never gets stuck and terminates), core_type_safety, core_program_safety (every function definition is checked, called or not), with subty_sound / disj_sound / split_sound for the relations and the narrowing split it uses; the judgement is tied to the real compiler on every run: on generated core programs the extracted `infer` must equal the real compiler's inferred type and the extracted `eval` the real VM's value; (2) the semantic facts the compiler's rules rely on beyond the fragment: builtin_result_typed / builtin_only_domain_errors over the 43 registered TypeSpecs (compared with the real registry on every run), get_typed, data_moves_origin / data_moves_preserve_wt, wt_hereditary, istype_refines (relative to C08's table statement and C09's soundness), inhabv_sound_fo (the oracle's decision procedure implies Sem.inhab on first-order values), monitor_sound (obligations O1-O4 at every step => no VM-level type failure and the result inhabits the entry's result type). NOT proved: type_soundness for every accepted program - there is no model of compiler.rs beyond the core fragment (partial types, generics, recursive types, closures, tail calls, processes, dispatch tables, aliasing by provenance are outside it); that part is decided per explored program by an oracle on the real compiler + VM whose judgement `result inhabits inferred type` is the extracted Coq definition, over corpus (open findings + must-pass regression probes), all repository sources, mutations and two type-directed generators, with functions applied to inputs enumerated from their inferred parameter types.",
    design_ref="§5 C01",
    note="Trusted: Coq kernel, extraction (ExtrOcamlBasic), OCaml driver, Rust harness qv_typed, the Python generators/mutator/shrinker/renderer of core programs. Judgement domain of the oracle: type variables are read as top; a function value whose declared type mentions a type variable is `undecided` (counted); function-signature containment is decided over first-order values enumerated to depth 2 (approximate). InvalidArgument is accepted as the documented value-domain error unless its message is one of the executor's own (listed in c01.py). Panics are counted, not judged (C12/C15). Core fragment: the bare binder rule is the sound one (binds nil); the real compiler still strips nil there (finding F27), so the generator binds no nilable value with a bare binder and no variable to a variable (aliasing by provenance is not modelled). Known findings are routed by semantic signatures (re-running variants of the failing program on the real compiler), table-driven by known_findings.json; corpus/c01_regressions.txt holds must-pass probes of every repaired finding.",
    technique="Coq proof of type safety for a core fragment (typing judgement + evaluator, judgement compared with the real compiler's inferred types on every run) + Coq proofs of the typing-rule lemmas and of the monitor + oracle on the real compiler/VM with an extracted Coq judgement, type-directed generation, mutation of repository sources, enumeration of inputs from inferred parameter types",
)

# error classes that are VM-level type / arity / stack failures (error.rs)
TYPE_FAILS = {"TypeMismatch", "FieldAccessInvalid", "CallInvalid", "ArityMismatch", "StackUnderflow",
              "FrameUnderflow", "VariableUndefined", "ConstantUndefined", "FunctionUndefined",
              "BuiltinUndefined", "TupleEmpty", "ScopeCountInvalid", "ScopeUnderflow"}
NONTERM = {"Blocked", "StepLimit"}
# InvalidArgument raised by the executor itself (not by a partial builtin on an out-of-domain value)
EXECUTOR_INVALID = ("Process not found", "Select state missing", "Heap binary index", "Heap index",
                    "Getting BinaryData from constant", "Cannot nest select", "Invalid select source",
                    "Unrecognised builtin", "mailbox", "No frame")


def q(s):
    return sexpr.quote(s)


def balanced_end(l, i):
    """index of the `)` closing the `(` at l[i] (strings respected)"""
    depth, j, instr = 0, i, False
    while j < len(l):
        c = l[j]
        if instr:
            if c == "\\":
                j += 1
            elif c == '"':
                instr = False
        elif c == '"':
            instr = True
        elif c == "(":
            depth += 1
        elif c == ")":
            depth -= 1
            if depth == 0:
                return j
        j += 1
    return len(l) - 1


class Run:
    """one accepted-and-run program: parsed pieces of a qv_typed `(run ..)` line"""
    __slots__ = ("mode", "kind", "cls", "msg", "value", "tables", "rtype")

    def __init__(self, line):
        self.mode = line[5:line.index(" ", 5)]
        i = line.index("(", 5)
        j = balanced_end(line, i)
        out = line[i:j + 1]
        self.tables = line[j + 2:-1] if j + 2 < len(line) else ""
        self.kind = out[1:out.index(" ")] if " " in out else out[1:-1]
        self.cls = self.msg = self.value = None
        if self.kind == "ok":
            self.value = out[4:-1]
        elif self.kind == "err":
            p = sexpr.parse(out)
            self.cls, self.msg = p[1], (p[2] if len(p) > 2 else "")
        elif self.kind == "panic":
            self.msg = out
        m = re.match(r"\(rtype (\d+)\)", self.tables)
        self.rtype = int(m.group(1)) if m else None


def parse_tables(tables):
    """-> (types list, tuples list) as parsed s-expressions"""
    i = tables.index("(reg ")
    reg = sexpr.parse(tables[i:])
    tuples = reg[1][1:]
    types = reg[2][1:]
    return types, tuples


# ------------------------------------------------------------------ rendering enumerated inputs
INTS = [0, 1, -1, 2, 3, 5, 7, 10, 42, -4, 100, 255, 256, 2**40, -(2**70)]


def render_value(rng, e):
    """enumerated value (driver `(enum ..)` syntax) -> Quiver literal, or None"""
    if e == ["i"]:
        return str(rng.choice(INTS))
    if e == ["b"]:
        return "0x" + "".join("%02x" % rng.getrandbits(8) for _ in range(rng.randint(0, 3)))
    if e[0] == "t":
        name = "" if e[1] == "-" else e[1]
        if name and not re.match(r"^[A-Z][A-Za-z0-9_]*$", name):
            return None
        parts = []
        for f in e[2:]:
            lab, sub = f[0], f[1]
            s = render_value(rng, sub)
            if s is None:
                return None
            if lab != "-" and not re.match(r"^[a-z][A-Za-z0-9_]*[?]?[!]?$", lab):
                return None
            parts.append((lab + ": " if lab != "-" else "") + s)
        if not parts:
            return name if name else "[]"
        return name + "[" + ", ".join(parts) + "]"
    return None          # refs, functions, processes, resources: not rendered


# ------------------------------------------------------------------ the oracle pipeline
class Oracle:
    def __init__(self, ctx, typed, drv):
        self.ctx, self.typed, self.drv = ctx, typed, drv
        self.stats = dict(programs=0, parse_error=0, compile_error=0, compile_panic=0, accepted=0,
                          ran_ok=0, nonterminating=0, domain_error=0, io_or_other_error=0, vm_panics=0,
                          env_runs=0, env_skipped=0, judged=0, accept=0, undecided=0, first_order_judged=0,
                          wt_checked=0, type_failures=0, rejects=0, illtyped_tuples=0, applications=0,
                          functions_applied=0, model_crashes=0)
        self.errhist = {}
        self.panic_list = []
        self.depth_hist = {}

    def run_sources(self, items):
        """items: list of dicts with key `src` (+ `mods`: list of (path, src)). Returns for each
        item a record dict(status, run, verdict, failure)"""
        ctx = self.ctx
        lines = []
        for it in items:
            l = q(it["src"])
            for path, msrc in it.get("mods", []):
                l += " (mod %s %s)" % (q(path), q(msrc))
            lines.append(l)
        _, outs = ctx.run_sharded(self.typed, lines, timeout=1500)
        recs = []
        judge_idx, judge_lines = [], []
        st = self.stats
        for it, o in zip(items, outs):
            st["programs"] += 1
            rec = dict(item=it, status=None, run=None, verdict=None, failure=None, raw=o[:300])
            recs.append(rec)
            if o.startswith("(parse-error"):
                st["parse_error"] += 1; rec["status"] = "parse-error"; continue
            if o.startswith("(compile-error"):
                st["compile_error"] += 1; rec["status"] = "compile-error"; rec["cerr"] = o; continue
            if o.startswith("(panic"):
                st["compile_panic"] += 1; rec["status"] = "compile-panic"; continue
            if not o.startswith("(run "):
                rec["status"] = "harness-problem"; continue
            try:
                r = Run(o)
            except (ValueError, IndexError):
                rec["status"] = "harness-problem"; continue
            rec["run"] = r
            rec["status"] = "accepted"
            st["accepted"] += 1
            if r.mode == "env":
                st["env_runs"] += 1
            if r.kind == "skip":
                st["env_skipped"] += 1
            elif r.kind == "panic":
                st["vm_panics"] += 1
                self.panic_list.append((it["src"][-300:], r.msg))
            elif r.kind == "err":
                self.errhist[r.cls] = self.errhist.get(r.cls, 0) + 1
                if r.cls in NONTERM:
                    st["nonterminating"] += 1
                elif r.cls in TYPE_FAILS:
                    st["type_failures"] += 1
                    rec["failure"] = dict(kind="vm-type-failure", cls=r.cls, msg=r.msg)
                elif r.cls == "InvalidArgument":
                    if any(m in r.msg for m in EXECUTOR_INVALID):
                        st["type_failures"] += 1
                        rec["failure"] = dict(kind="vm-type-failure", cls="InvalidArgument(executor)", msg=r.msg)
                    else:
                        st["domain_error"] += 1
                else:
                    st["io_or_other_error"] += 1
            elif r.kind == "ok":
                st["ran_ok"] += 1
                judge_idx.append(len(recs) - 1)
                judge_lines.append("(judge (v %s) %s)" % (r.value, r.tables))
        if judge_lines:
            _, vs = ctx.run_sharded(self.drv, judge_lines, timeout=1500)
            for i, v in zip(judge_idx, vs):
                rec = recs[i]
                m = re.match(r"\(verdict (\w+)\) \(wt (\d)\) \(depth (\d+)\) \(fo (\d)\)", v)
                if not m:
                    st["model_crashes"] += 1
                    rec["verdict"] = "model-crash:" + v[:60]
                    continue
                verdict, wt, depth, fo = m.group(1), m.group(2) == "1", int(m.group(3)), m.group(4) == "1"
                rec["verdict"] = verdict
                st["judged"] += 1
                st["wt_checked"] += 1
                self.depth_hist[min(depth, 12)] = self.depth_hist.get(min(depth, 12), 0) + 1
                if verdict == "accept":
                    st["accept"] += 1
                    if fo:
                        st["first_order_judged"] += 1
                elif verdict == "undecided":
                    st["undecided"] += 1
                if verdict in ("reject", "illformed"):
                    st["rejects"] += 1
                    rec["failure"] = dict(kind="result-not-in-inferred-type", verdict=verdict, value=rec["run"].value[:400],
                                          lenient="(lenient 1)" in v, fnres="(fnres 1)" in v, nevertop="(nevertop 1)" in v, fnreslen="(fnreslen 1)" in v, niltop="(niltop 1)" in v,
                                          never=rec["run"].tables.find("(types (union)") >= 0 and rec["run"].rtype == 0)
                elif not wt:
                    st["illtyped_tuples"] += 1
                    rec["failure"] = dict(kind="ill-typed-tuple-in-result", value=rec["run"].value[:400])
        return recs

    # -------------------------------------------------------------- applying function results
    def applications(self, recs, per_fn):
        """For accepted programs whose result is a function (or a tuple holding functions): sources
        that apply each function to inputs enumerated from its inferred parameter type."""
        ctx, rng = self.ctx, self.ctx.rng
        queries, meta = [], []
        for rec in recs:
            r = rec["run"]
            if not r or r.kind != "ok" or rec["failure"] or r.rtype is None:
                continue
            if not (r.value.startswith("(f ") or r.value.startswith("(t ") or r.value.startswith("(bi ")):
                continue
            if len(r.tables) > 400000:
                continue
            try:
                types, tuples = parse_tables(r.tables)
            except (ValueError, IndexError):
                continue
            rt = types[r.rtype] if r.rtype < len(types) else None
            targets = []            # (accessor, param type id)
            if rt and rt[0] == "fn":
                targets.append(("", int(rt[1])))
            elif rt and rt[0] == "tuple":
                info = tuples[int(rt[1])]
                for k, f in enumerate(info[2:]):
                    ft = types[int(f[1])] if int(f[1]) < len(types) else None
                    if ft and ft[0] == "fn":
                        lab = f[0]
                        targets.append(("." + (lab if lab != "-" and rng.random() < 0.7 else str(k)), int(ft[1])))
            if len(targets) > 6:
                targets = rng.sample(targets, 6)
            for acc, p in targets:
                pt = types[p] if p < len(types) else None
                nil_param = pt == ["tuple", "0"]
                meta.append((rec, acc, nil_param))
                queries.append("(enum (t %d) (depth 3) (cap 12) %s)" % (p, r.tables))
        if not queries:
            return []
        _, outs = ctx.run_sharded(self.drv, queries, timeout=1500)
        new_items = []
        for (rec, acc, nil_param), o in zip(meta, outs):
            if not o.startswith("(vals"):
                continue
            vals = sexpr.parse(o)[1:]
            lits = []
            if nil_param:
                lits = [""]
            else:
                rng.shuffle(vals)
                for e in vals:
                    s = render_value(rng, e)
                    if s is not None and s not in lits:
                        lits.append(s)
                    if len(lits) >= per_fn:
                        break
            if not lits:
                continue
            self.stats["functions_applied"] += 1
            base = rec["item"]
            for lit in lits:
                name = "c01f" if acc == "" else "c01m"
                src = base["src"].rstrip().rstrip(",") + "\n~> =" + name + "\n" + (lit + " " if lit else "") + name + acc
                it = dict(base)
                it.update(src=src, origin=base.get("origin", "?") + "@apply" + acc, applied=True, parent=base["src"], arg=lit)
                new_items.append(it)
        self.stats["applications"] += len(new_items)
        return new_items


# ------------------------------------------------------------------ known-finding signatures
TAIL_RE = re.compile(r"\^(~|[a-z_][A-Za-z0-9_]*[?]?[!]?)?")


def strip_strings(src):
    return re.sub(r'"(?:\\.|[^"\\])*"', '""', src)


def split_steps(src):
    """top-level steps of a sequence (separated by `,` or newline outside brackets/strings);
    a line starting with `~>` continues the previous step"""
    steps, cur, depth, instr, i = [], [], 0, False, 0
    while i < len(src):
        c = src[i]
        if instr:
            cur.append(c)
            if c == "\\" and i + 1 < len(src):
                cur.append(src[i + 1]); i += 1
            elif c == '"':
                instr = False
        elif c == '"':
            instr = True; cur.append(c)
        elif c in "([{":
            depth += 1; cur.append(c)
        elif c in ")]}":
            depth -= 1; cur.append(c)
        elif depth == 0 and (c == "," or c == "\n"):
            rest = src[i + 1:].lstrip(" \t")
            if c == "\n" and rest.startswith("~>"):
                cur.append(c)
            else:
                steps.append("".join(cur)); cur = []
        else:
            cur.append(c)
        i += 1
    steps.append("".join(cur))
    return [s for s in steps if s.strip()]


def split_top(body, sep=","):
    parts, cur, depth, instr = [], [], 0, False
    i = 0
    while i < len(body):
        c = body[i]
        if instr:
            cur.append(c)
            if c == "\\" and i + 1 < len(body):
                cur.append(body[i + 1]); i += 1
            elif c == '"':
                instr = False
        elif c == '"':
            instr = True; cur.append(c)
        elif c in "([{":
            depth += 1; cur.append(c)
        elif c in ")]}":
            depth -= 1; cur.append(c)
        elif c == sep and depth == 0:
            parts.append("".join(cur)); cur = []
        else:
            cur.append(c)
        i += 1
    parts.append("".join(cur))
    return parts


def canon_fields(src, order):
    """every all-labelled tuple literal `[l: e, ..]` lists the labels of `order` first"""
    out, i, n = [], 0, len(src)
    instr = False
    while i < n:
        c = src[i]
        if instr:
            out.append(c)
            if c == "\\" and i + 1 < n:
                out.append(src[i + 1]); i += 1
            elif c == '"':
                instr = False
            i += 1
            continue
        if c == '"':
            instr = True; out.append(c); i += 1; continue
        if c == "[":
            j = balanced_end(src.replace("[", "(").replace("]", ")").replace("{", "(").replace("}", ")"), i)
            inner = canon_fields(src[i + 1:j], order)
            parts = split_top(inner)
            labs = [re.match(r"^\s*([a-z_][A-Za-z0-9_]*[?]?[!]?)\s*:", p) for p in parts]
            if len(parts) > 1 and all(labs):
                key = lambda pl: order.index(pl[1].group(1)) if pl[1].group(1) in order else len(order)
                parts = [p for p, _ in sorted(zip(parts, labs), key=key)]
                inner = ",".join(" " + p.strip() for p in parts).strip()
            out.append("[" + inner + "]")
            i = j + 1
            continue
        out.append(c); i += 1
    return "".join(out)


def explode(src):
    """a program ending in a tuple of observations `[o1, .., on]` (possibly inside `{ }`) -> one
    program per observation"""
    steps = split_steps(src)
    if not steps:
        return []
    last = steps[-1].strip()
    if last.startswith("{") and last.endswith("}"):
        last = last[1:-1].strip()
    if not (last.startswith("[") and last.endswith("]")):
        return []
    try:
        if balanced_end(last.replace("[", "(").replace("]", ")").replace("{", "(").replace("}", ")"), 0) != len(last) - 1:
            return []
    except (ValueError, IndexError):
        return []
    parts = [p.strip() for p in split_top(last[1:-1]) if p.strip()]
    if len(parts) < 2 or any(re.match(r"^[a-z_][A-Za-z0-9_]*\s*:", p) for p in parts):
        return []
    return [",\n".join(steps[:-1] + ["[" + p + "]"]) for p in parts]


def cons_spines(src):
    """outermost `Cons[h, t]` literals OUTSIDE every `{ }` (function bodies / blocks hold patterns):
    (start, end, [head texts], last tail text)"""
    out, i, depth = [], 0, 0
    flat = src.replace("[", "(").replace("]", ")").replace("{", "(").replace("}", ")")
    instr = False
    while i < len(src):
        c = src[i]
        if instr:
            if c == "\\":
                i += 1
            elif c == '"':
                instr = False
        elif c == '"':
            instr = True
        elif c == "{":
            depth += 1
        elif c == "}":
            depth -= 1
        elif depth == 0 and src.startswith("Cons[", i) and (i == 0 or not (src[i - 1].isalnum() or src[i - 1] == "_")):
            j = balanced_end(flat, i + 4)
            heads, cur = [], src[i:j + 1]
            while cur.startswith("Cons[") and cur.endswith("]"):
                parts = split_top(cur[5:-1])
                if len(parts) != 2:
                    break
                heads.append(parts[0].strip())
                cur = parts[1].strip()
            if not (cur.startswith("^") or any(h.startswith("'") or h.startswith("^") for h in heads)):
                out.append((i, j, heads, cur))       # (a type expression `Cons['t, ^]` is not a literal)
            i = j
        i += 1
    return out


def lit_shape(txt):
    t = re.sub(r'"(?:\\.|[^"\\])*"', "S", txt)
    t = re.sub(r"0x[0-9a-fA-F]*", "B", t)
    t = re.sub(r"-?\d+", "I", t)
    return re.sub(r"\s+", "", t)


def heterogeneous_cons(src):
    """some list literal has elements of different shapes, or does not end in Nil"""
    for _, _, heads, tail in cons_spines(src):
        if len(set(lit_shape(h) for h in heads)) >= 2 or (heads and tail != "Nil" and not re.match(r"^[a-z~$]", tail)):
            return True
    return False


def cut_cons_tails(src, drop_head=False):
    """every outermost `Cons[h, t]` literal outside braces becomes `Cons[h, Nil]` (or, with
    drop_head, `t`)"""
    out, last = [], 0
    for (i, j, heads, tail) in cons_spines(src):
        parts = split_top(src[i + 5:j])
        if len(parts) != 2:
            continue
        out.append(src[last:i])
        out.append(parts[1].strip() if drop_head else "Cons[" + parts[0].strip() + ", Nil]")
        last = j + 1
    out.append(src[last:])
    return "".join(out)


def fn_literal_bodies(src):
    """(open, close) brace positions of the bodies of the function literals `#T { .. }` that stand
    inside a bracketed argument `[ .. ]`"""
    out = []
    flat = src.replace("[", "(").replace("]", ")").replace("{", "(").replace("}", ")")
    depth_sq, instr, i = 0, False, 0
    while i < len(src):
        c = src[i]
        if instr:
            if c == "\\":
                i += 1
            elif c == '"':
                instr = False
        elif c == '"':
            instr = True
        elif c == "[":
            depth_sq += 1
        elif c == "]":
            depth_sq -= 1
        elif c == "#" and depth_sq > 0 and i + 1 < len(src) and src[i + 1] != "<":
            # skip the parameter type up to the body brace at relative depth 0
            j, d = i + 1, 0
            while j < len(src):
                ch = src[j]
                if ch in "([":
                    d += 1
                elif ch in ")]":
                    if d == 0:
                        break
                    d -= 1
                elif ch == "{" and d == 0:
                    break
                elif ch in ",\n" and d == 0:
                    break
                j += 1
            if j < len(src) and src[j] == "{":
                e = balanced_end(flat, j)
                out.append((j, e))
        i += 1
    return out


def rename_typevars_apart(src):
    """each generic function literal `#<'a, 'b> P { body }` gets its own variable names"""
    out = src
    k = 0
    for m in list(re.finditer(r"#<([^<>]*)>", src))[::-1]:
        names = [x.strip() for x in m.group(1).split(",") if x.strip().startswith("'")]
        j = src.find("{", m.end())
        if j < 0:
            continue
        flat = src.replace("[", "(").replace("]", ")").replace("{", "(").replace("}", ")")
        e = balanced_end(flat, j)
        seg = src[m.start():e + 1]
        k += 1
        for nm in names:
            seg = re.sub(re.escape(nm) + r"(?![A-Za-z0-9_])", nm + "c01v%d" % k, seg)
        out = out[:m.start()] + seg + out[e + 1:]
    return out


def chain_branches(src):
    """branches `t1, t2 [, ..] => c` of `{ | .. | .. }` blocks whose condition chains >= 2 steps:
    (open brace, close brace, branch texts, index, condition text)"""
    out = []
    flat = src.replace("[", "(").replace("]", ")").replace("{", "(").replace("}", ")")
    for m in re.finditer(r"\{", strip_strings(src)):
        j = m.start()
        if src[j] != "{":
            continue
        e = balanced_end(flat, j)
        parts = split_top(src[j + 1:e], "|")
        if len(parts) < 3:
            continue
        for i, part in enumerate(parts):
            k = part.find("=>")
            if k < 0 or not part.strip():
                continue
            cond = part[:k]
            if len([t for t in split_top(cond, ",") if t.strip()]) >= 2:
                out.append((j, e, parts, i, cond))
    return out


def prefixes(src):
    """programs that stop early: after each term of each top-level step (latest first)"""
    steps = split_steps(src)
    out = []
    for k, st in enumerate(steps):
        if st.lstrip().startswith("'"):
            continue
        terms, cur, depth, instr = [], [], 0, False
        for ch in st:
            if ch == '"':
                instr = not instr
            if not instr and ch in "([{":
                depth += 1
            elif not instr and ch in ")]}":
                depth -= 1
            if not instr and depth == 0 and ch in " \n\t":
                if cur:
                    terms.append("".join(cur)); cur = []
            else:
                cur.append(ch)
        if cur:
            terms.append("".join(cur))
        for j in range(1, len(terms) + 1):
            if k == len(steps) - 1 and j == len(terms):
                break
            if terms[j - 1] in ("=", "~>"):
                continue
            out.append(",\n".join(steps[:k] + [" ".join(terms[:j])]))
    return list(dict.fromkeys(out))[::-1]


# symbolic signature -> id in known_findings.json (suppression is table-driven by its status)
FINDING_IDS = {
    "tail-call-arg": "F1", "union-to-generic": "F2", "nil-binder": "F27", "stale-narrowing": "F53",
    "match-provenance": "F54", "recursive-binder": "F84",
    "nil-through-type-test": "F13c01", "failed-match-binder": "F74", "tail-branch-never": "F66",
    "unify-recursive-tail": "F67", "partial-position": "F68", "implicit-nil-application": "F58",
    "star-partial-nil-binder": "F80", "typevar-capture": "F81",
    "dead-chain-complement": "F86", "scalar-member-field-access": "F88", "callback-param-covariant": "F94",
    "union-widening-dropped": "F83",
}


class Classifier:
    """Decides whether a failing program is an instance of a known finding, by re-running
    VARIANTS of it on the real compiler (semantic signature), never by the source's provenance."""

    def __init__(self, oracle, nilable=()):
        self.o = oracle
        self.nilable = set(nilable)      # builtins whose registered result spec admits nil

    def outcomes(self, srcs, mods):
        recs = self.o.run_sources([dict(src=s, mods=mods) for s in srcs])
        return recs

    def fails(self, rec):
        return rec["status"] == "accepted" and rec["failure"] is not None

    def classify(self, src, mods, failure):
        """-> sorted list of symbolic signature names explaining the failure, or None. A program
        whose value is a tuple of independent observations is split into one program per
        observation: every failing one must be explained."""
        subs = explode(src)
        if len(subs) >= 2:
            recs = self.outcomes(subs, mods)
            failing = [(s, r["failure"]) for s, r in zip(subs, recs) if self.fails(r)]
            if failing:
                names = set()
                for s, f in failing[:5]:
                    n = self.classify_one(s, mods, f)
                    if n is None:
                        return None
                    names.add(n)
                return sorted(names)
        n = self.classify_one(src, mods, failure)
        return [n] if n else None

    def classify_one(self, src, mods, failure):

        """-> symbolic signature name (see FINDING_IDS) or None"""
        for name, fn in (("nil-binder", self.sig_f27), ("star-partial-nil-binder", self.sig_star_nil),
                         ("failed-match-binder", self.sig_failed_match), ("stale-narrowing", self.sig_f53),
                         ("match-provenance", self.sig_f54), ("tail-call-arg", self.sig_f1),
                         ("partial-position", self.sig_partial), ("dead-chain-complement", self.sig_dead_chain),
                         ("nil-through-type-test", self.sig_f13),
                         ("typevar-capture", self.sig_typevar_capture),
                         ("callback-param-covariant", self.sig_callback_param),
                         ("unify-recursive-tail", self.sig_unify_cycle),
                         ("union-widening-dropped", self.sig_union_widening),
                         ("tail-branch-never", self.sig_tail_never),
                         ("recursive-binder", self.sig_f59), ("union-to-generic", self.sig_f2),
                         ("implicit-nil-application", self.sig_f58),
                         ("scalar-member-field-access", self.sig_scalar_member)):
            try:
                if fn(src, mods, failure):
                    return name
            except (ValueError, IndexError, KeyError):
                pass
        return None

    # ---- partial-position: a field access / partial pattern on a value of PARTIAL static type uses
    # the field's position in the partial type. Signature: the program mentions a partial type or
    # pattern, and the variant in which every all-labelled tuple literal lists the partials' labels
    # FIRST (in the partials' order) does not fail.
    PARTIAL_RE = re.compile(r"(?<![A-Za-z0-9_\]])[A-Z]?[A-Za-z0-9_]*\(\s*([a-z_][A-Za-z0-9_]*)\s*(?::[^(),]*|)((?:,\s*[a-z_][A-Za-z0-9_]*\s*(?::[^(),]*|))*)\)")

    def sig_partial(self, src, mods, failure):
        s0 = strip_strings(src)
        orders = []
        for m in self.PARTIAL_RE.finditer(s0):
            labs = [m.group(1)] + re.findall(r",\s*([a-z_][A-Za-z0-9_]*)", m.group(2) or "")
            if labs not in orders:
                orders.append(labs)
        if not orders:
            return False
        variants = []
        head, sep, last = src.rpartition("\n")
        for labs in orders[:6]:
            v = canon_fields(src, labs)
            if v != src and v not in variants:
                variants.append(v)
            # several partial parameters with conflicting orders: reorder the final step only (the
            # argument the check applied to a function of the program)
            v2 = head + sep + canon_fields(last, labs)
            if sep and v2 != src and v2 not in variants:
                variants.append(v2)
        if not variants:
            return False
        recs = self.outcomes(variants, mods)
        return any(r["status"] == "accepted" and not r["failure"] for r in recs)

    # ---- dead-chain-complement: a branch condition that chains several tests on one provenance and
    # can NEVER succeed (a later test is statically impossible after the earlier one) still
    # subtracts the earlier tests' narrowing from the complement seen by the following branches.
    # Signature: (1) with that branch deleted the program is accepted and passes; (2) the compiler
    # itself types the chained condition as statically failing: the function cut after it, with
    # the condition as its last branch, has no `Ok` in its DECLARED result type.
    def sig_dead_chain(self, src, mods, failure):
        cands = []
        for (j, e, parts, i, cond) in chain_branches(src):
            without = src[:j + 1] + "|".join(parts[:i] + parts[i + 1:]) + src[e:]
            # the function cut after the chained condition, returned BY REFERENCE: its declared
            # result type (not a call site's, which is specialised to the argument) is inspected
            names = re.findall(r"([a-z][A-Za-z0-9_]*)\s*=\s*#", src[:j])
            if not names:
                continue
            cut_src = src[:j + 1] + "|".join(parts[:i] + [" " + cond.strip() + " "]) + src[e:]
            steps = split_steps(cut_src)
            cut = ",\n".join(steps[:-1] + ["&" + names[-1]])
            cands.append((without, cut))
        if not cands:
            return False
        cands = cands[:6]
        recs = self.outcomes([w for w, _ in cands] + [c for _, c in cands], mods)
        n = len(cands)
        for k in range(n):
            rw, rc = recs[k], recs[n + k]
            if not (rw["status"] == "accepted" and not rw["failure"]):
                continue
            if rc["status"] != "accepted" or rc["run"] is None or rc["run"].rtype is None:
                continue
            try:
                types, tuples = parse_tables(rc["run"].tables)
            except (ValueError, IndexError):
                continue
            ft = types[rc["run"].rtype]
            if ft[0] != "fn":
                continue
            t = types[int(ft[2])]
            members = [types[int(x)] for x in t[1:]] if t[0] == "union" else [t]
            if ["tuple", "1"] not in members:
                return True
        return False

    # ---- nil-through-type-test (F13): nil passes a later `='T` test after an earlier branch narrowed
    # the union. Signature: the program applies a callable to the literal nil, and the failure is
    # specific to nil: with that argument replaced by a non-nil literal the program is accepted and
    # passes.
    NIL_CALL_RE = re.compile(r"(?<![A-Za-z0-9_\])}'=])\[\](?=\s+&?[a-z%][A-Za-z0-9_.?!/%]*)")

    def sig_f13(self, src, mods, failure):
        sites = [m for m in self.NIL_CALL_RE.finditer(src)]
        if not sites:
            return False
        variants = []
        for m in sites[:4]:
            for lit in ("0", "0x00", '"s"'):
                variants.append(src[:m.start()] + lit + src[m.end():])
        recs = self.outcomes(variants, mods)
        return any(r["status"] == "accepted" and not r["failure"] for r in recs)

    # ---- tail-branch-never: the call site's result type drops the contribution of a branch ending
    # in a self tail call `^`. Signature: the program has a bare self tail call, the judgement
    # rejects, and the value inhabits the DECLARED result type of a function of the program.
    def sig_tail_never(self, src, mods, failure):
        if failure.get("kind") != "result-not-in-inferred-type":
            return False
        s0 = strip_strings(src)
        if re.search(r"\S\s+\^\s*[}|\n,]", s0) is None:
            return False
        if failure.get("nevertop"):
            return True
        # a too-narrow (not empty) call-site type: only when no generic function is involved
        # (generic instantiation defects F67/F81/F2 have their own signatures)
        return bool(failure.get("fnres")) and "#<" not in s0 and not re.search(r"%(list|iter)\b", s0)

    # ---- callback-param-covariant (F94): unify's Callable arm unifies a callback's PARAMETER like a
    # covariant position - a type variable bound already just widens - so a callback that accepts
    # only 'int is accepted where the variable is 'bin (`ap = #<'t>['t, #'t -> 'int] {..}`,
    # `[0x01, #'int {..}] ap`). Signature: a generic callee (in the source, or %iter / %list) is
    # handed a callback inside a bracketed argument (a function literal with an explicit
    # parameter, or `&name`), and the failure is gone when that callback is replaced by a
    # context-typed lambda, whose parameter is whatever the variable is (`#{ $ }`, `#{ 1 }`, ..),
    # or the compiler rejects the program once the callback is eta-expanded (`#{ $ name }`).
    CALLBACK_REF_RE = re.compile(r"(?<=[\[,])\s*&[a-z%][A-Za-z0-9_./%]*[?]?[!]?(?=\s*[,\]])")

    def sig_callback_param(self, src, mods, failure):
        s0 = strip_strings(src)
        if "#<" not in s0 and not re.search(r"%(list|iter)\b", s0):
            return False
        spans = []
        flat = src.replace("[", "(").replace("]", ")").replace("{", "(").replace("}", ")")
        for (b0, b1) in fn_literal_bodies(src):
            h = src.rfind("#", 0, b0)
            if h >= 0 and src[h + 1:b0].strip():            # explicit parameter type
                spans.append((h, b1 + 1))
        for m in self.CALLBACK_REF_RE.finditer(src):
            spans.append((m.start(), m.end()))
        variants, eta = [], []
        for (a0, a1) in spans[:3]:
            for lam in ("#{ $ }", "#{ 1 }", "#{ Ok }", "#{ [] }"):
                variants.append(src[:a0] + " " + lam + src[a1:])
            # the ETA-EXPANSION of the callback (same behaviour): the lambda's parameter is what the
            # variable is, and the call inside it checks that against the callback's own parameter
            cb = src[a0:a1].strip()
            if cb.startswith("&"):
                eta.append(src[:a0] + " #{ $ " + cb[1:] + " }" + src[a1:])
            else:
                eta.append(src[:a0] + " #{ c01cb = " + cb + ", $ c01cb }" + src[a1:])
        if not variants:
            return False
        recs = self.outcomes(variants + eta, mods)
        if any(r["status"] == "accepted" and not r["failure"] for r in recs):
            return True
        # eta-expanded, the compiler rejects the call: it was accepted only because the callback's
        # parameter went unchecked
        return any(r["status"] == "compile-error" for r in recs[len(variants):])

    # ---- unify-recursive-tail (F67, the residue left open by e5e2c4b): see below. Precondition: a
    # generic function `#<..>` whose header mentions a recursive alias, or %list / %iter.
    def sig_unify_cycle(self, src, mods, failure):
        s0 = strip_strings(src)
        rec_aliases = re.findall(r"'([a-z_][A-Za-z0-9_]*)\s*(?:<[^=\n]*>)?\s*=[^\n]*\^", s0)
        generic_rec = any(any(re.search(r"'" + re.escape(a) + r"(?![A-Za-z0-9_])", m.group(0)) for a in rec_aliases)
                          for m in re.finditer(r"#<[^{}]*\{", s0))
        if not generic_rec and not re.search(r"%(list|iter)\b", s0):
            return False
        # what is still open after e5e2c4b (unify now follows back-references to BIND, a mismatch is
        # still not an error): a list literal whose spine does not end in Nil is accepted. (The
        # unchecked callback parameter is F94, below.) Anything else about recursive arguments is
        # a recurrence.
        spines = cons_spines(src)
        bad_tail = any(heads and tail != "Nil" and not re.match(r"^[a-z~$]", tail) for _, _, heads, tail in spines)
        hetero = any(len(set(lit_shape(h) for h in heads)) >= 2 for _, _, heads, _ in spines)
        if not bad_tail:
            return False
        # the failure depends on the recursive TAIL of a list literal: with every outermost
        # `Cons[h, t]` literal cut to `Cons[h, Nil]` (or to `t`) the program is accepted and passes
        vs = [v for v in (cut_cons_tails(src, False), cut_cons_tails(src, True)) if v != src]
        if not vs:
            return False
        recs = self.outcomes(vs, mods)
        return any(r["status"] == "accepted" and not r["failure"] for r in recs)

    # ---- typevar-capture (F81): a generic function calls a generic callee whose type parameter has
    # the SAME NAME: unify's "don't bind a variable to itself" leaves the callee's variable unbound
    # and the `[]` variant of the argument then binds it to nil (std: %iter.take_while / drop_while /
    # filter are typed `-> Iter[.. [[], ..] ..]`). Signature, arm A: the source holds two generic
    # function literals sharing a variable name and with the variables renamed apart the failure
    # disappears; arm B: the program uses %iter, and the judgement accepts once the nil type reads
    # as top (the value is right, a variable was instantiated to nil).
    def sig_typevar_capture(self, src, mods, failure):
        s0 = strip_strings(src)
        heads = list(re.finditer(r"#<([^<>]*)>", s0))
        if len(heads) >= 2:
            names = [set(x.strip() for x in m.group(1).split(",")) for m in heads]
            if any(names[i] & names[j] for i in range(len(names)) for j in range(i)):
                v = rename_typevars_apart(src)
                if v and v != src:
                    rec = self.outcomes([v], mods)[0]
                    if rec["status"] == "accepted" and not rec["failure"]:
                        return True
        if failure.get("kind") == "result-not-in-inferred-type" and failure.get("niltop") and re.search(r"%iter\b", s0) \
                and not heterogeneous_cons(src):
            return True
        return False

    # ---- union-widening-dropped: unify, both sides unions: an argument variant matched
    # against an ALREADY-BOUND type variable widens it, and the merge then drops that widening
    # while still counting the variant as matched (`#'t -> ('t | [])` accepts a callback returning
    # `Ok | []` with 't left at 'int). Signature: a generic callee (in the source or %iter/%list)
    # receives a function literal inside a bracketed argument, and the failure disappears when
    # that literal's result is NOT a union: its body boxed into a one-field tuple.
    def sig_union_widening(self, src, mods, failure):
        s0 = strip_strings(src)
        if "#<" not in s0 and not re.search(r"%(list|iter)\b", s0):
            return False
        if failure.get("kind") == "vm-type-failure":
            # the first symptom along the program: a failing PREFIX with the judgement-level signature
            pre = prefixes(src)[:12]
            recs = self.outcomes(pre, mods)
            return any(r["status"] == "accepted" and r["failure"] and r["failure"].get("kind") == "result-not-in-inferred-type"
                       and self.sig_union_widening(p_src, mods, r["failure"]) for p_src, r in zip(pre, recs))
        variants = []
        for (b0, b1) in fn_literal_bodies(src)[:5]:
            variants.append(src[:b0] + "{ [{" + src[b0 + 1:b1] + "}] }" + src[b1 + 1:])
        if not variants:
            return False
        recs = self.outcomes(variants, mods)
        return any(r["status"] == "accepted" and not r["failure"] for r in recs)

    # ---- implicit-nil-application (F58): a callable at the HEAD of a chain (a builtin `__b__` or an
    # import `%m.f`) is applied to the implicit flowing nil with no argument check. Signature: with
    # an explicit `[]` written before that head the compiler REJECTS the program.
    HEAD_RE = re.compile(r"(^|[=,{|\n(\[]\s*|=>\s*)(__[a-z0-9_]+__|%[a-z][A-Za-z0-9_/]*(?:\.[a-z][A-Za-z0-9_?!]*)+)")

    def sig_f58(self, src, mods, failure):
        if failure.get("kind") != "vm-type-failure":
            return False
        variants = []
        for m in self.HEAD_RE.finditer(src):
            variants.append(src[:m.start(2)] + "[] " + src[m.start(2):])
        if not variants:
            return False
        recs = self.outcomes(variants[:6], mods)
        return any(r["status"] == "compile-error" for r in recs)

    # ---- scalar-member-field-access: field access on a union with a NON-TUPLE member is accepted
    # (the field-type query ignores 'int / 'bin members). Signature: the run fails with
    # TypeMismatch expected tuple found integer/binary, the source accesses a field, and with the
    # 'int / 'bin members removed from the program's union type expressions the compiler REJECTS it
    # (the scalar argument no longer fits) or the failure is gone.
    def sig_scalar_member(self, src, mods, failure):
        if failure.get("kind") != "vm-type-failure" or failure.get("cls") != "TypeMismatch":
            return False
        msg = failure.get("msg", "")
        if '"tuple"' not in msg or not ('"integer"' in msg or '"binary"' in msg):
            return False
        if not re.search(r"[a-z0-9_\])$~}]\s?\.[a-z0-9]", strip_strings(src)):
            return False
        v = re.sub(r"\|\s*'(?:int|bin)\b", "", src)
        v = re.sub(r"'(?:int|bin)\s*\|\s*(?=[A-Z\['(])", "", v)
        if v == src:
            return False
        rec = self.outcomes([v], mods)[0]
        return rec["status"] == "compile-error" or (rec["status"] == "accepted" and not rec["failure"])

    # ---- recursive-binder (F59): a binder taken from a back-reference position keeps a Cycle that
    # re-binds. Signature: the judgement rejects but accepts when variants of recursive types read
    # as top; for a VM-level failure: some PREFIX of the program shows that symptom.
    def sig_f59(self, src, mods, failure):
        s00 = strip_strings(src)
        if failure.get("kind") == "result-not-in-inferred-type":
            # precondition of both arms: the source declares a recursive alias and a function
            # destructures a value with binders
            if re.search(r"'[a-z_][A-Za-z0-9_]*\s*(?:<[^=\n]*>)?\s*=[^\n]*\^", s00) is None \
                    or re.search(r"#[^{}]*\{[^{}]*=[A-Z][A-Za-z0-9_]*\[[^\]]*[a-z]", s00) is None:
                return False
            if failure.get("lenient"):
                return True
            # second arm: a recursive alias is declared, a function destructures it with binders,
            # and the value does inhabit a function's DECLARED result type (the call site's type has
            # the back-reference re-bound, e.g. to the enclosing function type)
            s0 = strip_strings(src)
            return bool(failure.get("fnres") or failure.get("fnreslen")) and re.search(r"'[a-z_][A-Za-z0-9_]*\s*(?:<[^=\n]*>)?\s*=[^\n]*\^", s0) is not None \
                and re.search(r"#[^{}]*\{[^{}]*=[A-Z][A-Za-z0-9_]*\[[^\]]*[a-z]", s0) is not None \
                and re.search(r"\S\s+\^\s*[}|\n,]", s0) is None
        pre = prefixes(src)[:16]
        recs = self.outcomes(pre, mods)
        return any(r["status"] == "accepted" and r["failure"] and r["failure"].get("kind") == "result-not-in-inferred-type"
                   and self.sig_f59(p_src, mods, r["failure"]) for p_src, r in zip(pre, recs))

    # F1: compile_tail_call never checks the argument. Signature: the program has a tail call, and
    # the variant in which every tail call is an ORDINARY call of a function with the same
    # parameter type (`E ^f` -> `E f`; bare `E ^` -> `E c01chkN` with `c01chkN = #T { $ }`-like probe
    # of the enclosing function's parameter type T) is REJECTED by the compiler.
    def sig_f1(self, src, mods, failure):
        s0 = strip_strings(src)
        if not TAIL_RE.search(s0):
            return False
        variant = self.untail(src)
        if variant is None or variant == src:
            return False
        rec = self.outcomes([variant], mods)[0]
        return rec["status"] == "compile-error"

    def untail(self, src):
        """rewrite tail calls into ordinary calls (strings are left alone)"""
        out, i, probes = [], 0, []
        n = len(src)
        instr = False
        while i < n:
            c = src[i]
            if instr:
                out.append(c)
                if c == "\\" and i + 1 < n:
                    out.append(src[i + 1]); i += 1
                elif c == '"':
                    instr = False
                i += 1
                continue
            if c == '"':
                instr = True; out.append(c); i += 1; continue
            if c == "^":
                m = TAIL_RE.match(src, i)
                tgt = m.group(1)
                # `^` inside a TYPE expression (recursive type reference) is preceded by `[`, `,`, `|`
                # or `(` and followed by `]`, `,`, `)`, digit...: a tail call follows an argument term
                prev = "".join(out).rstrip()
                if not prev or prev[-1] in "[,|(<:=" or (prev[-1] == ">" and not prev.endswith("=>") and not prev.endswith("~>")):
                    out.append(c); i += 1; continue
                if tgt == "~":
                    return None
                if tgt:
                    out.append(tgt)
                else:
                    t = self.enclosing_param("".join(out))
                    if t is None:
                        return None
                    name = "c01chk%d" % len(probes)
                    probes.append("%s = #%s { 0 }" % (name, t))
                    out.append(name)
                i = m.end()
                continue
            out.append(c); i += 1
        body = "".join(out)
        if probes:
            # probes go after the leading type-alias declarations they may mention
            steps = split_steps(body)
            k = 0
            while k < len(steps) and steps[k].lstrip().startswith("'"):
                k += 1
            body = ",\n".join(steps[:k] + probes + steps[k:])
        return body

    @staticmethod
    def enclosing_param(prefix):
        """parameter type text of the innermost function literal `#T {` enclosing the end of prefix"""
        depth, j = 0, len(prefix) - 1
        while j >= 0:
            c = prefix[j]
            if c in ")]}":
                depth += 1
            elif c in "([{":
                if depth == 0:
                    if c == "{":
                        # candidate: text before this brace up to a `#` at bracket depth 0
                        k, d2 = j - 1, 0
                        while k >= 0:
                            ch = prefix[k]
                            if ch in ")]>":
                                if not (ch == ">" and k > 0 and prefix[k - 1] in "-=~"):
                                    d2 += 1
                            elif ch in "([<":
                                d2 -= 1
                                if d2 < 0:
                                    break
                            elif ch == "#" and d2 == 0:
                                t = prefix[k + 1:j].strip()
                                if "->" in t:
                                    t = t.split("->")[0].strip()
                                return t if t else "[]"
                            elif d2 == 0 and ch in ",\n{}|=":
                                break
                            k -= 1
                    # not a function brace: keep looking outwards
                else:
                    depth -= 1
            j -= 1
        return None

    # F2: `unify` lets a UNION argument match a non-union parameter position of a GENERIC function
    # through one variant. Signature: the program calls a function declared with type parameters
    # `#<..>`, and the variant in which every `#<'a, ..>` header is dropped and the variables are
    # replaced by the union of everything... is not expressible; instead: the failure disappears
    # when the generic function is made monomorphic is not decidable textually either. The
    # semantic signature used: the program declares a generic function, and replacing each type
    # parameter by `'int` (and by `'bin`) in its header makes the compiler REJECT the program
    # (the argument really is a union the monomorphic parameter refuses).
    def sig_f2(self, src, mods, failure):
        s0 = strip_strings(src)
        if not re.search(r"#<\s*'[a-z]", s0):
            return False
        v = self.monomorphise(src, "('int | 'bin | 'ref | ())")
        if not v or v == src:
            return False
        rec = self.outcomes([v], mods)[0]
        return rec["status"] == "compile-error"

    @staticmethod
    def monomorphise(src, conc):
        out = src
        for m in list(re.finditer(r"#<([^<>]*)>", src))[::-1]:
            names = [x.strip() for x in m.group(1).split(",") if x.strip().startswith("'")]
            # the function literal extends to the matching brace of its body
            j = src.find("{", m.end())
            if j < 0:
                continue
            depth, e = 0, j
            while e < len(src):
                if src[e] == "{":
                    depth += 1
                elif src[e] == "}":
                    depth -= 1
                    if depth == 0:
                        break
                e += 1
            seg = src[m.end():e + 1]
            for nm in names:
                seg = re.sub(re.escape(nm) + r"(?![A-Za-z0-9_])", conc, seg)
            out = out[:m.start()] + "#" + seg + out[e + 1:]
        return out

    # failed-match-binder: the binders of a structured pattern that FAILED are nil-filled but keep
    # their static type where the failure does not short-circuit (tuple field, mid-chain).
    # Signature: some identifier of the program, observed as `[x]` right after the step that
    # mentions it, holds nil outside its static type (and it is not a bare binder: that is F27).
    STAR_RE = re.compile(r"(?:^|[\s=\[,(|])[A-Z]?[A-Za-z0-9_]*\*(?=\s|$|[\],)=])")
    SHORT_PARTIAL_RE = re.compile(r"(?:^|[\s=\[,(|])[A-Z]?[A-Za-z0-9_]*\(\s*[a-z_][A-Za-z0-9_]*\s*[,)]")

    # ---- star-partial-nil-binder (F80): the binders of a star pattern and of the shorthand fields
    # of a partial pattern are typed without_nil(field) though nothing requires the field to be
    # non-nil. Signature: a step holds such a pattern, the match SUCCEEDS (the program cut after
    # that step evaluates to Ok), and a name it binds, observed as `[x]` right after, holds nil
    # outside its static type.
    def sig_star_nil(self, src, mods, failure):
        steps = split_steps(src)
        probes, cuts = [], []
        for k, st in enumerate(steps):
            s0 = strip_strings(st)
            if st.lstrip().startswith("'") or not (self.STAR_RE.search(s0) or self.SHORT_PARTIAL_RE.search(s0)):
                continue
            cuts.append(",\n".join(steps[:k + 1]))
            # a star binds the labels of the matched value: candidates are all labels / names in scope
            ids = list(dict.fromkeys(re.findall(r"(?<![A-Za-z0-9_'.$&%#])([a-z][A-Za-z0-9_]*)(?![A-Za-z0-9_(<])", strip_strings(",".join(steps[:k + 1])))))
            for x in ids[-10:]:
                probes.append((len(cuts) - 1, ",\n".join(steps[:k + 1] + ["[" + x + "]"])))
        if not probes:
            return False
        probes = probes[-24:]
        recs = self.outcomes(cuts + [p for _, p in probes], mods)
        cut_ok = [r["status"] == "accepted" and r["run"] is not None and (r["run"].value or "").strip() == "(t 1)" for r in recs[:len(cuts)]]
        for (ci, _), r in zip(probes, recs[len(cuts):]):
            if cut_ok[ci] and r["status"] == "accepted" and r["failure"] and r["failure"]["kind"] == "result-not-in-inferred-type":
                if re.match(r"^\(t \d+ \(t 0\)\)$", (r["run"].value or "").strip()):
                    return True
        return False

    def sig_failed_match(self, src, mods, failure):
        steps = split_steps(src)
        probes = []
        for k, st in enumerate(steps):
            if st.lstrip().startswith("'"):
                continue
            bare = set(self.bare_binders(st))
            ids = [x for x in dict.fromkeys(re.findall(r"(?<![A-Za-z0-9_'.$&%#])([a-z][A-Za-z0-9_]*)(?![A-Za-z0-9_(<])", strip_strings(st))) if x not in bare]
            for x in ids[:6]:
                probes.append(",\n".join(steps[:k + 1] + ["[" + x + "]"]))
        if not probes:
            return False
        recs = self.outcomes(probes[-24:], mods)
        for r in recs:
            if r["status"] == "accepted" and r["failure"] and r["failure"]["kind"] == "result-not-in-inferred-type":
                if re.match(r"^\(t \d+ \(t 0\)\)$", (r["run"].value or "").strip()):
                    return True
        return False

    # F27: `x = e` / `e =x` with e : T | [] types x as T. Signature: the program has a bare binder
    # whose bound expression can be nil, and the variant in which that binder is replaced by a
    # type-honest one no longer fails: every bare binding `x = E` -> `x = [E] .0`? (not neutral).
    # Semantic signature used: the failure is a TypeMismatch or an ill-typed value, and the variant
    # in which each top-level step `x = E` is followed by a nil test `x { =[] => c01nil | Ok }`
    # short-circuiting... is not neutral either. We use the observable the finding is defined by:
    # some variable bound by a bare binder holds nil at run time while its static type has no nil:
    # the probe program `<prefix up to the binding>, [x]` must itself be judged `reject`
    # (value [[]] not in [(T)]).
    def sig_f27(self, src, mods, failure):
        # syntactic arm (binders inside functions that only a particular argument drives to nil):
        # a bare in-chain binder directly after a builtin whose REGISTERED result is `T | []`
        if failure.get("kind") == "vm-type-failure" and self.nilable:
            rx = r"__(%s)__\s*(?:\n\s*~>\s*)?=[a-z][A-Za-z0-9_]*(?![A-Za-z0-9_(\[*])" % "|".join(sorted(self.nilable))
            if re.search(rx, strip_strings(src)):
                return True
        steps = split_steps(src)
        probes = []
        for k, st in enumerate(steps):
            for x in self.bare_binders(st):
                probes.append(",\n".join(steps[:k + 1] + ["[" + x + "]"]))
        # binders inside nested blocks / functions: probe right after the binder, in place
        for m in re.finditer(r"(?<![=<>!~])=([a-z][A-Za-z0-9_]*)(?![A-Za-z0-9_\[(*])", strip_strings(src)):
            x = m.group(1)
            cut = src[:m.end()]
            # close the open brackets after observing the binder
            closing = self.closers(cut)
            if closing is not None:
                probes.append(cut + " [" + x + "]" + closing)
        if not probes:
            return False
        probes = probes[:24]
        recs = self.outcomes(probes, mods)
        for r in recs:
            if r["status"] == "accepted" and r["failure"] and r["failure"]["kind"] != "vm-type-failure":
                v = r["run"].value or ""
                if re.search(r"\(t \d+ \(t 0\)\)\s*$", v.strip()) or "(t 0)" in v:
                    return True
        return False

    @staticmethod
    def bare_binders(step):
        m = re.match(r"^\s*([a-z][A-Za-z0-9_]*[?]?[!]?)\s+=\s+\S", step)
        out = [m.group(1)] if m else []
        for m2 in re.finditer(r"(?<![=<>!~])=([a-z][A-Za-z0-9_]*)(?![A-Za-z0-9_\[(*])\s*$", strip_strings(step)):
            out.append(m2.group(1))
        return out

    @staticmethod
    def closers(prefix):
        stack, instr, i = [], False, 0
        while i < len(prefix):
            c = prefix[i]
            if instr:
                if c == "\\":
                    i += 1
                elif c == '"':
                    instr = False
            elif c == '"':
                instr = True
            elif c in "([{":
                stack.append({"(": ")", "[": "]", "{": "}"}[c])
            elif c in ")]}":
                if not stack:
                    return None
                stack.pop()
            i += 1
        if instr:
            return None
        return "".join(reversed(stack))

    # F53: rebinding a name keeps its stale narrowing. Signature: some name is bound twice in one
    # scope, and renaming the SECOND binding (and its later uses) to a fresh name makes the failure
    # disappear (the program is then accepted and passes, or is rejected).
    def sig_f53(self, src, mods, failure):
        steps = split_steps(src)
        seen, variants = {}, []
        for k, st in enumerate(steps):
            m = re.match(r"^\s*([a-z][A-Za-z0-9_]*)\s+=\s+\S", st)
            if not m:
                continue
            x = m.group(1)
            if x in seen:
                fresh = x + "c01r"
                new = list(steps)
                new[k] = re.sub(r"^(\s*)" + re.escape(x) + r"(\s+=\s+)", r"\1" + fresh + r"\2", st, count=1)
                for j in range(k + 1, len(steps)):
                    if re.match(r"^\s*" + re.escape(x) + r"\s+=\s+\S", steps[j]):
                        break
                    new[j] = re.sub(r"(?<![A-Za-z0-9_.'])" + re.escape(x) + r"(?![A-Za-z0-9_:])", fresh, steps[j])
                variants.append(",\n".join(new))
            seen[x] = k
        if not variants:
            return False
        recs = self.outcomes(variants[:8], mods)
        return any(not self.fails(r) for r in recs)

    # F54: the Ok of a match step keeps the provenance of the matched variable; a following bare
    # `=b` binds b with it and a later match on the variable is decided statically to fail.
    # Signature: a step is a bare in-chain binder `=b` directly after a step ending in a match on
    # a variable, and inserting the neutral term `Ok` before the binder (`Ok =b`: same value, no
    # provenance) makes the failure disappear.
    def sig_f54(self, src, mods, failure):
        steps = split_steps(src)
        variants = []
        for k, st in enumerate(steps):
            if re.match(r"^\s*=[a-z][A-Za-z0-9_]*\s*$", st) and k > 0:
                new = list(steps)
                new[k] = " Ok " + st.strip()
                variants.append(",\n".join(new))
        if not variants:
            return False
        recs = self.outcomes(variants[:8], mods)
        return any(not self.fails(r) for r in recs)


# ------------------------------------------------------------------ shrinking
def shrink(oracle, src, mods, failure, budget=6):
    """greedy deletion of top-level steps, then of block branches; keeps the failure kind"""
    kind = failure["kind"]

    def still(recs):
        return [r["status"] == "accepted" and r["failure"] is not None and r["failure"]["kind"] == kind for r in recs]

    cur = src
    for _ in range(budget):
        steps = split_steps(cur)
        cands = []
        if len(steps) > 1:
            for k in range(len(steps)):
                cands.append(",\n".join(steps[:k] + steps[k + 1:]))
        # drop one branch `| ...` of a block
        for m in re.finditer(r"\|[^|{}]*(?=\||\})", cur):
            cands.append(cur[:m.start()] + cur[m.end():])
        cands = [c for c in dict.fromkeys(cands) if c.strip() and c != cur][:40]
        if not cands:
            break
        recs = oracle.run_sources([dict(src=c, mods=mods) for c in cands])
        ok = [c for c, s in zip(cands, still(recs)) if s]
        if not ok:
            break
        cur = min(ok, key=len)
    return cur


# ------------------------------------------------------------------ mutation of repository sources
def mutate(rng, src, others):
    """one mutation of a source text; returns (kind, new source) or None"""
    kind = rng.choice(["wrap_block", "reorder_branches", "swap_literal", "compose", "literal_to_nil", "drop_branch"])
    if kind == "wrap_block":
        steps = split_steps(src)
        if not steps or any(s.lstrip().startswith("'") for s in steps[-1:]):
            return None
        k = len(steps) - 1
        return kind, ",\n".join(steps[:k] + ["{ " + steps[k].strip() + " }"])
    if kind in ("reorder_branches", "drop_branch"):
        # find a block with >= 2 top-level branches
        spans = [m for m in re.finditer(r"\{", strip_strings(src))]
        rng.shuffle(spans)
        for m in spans[:6]:
            j = m.start()
            depth, e = 0, j
            while e < len(src):
                if src[e] in "{[(":
                    depth += 1
                elif src[e] in "}])":
                    depth -= 1
                    if depth == 0:
                        break
                e += 1
            body = src[j + 1:e]
            parts, cur, d = [], [], 0
            instr = False
            for ch in body:
                if ch == '"':
                    instr = not instr
                if not instr and ch in "{[(":
                    d += 1
                elif not instr and ch in "}])":
                    d -= 1
                if not instr and ch == "|" and d == 0:
                    parts.append("".join(cur)); cur = []
                else:
                    cur.append(ch)
            parts.append("".join(cur))
            lead = parts[0].strip() == ""
            branches = parts[1:] if lead else parts
            if len(branches) >= 2:
                if kind == "reorder_branches":
                    a, b = rng.sample(range(len(branches)), 2)
                    branches[a], branches[b] = branches[b], branches[a]
                else:
                    branches.pop(rng.randrange(len(branches)))
                return kind, src[:j + 1] + ("|" if lead else "") + "|".join(branches) + src[e:]
        return None
    if kind in ("swap_literal", "literal_to_nil"):
        s0 = strip_strings(src)
        lits = [m for m in re.finditer(r"(?<![A-Za-z0-9_.'$^])(-?\d+|0x[0-9a-fA-F]*)(?![A-Za-z0-9_])", s0)]
        lits = [m for m in lits if src[m.start():m.end()] == m.group(0)]
        if not lits:
            return None
        m = rng.choice(lits)
        if kind == "literal_to_nil":
            new = rng.choice(["[]", "Ok", "Nil"])
        elif m.group(0).startswith("0x"):
            new = str(rng.choice(INTS))
        else:
            new = rng.choice(["0x01", "0x", "[]", '"s"', "[1, 2]", "A[x: 1]"])
        return kind, src[:m.start()] + new + src[m.end():]
    if kind == "compose" and others:
        other = rng.choice(others)
        a, b = split_steps(src), split_steps(other)
        if not a or not b:
            return None
        return kind, ",\n".join(a[:-1] + b[:-1] + ["[" + a[-1].strip() + ", " + b[-1].strip() + "]"])
    return None


# ------------------------------------------------------------------ corpus
def corpus_items():
    out = []
    cdir = os.path.join(VERIF, "corpus")
    for fn in sorted(os.listdir(cdir)):
        if not (fn.startswith("c01_") and fn.endswith(".txt")):
            continue
        for line in open(os.path.join(cdir, fn)):
            line = line.rstrip("\n")
            if not line.strip() or line.startswith("#"):
                continue
            try:
                parts = []
                i = 0
                # a line is `"source" (mod "a/b" "src")*`
                first = sexpr.parse(line)
                mods = []
                rest = line[balanced_str_end(line) + 1:].strip()
                while rest.startswith("("):
                    e = balanced_end(rest, 0)
                    p = sexpr.parse(rest[:e + 1])
                    mods.append((p[1], p[2]))
                    rest = rest[e + 1:].strip()
                out.append(dict(src=first, mods=mods, origin="corpus:" + fn, must_pass=fn.startswith("c01_regress")))
            except (ValueError, IndexError):
                continue
    return out


def balanced_str_end(line):
    i = line.index('"') + 1
    while i < len(line):
        if line[i] == "\\":
            i += 2
            continue
        if line[i] == '"':
            return i
        i += 1
    return len(line) - 1


# ------------------------------------------------------------------ the check
FEATURES = [
    ("unions", r"'[a-z_]+\s*=[^,\n]*\|"), ("partials", r"[A-Za-z]?\([a-z_]+\s*[:,)]"), ("generics", r"#<|'[a-z_]+<"),
    ("recursive_types", r"\^[\]\,\)\d ]|\[\^|, \^"), ("narrowing_blocks", r"\{\s*\|?\s*="), ("tail_calls", r"\S\s+\^(~|[a-z_]\w*)?\s*[}\n,|]"),
    ("closures", r"#[^{}\n]*\{[^{}]*#"), ("nested_blocks", r"\{[^{}]*\{"), ("spreads", r"\.\.\."), ("field_access", r"[a-z_\])$~]\.[a-z0-9_]"),
    ("pins", r"=&|[\[,(]\s*&[a-z]"), ("or_patterns", r"=\([^()]*\|"), ("as_patterns", r"=?\([^()]*\)[a-z_]"),
    ("spawn", r"@"), ("select", r"![a-z'#\[( ]"), ("send_self", r"\s\.\s|&\."), ("strings", r'"'), ("imports", r"%[a-z]"),
]


def features_of(src):
    s = src
    return [name for name, rx in FEATURES if re.search(rx, s)]


def run(ctx):
    ok = ctx.coq_props()
    typed = ctx.harness("qv_typed")
    qb = ctx.harness("qv_builtin")
    drv = ctx.driver("typed")
    if not typed or not drv or not qb:
        return
    cov = ctx.cov
    # ---------------- correspondence of the mirrored TypeSpec table with the real registry
    _, real = ctx.run_bin(qb, [], args=["--names"])
    _, mine = ctx.run_bin(drv, ["(sigs)"])
    real_sigs = {}
    for line in real:
        p = sexpr.parse(line)
        if p[0] == "sig":
            real_sigs[p[1]] = (p[2], p[3])
    mine_sigs = {}
    for chunk in re.findall(r"\(sig .*?\)(?= \(sig |$)", mine[0] if mine else ""):
        p = sexpr.parse(chunk)
        mine_sigs[p[1]] = (p[2], p[3])
    pure = sorted(n for n in real_sigs if n.split("_")[0] in ("integer", "binary", "vector"))
    sig_mismatch = [n for n in mine_sigs if real_sigs.get(n) != mine_sigs[n]]
    unmirrored = [n for n in pure if n not in mine_sigs and n not in ("integer_sin", "integer_cos")]
    cov["builtin_sigs_mirrored"] = len(mine_sigs)
    cov["builtin_sigs_registered_pure"] = len(pure)
    cov["builtin_sigs_mismatch"] = sig_mismatch
    cov["builtin_sigs_unmirrored"] = unmirrored
    for n in sig_mismatch:
        ctx.violation({"kind": "correspondence-broken", "correspondence": "Typed.builtin_sigs vs BuiltinRegistry::get_specs",
                       "builtin": n, "model": mine_sigs[n], "impl": real_sigs.get(n),
                       "what": "builtin_result_typed is proved about a signature the code no longer registers"}, no_input=True)
    for n in unmirrored:
        ctx.violation({"kind": "theorem-broken", "theorem": "builtin_result_typed (coverage)",
                       "what": "registered pure builtin %s has no row in Typed.builtin_sigs" % n}, no_input=True)

    oracle = Oracle(ctx, typed, drv)
    nilable = [n for n, (p_, r_) in real_sigs.items() if isinstance(r_, list) and r_[0] == "union" and ["tuple", "-"] in r_[1:]]
    clf = Classifier(oracle, nilable)
    if getattr(ctx, "replay_path", None):
        # ./check C01 --replay <file>: re-judge the recorded source on the current tree
        import json
        obj = json.load(open(ctx.replay_path))
        src = obj.get("source") or obj.get("original_source") or ""
        mods = [tuple(m) for m in obj.get("modules", [])]
        rec = oracle.run_sources([dict(src=src, mods=mods, origin="replay")])[0]
        cov["replay"] = {"status": rec["status"], "verdict": rec["verdict"], "failure": rec["failure"], "raw": rec["raw"]}
        print("replay: status=%s verdict=%s failure=%s" % (rec["status"], rec["verdict"], rec["failure"]))
        if rec["failure"]:
            names = clf.classify(src, mods, rec["failure"]) or [None]
            for nm in names:
                ctx.violation({"kind": "impl-violation", "oracle": rec["failure"]["kind"], "finding_signature": nm,
                               "source": src, "modules": mods, "failure": rec["failure"]},
                              finding_key=FINDING_IDS.get(nm, nm) if nm else None)
        cov["evaluations"] = 1
        return
    from vplib import testsrc
    from vplib.props import c01gen

    batches = []           # (label, items)
    corpus = corpus_items()
    for it in corpus:
        it["feats"] = features_of(it["src"])
    batches.append(("corpus", corpus))
    repo = [dict(src=s, origin=o, mods=[]) for o, s in testsrc.all_sources()]
    if ctx.tier != "thorough":
        # quick: a seeded sample of the repository sources (all of them in thorough)
        keep = ctx.rng.sample(range(len(repo)), min(len(repo), 450))
        repo = [repo[i] for i in sorted(keep)]
    batches.append(("repo", repo))
    # mutations of repository sources
    pool = [it["src"] for it in repo if len(it["src"]) < 1500]
    muts = []
    for _ in range(ctx.n(500, 12000)):
        if not pool:
            break
        s = ctx.rng.choice(pool)
        m = mutate(ctx.rng, s, pool)
        if m:
            muts.append(dict(src=m[1], origin="mutation:" + m[0], mods=[], mutation=m[0]))
    batches.append(("mutated", muts))
    gstats = {}
    gens = []
    for _ in range(ctx.n(900, 40000)):
        g = c01gen.generate(ctx.rng, gstats)
        gens.append(dict(src=g["src"], origin="gen:" + (g.get("probe") or "typed"), mods=[], gen_feats=g["feats"], probe=g.get("probe")))
    batches.append(("generated", gens))
    # core fragment (coq/theories/typed/Core.v): generated programs go through the oracle like all
    # others AND are compared with the extracted judgement / evaluator (below)
    from vplib.props import c01core
    core_stats = {}
    core_progs = [c01core.generate(ctx.rng, core_stats) for _ in range(ctx.n(400, 8000))]
    batches.append(("core", [dict(src=cp["src"], origin="gen:core", mods=[], gen_feats=["core_fragment"], core=cp) for cp in core_progs]))

    all_failures = []
    core_recs = []
    per_batch = {}
    feat_hist = {}
    accepted_feat_hist = {}
    samples = []
    seen_hashes = set()
    distinct_nontrivial = 0
    for label, items in batches:
        before = dict(oracle.stats)
        recs = oracle.run_sources(items)
        if label == "core":
            core_recs = list(recs)
        apps = oracle.applications(recs, ctx.n(3, 6))
        recs2 = oracle.run_sources(apps) if apps else []
        per_batch[label] = {k: oracle.stats[k] - before[k] for k in oracle.stats if oracle.stats[k] != before[k]}
        for rec in recs + recs2:
            it = rec["item"]
            feats = it.get("gen_feats") or features_of(it["src"])
            for f in feats:
                feat_hist[f] = feat_hist.get(f, 0) + 1
            if rec["status"] == "accepted":
                for f in feats:
                    accepted_feat_hist[f] = accepted_feat_hist.get(f, 0) + 1
                h = hashlib.sha1(it["src"].encode()).hexdigest()
                if h not in seen_hashes:
                    seen_hashes.add(h)
                    if rec["verdict"] in ("accept", "reject") and len(feats) >= 2:
                        distinct_nontrivial += 1
                        if len(samples) < 12 and ctx.rng.random() < 0.02:
                            samples.append({"source": it["src"][:600], "origin": it.get("origin"), "verdict": rec["verdict"], "features": feats})
            if rec["failure"]:
                all_failures.append(rec)

    # ---------------- the core judgement against the real compiler, the core evaluator against the real VM
    core_cmp = dict(type_eq_value_eq=0, both_reject=0, compiler_only_accepts=0, judgement_only_accepts=0,
                    type_differs=0, value_differs=0, real_run_not_ok=0, outside_fragment_type=0)
    core_examples = []
    if core_progs:
        _, couts = ctx.run_sharded(drv, [cp["sexp"] for cp in core_progs], timeout=1500)
        for cp, m, rec in zip(core_progs, couts, core_recs):
            mt = mv = None
            if m.startswith("(ty ") and not m.startswith("(ty none"):
                ps = sexpr.parse("(" + m + ")")
                mt = c01core.norm(c01core.parse_ty(ps[0][1]))
                mv = m[m.index("(val ") + 5:-1]
            r = rec["run"]
            if rec["status"] != "accepted":
                core_cmp["both_reject" if mt is None else "judgement_only_accepts"] += 1
                continue
            if mt is None:
                core_cmp["compiler_only_accepts"] += 1
                if len(core_examples) < 4:
                    core_examples.append({"class": "compiler_only_accepts", "source": cp["src"]})
                continue
            if r is None or r.kind != "ok":
                core_cmp["real_run_not_ok"] += 1          # the oracle above has judged that run
                continue
            try:
                types, tuples = parse_tables(r.tables)
                rt = c01core.real_type(types, tuples, r.rtype)
                rv = c01core.real_value(sexpr.parse(r.value), tuples)
            except (ValueError, IndexError):
                rt = rv = None
            if rt is None:
                core_cmp["outside_fragment_type"] += 1
                continue
            rt = c01core.norm(rt)
            if rt != mt:
                core_cmp["type_differs"] += 1
            if rv != mv:
                core_cmp["value_differs"] += 1
            if rt == mt and rv == mv:
                core_cmp["type_eq_value_eq"] += 1
            elif sum(core_cmp[k] for k in ("type_differs", "value_differs")) <= 4:
                # the real run itself was judged by the oracle (value in the compiler's type); a
                # difference here means the Coq judgement / evaluator no longer describes the code
                ctx.violation({"kind": "correspondence-broken",
                               "correspondence": "typed/Core.v infer/eval vs the real compiler's inferred type / the real VM's value",
                               "source": cp["src"], "core_program": cp["sexp"],
                               "model": m, "impl_type": repr(rt), "impl_value": rv}, no_input=True)
    cov["core_fragment_programs"] = len(core_progs)
    cov["core_fragment_comparison"] = core_cmp
    cov["core_fragment_generator_stats"] = core_stats
    cov["core_fragment_examples"] = core_examples

    # ---------------- failures: classify (semantic signatures), shrink the unknown ones, report
    finding_hits = {}
    unknown = []
    reported = 0
    # classification re-runs VARIANTS of the failing program on the real compiler; quick tier
    # classifies every corpus/repository failure and a bounded sample per (origin, oracle) group
    # regression probes of REPAIRED findings (corpus/c01_regressions.txt) must not fail at all:
    # they are reported directly, whatever signature they would match
    for rec in [r for r in all_failures if r["item"].get("must_pass")]:
        it = rec["item"]
        ctx.violation({"kind": "impl-violation", "oracle": "regression probe of a repaired finding fails again: " + rec["failure"]["kind"],
                       "source": it["src"], "modules": it.get("mods", []), "origin": it.get("origin"), "failure": rec["failure"]})
    all_failures = [r for r in all_failures if not r["item"].get("must_pass")]
    groups = {}
    for rec in all_failures:
        it = rec["item"]
        origin = it.get("origin", "?")
        g = (origin if origin.startswith(("gen:", "mutation:")) else "repo", rec["failure"]["kind"], rec["failure"].get("cls"))
        groups.setdefault(g, []).append(rec)
    per_group = ctx.n(3, 40)
    chosen = []
    for g, rs in sorted(groups.items(), key=str):
        chosen += rs if g[0] == "repo" else rs[:per_group]
    cov["failures_total"] = len(all_failures)
    cov["failures_classified"] = len(chosen)
    cache = {}
    for rec in chosen:
        it = rec["item"]
        key = hashlib.sha1(it["src"].encode()).hexdigest()
        if key not in cache:
            cache[key] = clf.classify(it["src"], it.get("mods", []), rec["failure"])
        names = cache[key]
        rec["finding"] = names
        if names:
            for nm in names:
                finding_hits[nm] = finding_hits.get(nm, 0) + 1
        else:
            unknown.append(rec)
    first_of = {}
    for rec in chosen:
        for nm in rec.get("finding") or []:
            if nm not in first_of or len(rec["item"]["src"]) < len(first_of[nm]["item"]["src"]):
                first_of[nm] = rec
    for nm, rec in sorted(first_of.items()):
        it = rec["item"]
        ctx.violation({"kind": "impl-violation", "oracle": rec["failure"]["kind"], "finding_signature": nm,
                       "source": it["src"], "modules": it.get("mods", []), "origin": it.get("origin"),
                       "failure": rec["failure"], "count_this_run": finding_hits[nm]}, finding_key=FINDING_IDS.get(nm, nm))
    for rec in unknown:
        if reported >= 6:
            break
        it = rec["item"]
        small = shrink(oracle, it["src"], it.get("mods", []), rec["failure"])
        names = clf.classify(small, it.get("mods", []), rec["failure"]) if small != it["src"] else None
        if names:
            for nm in names:
                finding_hits[nm] = finding_hits.get(nm, 0) + 1
                ctx.violation({"kind": "impl-violation", "oracle": rec["failure"]["kind"], "finding_signature": nm,
                               "source": small, "original": it["src"], "failure": rec["failure"]}, finding_key=FINDING_IDS.get(nm, nm))
            continue
        reported += 1
        ctx.violation({"kind": "impl-violation",
                       "oracle": "accepted program: " + rec["failure"]["kind"],
                       "source": small, "original_source": it["src"], "modules": it.get("mods", []),
                       "origin": it.get("origin"), "failure": rec["failure"],
                       "replay": "echo %s | .cache/cargo-target/debug/qv_typed" % q(q(small))})

    st = oracle.stats
    cov["evaluations"] = st["programs"]
    cov["programs"] = st["programs"]
    cov["programs_detail"] = dict(st)
    cov["per_batch"] = per_batch
    cov["distinct_nontrivial"] = distinct_nontrivial
    cov["rule"] = "distinct source text, accepted by the real compiler, ran to a value that the extracted judgement decided (accept/reject, not undecided), and exercising >= 2 of the listed language features"
    cov["samples"] = samples
    cov["traces_validated_against_impl"] = st["judged"]
    cov["disagreements_checked"] = len(all_failures)
    cov["feature_histogram_all"] = feat_hist
    cov["feature_histogram_accepted"] = accepted_feat_hist
    cov["generator_stats"] = gstats
    cov["runtime_error_classes"] = oracle.errhist
    cov["result_depth_histogram"] = oracle.depth_hist
    cov["failures_per_known_finding"] = finding_hits
    cov["failures_unclassified"] = len(unknown)
    cov["vm_panic_list"] = oracle.panic_list[:20]
    cov["failure_list"] = [{"finding": r.get("finding"), "origin": r["item"].get("origin"), "failure": r["failure"],
                            "source": r["item"]["src"][-700:]} for r in (unknown + [r for r in chosen if r.get("finding")])[:60]]
    cov["inputs_per_function"] = round(st["applications"] / st["functions_applied"], 2) if st["functions_applied"] else 0
    cov["results_checked_by_inhabb"] = st["judged"]
    if not ok:
        ctx.violation({"kind": "theorem-broken", "theorem": getattr(ctx, "broken_theorem", "props/C01.v"),
                       "what": "the Coq cone of props/C01.v no longer checks; oracle run found %d unclassified failures" % len(unknown)},
                      no_input=True)
