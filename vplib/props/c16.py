"""C16 — tail calls run in constant space.

theorem layer : coq/theories/props/C16.v (for every program the verifier accepts: a tail call
                keeps the frame count, re-enters on the same stack base and locals base with only the
                new captures as locals; per-function bounds hold for every activation)
translation validation : the extracted verifier accepts a tail call only with the exact call shape
                on the stack; it runs on every compiled function (shared with C07)
impl oracle   : generated tail-recursive shapes run on the REAL VM with profiling at N and 50 N:
                peak frames / locals / operand stack and heap slots must be equal."""
import re
from vplib import sexpr

MANIFEST = dict(
    category="proof",
    text="Coq theorems tailcall_constant_space / per_function_bounds / run_sound: in any program the bytecode verifier accepts, every tail call (`^`, `^f`, `^~`) leaves the frame count unchanged and re-enters the callee at pc 0 on the same operand-stack base and locals base with only the callee's captures as locals, on every execution; so the n-th re-entry has the configuration of the first; run_space_bound (global form): in every state a verified program reaches from a spawn, operand stack <= #frames x Hmax and locals <= #frames x Lmax with Hmax/Lmax the verifier's per-point maxima, and a tail call never adds a frame (tailcall_keeps_frame_count) - space depends on the depth of pending non-tail calls only, never on the number of tail-call iterations (checked against the real executor's profiled peaks on every measured run). The verifier (which demands the exact call shape at every tail call) is run on all compiled functions; tail-recursive shapes are measured on the real VM at N and 50N (frames, locals, stack, heap slots).",
    design_ref="§5 C16",
    note="Trusted as C07. Reclamation of binaries dropped by an iteration is measured on the real VM here (heap slots at N vs 50N) and is the subject of C06's model; the theorem part covers frames, locals and operand stack.",
    technique="Coq proof over the verified-bytecode invariant + translation validation + measured space on the real VM at N and 50N",
)

SHAPES = [
    ("self-tail", "f = #'int { | =0 => 0 | [~, 1] __integer_subtract__ ^ }, %d f"),
    ("self-tail-pair", "f = #['int, 'int] { | =[0, y] => y | =[x, y] => [[x, 1] __integer_subtract__, [y, x] __integer_add__] ^ }, [%d, 0] f"),
    ("tail-into-loop", "g = #'int { | =0 => 0 | [~, 1] __integer_subtract__ ^ }, f = #'int { [~, 1] __integer_add__ ^g }, %d f"),
    ("binary-per-iteration", "f = #['int, 'bin] { | =[0, b] => b | =[x, b] => [[x, 1] __integer_subtract__, [[b, 0x01] __binary_concat__, 1, 2] __binary_slice__] ^ }, [%d, 0x00] f"),
    ("nested-block", "f = #'int { | =0 => 0 | =x => { x { | =1 => 0 ^ | [~, 1] __integer_subtract__ ^ } } }, %d f"),
    ("closure-capture", "k = 1, f = #'int { | =0 => k | [~, k] __integer_subtract__ ^ }, %d f"),
    ("mono-relay", "relay = #[['int, #^ -> Ok], #['int, #^ -> Ok] -> Ok] { =[x, k], x ^k }, count = #['int, #^ -> Ok] { | =[0, _] => Ok | =[n, self] => [[[n, 1] __integer_subtract__, &self], &self] ^relay }, [%d, &count] count"),
    ("generic-relay", "relay = #<'t>['t, #'t -> Ok] { =[x, k], x ^k }, count = #['int, #^ -> Ok] { | =[0, _] => Ok | =[n, self] => [[[n, 1] __integer_subtract__, &self], &self] ^relay }, [%d, &count] count"),
    ("callback-self", "count = #['int, #^ -> 'int] { | =[0, _] => 0 | =[n, self] => [[n, 1] __integer_subtract__, &self] ^self }, [%d, &count] count"),
    ("generic-accumulator", "go = #<'t>['int, 't, #['int, 't, ^] -> 't] { | =[0, acc, _] => acc | =[n, acc, self] => [[n, 1] __integer_subtract__, acc, &self] ^self }, [%d, 0x01, &go] go"),
    ("named-tail-self", "f = #'int { | =0 => 0 | =x => { [x, 1] __integer_subtract__ ^ } }, %d f"),
    ("binary-dropped-in-branch", "f = #['int, 'bin] { | =[0, b] => b __binary_length__ | =[x, b] => { [b, b] __binary_concat__ =c, [[x, 1] __integer_subtract__, [c, 0, 1] __binary_slice__] ^ } }, [%d, 0xff] f"),
]


def run(ctx):
    ok = ctx.coq_props()
    qs = ctx.harness("qv_space")
    if not qs:
        return
    n0s = [50, 120] if ctx.tier == "quick" else [50, 120, 400, 1000]
    cases, meta = [], []
    for name, tmpl in SHAPES:
        for n in n0s:
            extra = ctx.rng.randint(0, 7)
            for m in (n + extra, 50 * (n + extra)):
                cases.append(sexpr.quote(tmpl % m))
                meta.append((name, n + extra, m))
    rc, out = ctx.run_sharded(qs, cases, shards=16, timeout=1500)
    evals = 0
    pairs = 0
    bad = 0
    samples = []
    skipped = []
    for i in range(0, len(cases), 2):
        a, b = out[i], out[i + 1]
        name, n, _ = meta[i]
        evals += 2
        if not a.startswith("(space (ok") or not b.startswith("(space (ok"):
            if a.startswith("(compile-error") or a.startswith("(parse-error"):
                skipped.append((name, a))
                continue
            bad += 1
            ctx.violation({"kind": "impl-violation", "what": "tail-recursive shape did not run to completion",
                           "shape": name, "N": n, "at_N": a, "at_50N": b, "source": cases[i]})
            continue
        pa = dict(re.findall(r"\((stack|locals|frames|heap-slots|heap-live) (\d+)\)", a))
        pb = dict(re.findall(r"\((stack|locals|frames|heap-slots|heap-live) (\d+)\)", b))
        pairs += 1
        if pa != pb:
            bad += 1
            ctx.violation({"kind": "impl-violation", "what": "space grows with the number of tail-call iterations",
                           "shape": name, "N": n, "at_N": pa, "at_50N": pb, "source_N": cases[i], "source_50N": cases[i + 1]})
        if len(samples) < 4:
            samples.append({"shape": name, "N": n, "at_N": pa, "at_50N": pb})
    # translation validation: the extracted verifier (which accepts a tail call only with the exact
    # call shape on the operand stack) on every shape above and on message-driven nilary loops,
    # which a synchronous run cannot iterate
    tv_rejected = tv_ok = 0
    qc = ctx.harness("qv_compile")
    drv = ctx.driver("wf")
    if qc and drv:
        loops = []
        for msgs in (["Tick"], ["Tick", "Add"], ["Add"]):
            for flow in ("=%s[_] => ^", "=%s[x] => x ^", "=%s[x] => [x, 1] __integer_add__ ^"):
                arms = " ".join("| " + (flow % m) for m in msgs)
                decl = " | ".join("%s['int]" % m for m in msgs)
                loops.append("'m = Stop | %s, loop = #{ !#'m { | =Stop => Ok %s } }, p = @loop, %s, Stop p, !p" % (
                    decl, arms, ", ".join("%s[%d] p" % (m, j) for j, m in enumerate(msgs))))
        tv_src = [tmpl % 7 for _, tmpl in SHAPES] + loops
        rc1, comp = ctx.run_bin(qc, [sexpr.quote(x) for x in tv_src], timeout=900)
        rc2, ver = ctx.run_bin(drv, comp, timeout=900)
        for src, c, v in zip(tv_src, comp, ver):
            if not c.startswith("(compiled"):
                continue
            if " reject " in v:
                tv_rejected += 1
                ctx.violation({"kind": "translation-validation-rejection",
                               "what": "the verified bytecode checker (exact call shape at every tail call) rejects a tail-recursive function the compiler emitted",
                               "source": src, "verdict": v[:400]}, no_input=True)
            else:
                tv_ok += 1
        # the global theorem C16_run_space_bound, evaluated on the real runs: at every moment
        # |stack| <= #frames * Hmax and |locals| <= #frames * Lmax, hence the same between the peaks the
        # executor's profiler recorded, with Hmax / Lmax as the extracted verifier computed them
        bounds = {}
        for (name, _), c, v in zip(SHAPES, comp, ver):
            m = re.search(r"\(as-compiled ok (\d+) (\d+) (\d+) (\d+)\)", v)
            if m:
                bounds[name] = (int(m.group(3)), int(m.group(4)))
        bound_checked = bound_failed = 0
        for (name, n, mm), o in zip(meta, out):
            if name not in bounds or not o.startswith("(space (ok"):
                continue
            pk = {k: int(x) for k, x in re.findall(r"\((stack|locals|frames) (\d+)\)", o)}
            hmax, lmax = bounds[name]
            bound_checked += 1
            if pk["stack"] > pk["frames"] * hmax or pk["locals"] > pk["frames"] * lmax:
                bound_failed += 1
                ctx.violation({"kind": "correspondence-broken",
                               "correspondence": "C16_run_space_bound (|stack| <= frames*Hmax, |locals| <= frames*Lmax) vs the real executor's profiled peaks",
                               "shape": name, "iterations": mm, "peaks": pk, "Hmax": hmax, "Lmax": lmax}, no_input=True)
        ctx.cov["space_bound_theorem_checked_on_real_runs"] = bound_checked
        ctx.cov["space_bound_theorem_failed_on_real_runs"] = bound_failed
        ctx.cov["verifier_bounds_per_shape"] = {k: {"Hmax": v[0], "Lmax": v[1]} for k, v in bounds.items()}
    ctx.cov["tail_recursive_programs_verified"] = tv_ok
    ctx.cov["tail_recursive_programs_rejected"] = tv_rejected
    ctx.cov.update({
        "evaluations": evals, "distinct_nontrivial": pairs,
        "rule": "each tail-recursive shape (self `^`, `^f` into a loop, pair accumulator, from nested blocks/branches, with closures, with binaries created and dropped per iteration) is run on the real VM with profiling at N and 50N for several N; non-trivial = both runs completed and were compared; distinct by (shape, N)",
        "samples": samples, "shapes": [s for s, _ in SHAPES], "shapes_skipped_not_compiling": skipped,
        "traces_validated_against_impl": pairs, "disagreements_checked": bad,
    })
    if skipped:
        # a shape of ours that does not compile is a harness problem, not a finding: report it in the evidence
        ctx.cov["note"] = "some shapes did not compile on this tree and were skipped"
    if not ok:
        ctx.violation({"kind": "theorem-broken", "theorem": getattr(ctx, "broken_theorem", "?"),
                       "searched": "%d N/50N pairs on the real VM, %d grew" % (pairs, bad)}, no_input=(bad == 0))
