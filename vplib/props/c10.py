"""C10 — packaging steps preserve behaviour: tree-shake, serialise, merge, import.

theorem layer : coq/theories/props/C10.v — `is_renaming rho X X' = true` implies a lock-step simulation
                on the machine of vm/Vm.v (values, frames, faults mapped through rho; IsType / Equal
                verdicts computed from each side's own type_compatibility rows and canonical_tuples);
                `value_reemit`: the code `value_to_instructions_from_cache` emits pushes exactly the value
models        : vm/RemapShake.v (tree_shake) and vm/RemapMerge.v (merge_bytecode) — proved to produce structural
                renamings (tree_shake: every well-formed program; merge: under named decidable premises); each run
                compares their OUTPUT with the real functions' output (exact equality of the dumped Bytecode) and
                evaluates the merge premises on every real merge
translation validation : for every corpus / generated program the REAL code produces the four packagings
                (as compiled, tree_shake, serde_json round trip, merge_bytecode behind 0-3 earlier
                programs in a real Environment); the harness rebuilds rho by a structural worklist from
                the entries and dumps full tables + the real type_compatibility rows / canonical_tuples;
                the EXTRACTED `is_renaming` must accept (as-compiled -> tree-shaken) and (merged source ->
                environment program). The JSON leg is compared field-wise (validation, not proof).
correspondence / search : every program is RUN on the real VM in all packagings (3 bounded single-executor
                runs + 2 real Environment/Worker runs) and the canonical results compared; a difference is
                an impl-violation with the source as replay. A validator rejection whose runs agree is
                reported `no-failing-input-found`.
import leg    : generated modules M: `%m`, `%m.f`, `x %m.f` vs the module body evaluated in place."""
import hashlib, re
from vplib import sexpr, testsrc

MANIFEST = dict(
    category="proof",
    text="Coq theorems (props/C10.v, 19, all closed under the global context). (A) Validator: renaming_simulation — whenever `is_renaming rho X X'` (= struct_ok && rows_ok && canon_ok X && canon_ok X') accepts, every function reachable from the entry (renaming_covers_reachable), on every argument / captured environment / sequence of outside inputs (mapped through rho), runs in lock step in both programs on the VM model of executor.rs (vm/Vm.v, itself tied to executor.rs by C07's value-level lock-step check): same fault, or rho-related next state / final value, with IsType and Equal verdicts COMPUTED from each program's own type_compatibility rows and canonical tuple ids (verdicts_commute; canonical ids via C13's shape theorem), under the hypothesis that tuple values reaching a run-time type test carry a tuple id with a Type::Tuple entry (C08's has_type_entry obligation); struct_simulation_ext: the structural part alone gives the simulation with verdicts as outside inputs; wf_stable_under_renaming. (B) tree_shake (optimisation.rs) is MODELLED (vm/RemapShake.v: guarded reachability marking over functions/constants/tuples/types/builtins incl. Callable.receive, Process send/receive and the first Type::Tuple entry of every constructed tuple; rank remap tables; emission order; unwrap vs unwrap_or) and PROVED: tree_shake_struct — for EVERY well-formed program the model does not panic and its output is a structural renaming of the input under the tables it computed; tree_shake_simulation — hence every tree-shake preserves behaviour step for step (verdicts as inputs); tree_shake_is_renaming — full renaming given the loader-table premise rows_ok. (C) merge_bytecode (environment.rs import_type/import_tuple/remap_function + program.rs register_*) is MODELLED (vm/RemapMerge.v) and PROVED partial: merge_struct / merge_simulation / merge_is_renaming — behind ANY accumulated program E, whenever the model returns (no panic, no id cycle) and under the named decidable premises merge_premises (Function operands point backwards, no Process instruction, NIL/OK head the tuple tables, same-name builtins have the imported signature, dedup identifies no two functions/builtins), the grown program is a structural renaming; merge_premises_needed: each premise is necessary (model witnesses; the forward-reference one replayed on the real merge_bytecode). Every run compares both models' OUTPUT with the real functions' output on every program (exact equality of the dumped Bytecode) and evaluates the premises on every real merge. (D) value_reemit / inject_rebuilds_captures for imports. What stays VALIDATED ONLY: the type_compatibility rows (rows_ok: recomputed by every loader through is_compatible — checked on the real dumped tables for every packaging), the serde_json leg (field-wise equality of the round trip + run), and the models' fidelity (differential, not proof).",
    design_ref="§5 C10",
    note="Trusted: Coq kernel; extraction (ExtrOcamlBasic) and the OCaml driver; the Rust harness (dump of Bytecode, reconstruction of rho — rho is untrusted input to the validator, a wrong rho can only cause a rejection); vm/Vm.v is the hand-written per-process model shared with C07 (tied to executor.rs by C07's trace correspondence); binaries are opaque handles there, so constant BYTES are checked by the validator but their allocation is an outside input. serde_json / serde derives are not modelled. `Instruction::Process` (REPL `@N`) is validated with tree_shake's reading (function index renamed); environment.rs remap_function leaves it alone, which is right for the only producer (the REPL passes an environment-space index and never tree-shakes) — see the report.",
    technique="Coq models of tree_shake and merge_bytecode proved to yield renamings + Coq-verified renaming validator (simulation proof) + model-vs-real output equality and translation validation on every real tree-shake / merge + real-VM differential runs of all packagings + import-vs-inline differential",
)

IO_BUILTINS = re.compile(r"__(file|tcp|dns|directory|filesystem|socket|stdin|stdout|time|random)[a-z_]*__|%(file|fs|dns|socket|tcp|io)\b")
STD = ("bin", "dict", "int", "iter", "list", "num", "path", "range", "ref", "str", "vec")
HEAD = re.compile(r"\(packaged \(runs \(s-ac (.*)\) \(s-ts (.*)\) \(s-js (.*)\) \(e-base (.*)\) \(e-mg (.*?)\)\) "
                  r"\(json ([^)]*)\) \(k (\d+)\) \(merged (\w+)\) \(stats ((?:\([^()]*\) ?)*)\)")


def generated_sources(ctx, base, n):
    """Seeded mutations of corpus programs (as C07): new nesting contexts for the same constructs, and
    programs sharing sub-programs so that merges deduplicate."""
    out = []
    rng = ctx.rng
    pool = [s for _, s in base if "\n" not in s.strip() and len(s) < 200 and "%" not in s]
    for _ in range(n):
        a = rng.choice(pool)
        kind = rng.randrange(7)
        if kind == 0:
            out.append(("gen:fn", "f = #{ %s }, [] f" % a))
        elif kind == 1:
            out.append(("gen:block", "{ %s }" % a))
        elif kind == 2:
            out.append(("gen:seq", "%s, %s" % (a, rng.choice(pool))))
        elif kind == 3:
            out.append(("gen:field", "[{ %s }, 1]" % a))
        elif kind == 4:
            out.append(("gen:branch", "1 { | =0 => 2 | { %s } }" % a))
        elif kind == 5:
            out.append(("gen:nested-fn", "g = #{ f = #{ %s }, [] f }, [] g" % a))
        else:
            out.append(("gen:dead", "dead = #{ %s }, %s" % (rng.choice(pool), a)))
    return out


# ------------------------------------------------------------------ import leg

def gen_value(rng, depth=0):
    """A Quiver expression for a closed value (no process / resource / ref), with its bindings."""
    r = rng.random()
    if depth > 2 or r < 0.3:
        return rng.choice(["0", "1", "-7", "42", "9223372036854775808", "340282366920938463463374607431768211456",
                           "0xff", "0x00ff10", "\"hello\"", "\"\"", "[]", "Ok", "Nil"])
    if r < 0.55:
        n = rng.randint(1, 3)
        return "[%s]" % ", ".join(gen_value(rng, depth + 1) for _ in range(n))
    if r < 0.8:
        n = rng.randint(1, 3)
        labels = rng.sample(["p", "q", "r", "s"], n)
        name = rng.choice(["", "P", "Q", "Pair"])
        return "%s[%s]" % (name, ", ".join("%s: %s" % (l, gen_value(rng, depth + 1)) for l in labels))
    return rng.choice(["&__integer_add__", "&__integer_multiply__", "P[1, Q[2, 0x01]]", "[[1, 2], [3, [4, 5]]]"])


def gen_import_case(rng):
    """(use source, module source, in-place source)."""
    k = rng.choice([1, 2, 10, 42, 1000000007])
    fields = []
    n = rng.randint(1, 3)
    for l in rng.sample(["a", "b", "c", "d"], n):
        fields.append((l, gen_value(rng)))
    fn_kind = rng.randrange(4)
    if fn_kind == 0:       # captures one integer
        fn = "#'int { [~, k] __integer_add__ }"
    elif fn_kind == 1:     # captures a function that captures an integer
        fn = "#'int { inner [~, 2] __integer_multiply__ }"
    elif fn_kind == 2:     # no capture
        fn = "#'int { [~, 3] __integer_multiply__ }"
    else:                  # captures a tuple value
        fn = "#'int { [~, t.0] __integer_subtract__ }"
    body = "k = %d, t = [k, %s], inner = #'int { [~, k] __integer_add__ }, [%s, f: %s, k: k]" % (
        k, gen_value(rng), ", ".join("%s: %s" % f for f in fields), fn)
    arg = rng.choice(["0", "5", "-3", "9223372036854775807"])
    mode = rng.randrange(4)
    if mode == 0:
        return ("%m", body, "{ %s }" % body)
    if mode == 1:
        l = rng.choice(fields)[0]
        return ("%%m.%s" % l, body, "m = { %s }, m.%s" % (body, l))
    if mode == 2:
        return ("%s %%m.f" % arg, body, "m = { %s }, %s m.f" % (body, arg))
    return ("g = #'int { %%m.f }, [%s g, %%m.k]" % arg, body, "m = { %s }, g = #'int { m.f }, [%s g, m.k]" % (body, arg))


def corpus_lines(name):
    import os
    from vplib.common import VERIF
    p = os.path.join(VERIF, "corpus", name)
    if not os.path.exists(p):
        return []
    return [l.rstrip("\n") for l in open(p) if l.strip() and not l.startswith("#")]


def tamper(line, how):
    """Seeded corruption of a packaged line (negative control for the validator)."""
    i = line.find("(prog ts ")
    if i < 0:
        return None
    head, rest = line[:i], line[i:]
    if how == "const":
        m = re.match(r"(\(prog ts \(entry \d+\) \(consts \(i )(-?\d+)\)", rest)
        if not m:
            return None
        return head + m.group(1) + str(int(m.group(2)) + 1) + ")" + rest[m.end():]
    if how == "instr":
        j = rest.find("(pop)")
        k = rest.find("(prog mg ")
        if j < 0 or (k >= 0 and j > k):
            return None
        return head + rest[:j] + "(dup)" + rest[j + 5:]
    if how == "row":
        m = re.search(r"\(rho ts .*?\(rows-dst \(row \d+ present \(flags (\d)", line)
        if not m:
            return None
        return line[:m.start(1)] + ("0" if m.group(1) == "1" else "1") + line[m.end(1):]
    if how == "tuple-name":
        # a named tuple of `ts` that an instruction of `ts` builds (so it is certainly mapped)
        k = rest.find("(prog mg ")
        sect = rest[:k] if k >= 0 else rest
        m = re.search(r"\(tuples \(tup - \(\)\) \(tup \"Ok\" \(\)\) \(tup \"([A-Za-z]+)\"", sect)
        if not m or "(tuple 2)" not in sect:
            return None
        return head + rest[:m.start(1)] + "Zz" + rest[m.end(1):]
    return None


def run(ctx):
    ok = ctx.coq_props()
    qp = ctx.harness("qv_package")
    drv = ctx.driver("remap")
    if not qp or not drv:
        return
    rng = ctx.rng
    base = testsrc.all_sources()
    base += [("std:%s" % m, "%" + m) for m in STD]
    extra = [("corpus:c10_sources#%d" % i, sexpr.parse(l)) for i, l in enumerate(corpus_lines("c10_sources.txt"))]
    srcs = extra + base + generated_sources(ctx, base, ctx.n(600, 12000))
    srcs = [(o, s) for o, s in srcs if isinstance(s, str) and not IO_BUILTINS.search(s)]
    pool = [s for _, s in srcs if len(s) < 300 and "\n" not in s.strip()]
    lines, meta = [], []
    for i, l in enumerate(corpus_lines("c10_cases.txt")):
        items = sexpr.parse("(" + l + ")")
        behind = next((x[1:] for x in items[1:] if isinstance(x, list) and x and x[0] == "behind"), [])
        which = next((x[1] for x in items[1:] if isinstance(x, list) and x and x[0] == "merge"), "ts")
        lines.append(l)
        meta.append(("corpus:c10_cases#%d" % i, items[0], behind, which))
    for o, s in srcs:
        k = rng.choice([0, 1, 1, 2, 2, 3])
        # earlier programs: unrelated ones, sometimes the program itself or a mutation of it (dedup)
        behind = []
        for _ in range(k):
            r = rng.random()
            behind.append(s if r < 0.15 else rng.choice(pool))
        which = rng.choice(["ac", "ts", "ts"])
        lines.append("%s (behind %s) (merge %s)" % (sexpr.quote(s), " ".join(sexpr.quote(b) for b in behind), which))
        meta.append((o, s, behind, which))

    # shard: package (real code) then validate (extracted Coq), per shard, order preserved
    import concurrent.futures as cf
    import os
    from vplib.common import NCPU as _NCPU
    NCPU = max(1, min(_NCPU, int(os.environ.get("VERIF_JOBS", str(_NCPU)))))   # shared machine: cap the fan-out
    shards = min(NCPU, max(1, len(lines) // 30))
    # interleave so that the big std programs spread over the shards
    chunks = [list(range(i, len(lines), shards)) for i in range(shards)]
    n_tamper = ctx.n(10, 40)

    def work(idx):
        chunk = [lines[i] for i in idx]
        rc, pk = ctx.run_bin(qp, chunk, timeout=1700)
        if len(pk) != len(chunk):
            return idx, None, None, [], []
        rc2, ver = ctx.run_bin(drv, pk, timeout=1700)
        heads, hashes = [], []
        for l in pk:
            j = l.find("(prog ac ")
            heads.append(l[:j] if j >= 0 else l[:2000])
            k = l.find("(prog ts ")
            hashes.append(hashlib.sha1(l[j:k].encode()).hexdigest() if j >= 0 else None)
        # negative controls on the first packaged lines of the shard
        tampered, tverd = [], []
        count = 0
        for l in pk:
            if count >= n_tamper or not l.startswith("(packaged"):
                continue
            for how in ("const", "instr", "row", "tuple-name"):
                t = tamper(l, how)
                if t is not None and t != l:
                    tampered.append((how, t))
            count += 1
        if tampered:
            rc3, tverd = ctx.run_bin(drv, [t for _, t in tampered], timeout=1700)
        return idx, list(zip(heads, hashes)), ver, [h for h, _ in tampered], tverd

    with cf.ThreadPoolExecutor(max_workers=shards) as ex:
        results = list(ex.map(work, chunks))
    heads = [None] * len(lines)
    verds = [None] * len(lines)
    neg_total = neg_rejected = 0
    neg_by_kind = {}
    neg_missed = []
    for idx, hh, ver, thow, tverd in results:
        if hh is None or ver is None or len(ver) != len(idx):
            ctx.violation({"kind": "correspondence-broken", "what": "harness/driver output misaligned in a shard",
                           "first_case": meta[idx[0]][1][:300]}, no_input=True)
            return
        for i, h, v in zip(idx, hh, ver):
            heads[i], verds[i] = h, v
        for how, tv in zip(thow, tverd):
            neg_total += 1
            # the corrupted table belongs to `ts`: the (ac -> ts) pair, the (ts -> mg) pair, or both must reject
            if "reject" in tv:
                neg_rejected += 1
                neg_by_kind[how] = neg_by_kind.get(how, 0) + 1
            elif len(neg_missed) < 3:
                neg_missed.append((how, tv[:300]))

    programs = validated = accepted = rejected = not_compiled = 0
    fns_mapped = ins_mapped = rows_checked = 0
    merges_shifted = merges_deduped = shaken_dropped = merged_ac = 0
    k_hist, kinds, outcome_hist, cross = {}, {}, {}, {}
    run_groups = 0
    model = {"shake same": 0, "shake differ": 0, "shake skip": 0, "merge same": 0, "merge differ": 0, "merge skip": 0,
             "merge premises-fail": 0, "driver-error": 0}
    seen, distinct = set(), 0
    samples = []
    json_same = 0
    for (origin, src, behind, which), (head, h), v in zip(meta, heads, verds):
        kd = origin.split(":")[0] if origin.startswith(("gen:", "std:", "corpus:")) else (
            "spec" if origin.startswith("spec") else ("qv-file" if origin.endswith(".qv") else "test-suite"))
        replay = {"source": src, "origin": origin, "behind": behind, "merged": which}
        if head.startswith(("(compile-error", "(parse-error")):
            not_compiled += 1
            continue
        if head.startswith("(panic"):
            # the compiler itself panicked on this source: not a packaging matter (C15/C01 report those)
            not_compiled += 1
            continue
        if not head.startswith("(packaged"):
            ctx.violation(dict(replay, kind="impl-violation", what="a packaging step failed on a program the compiler accepts",
                               outcome=head[:400]))
            continue
        m = HEAD.match(head)
        if not m:
            ctx.violation(dict(replay, kind="correspondence-broken", what="unparsable harness output", line=head[:400]), no_input=True)
            continue
        s_ac, s_ts, s_js, e_base, e_mg, js, k, merged, stats = m.groups()
        st = dict(re.findall(r"\(([\w-]+) (\d+)\)", stats))
        programs += 1
        kinds[kd] = kinds.get(kd, 0) + 1
        k_hist[k] = k_hist.get(k, 0) + 1
        merged_ac += merged == "ac"
        # ---- real VM: all packagings agree
        run_groups += 1
        oc = s_ts.split(" ")[0] + (" " + s_ts.split(" ")[1].rstrip(")") if s_ts.startswith("(err") else "")
        outcome_hist[oc] = outcome_hist.get(oc, 0) + 1
        differ = []
        if not (s_ac == s_ts):
            differ.append("as-compiled vs tree-shaken")
        if not (s_ts == s_js):
            differ.append("tree-shaken vs JSON round trip")
        if e_base != e_mg:
            differ.append("merged into a fresh environment vs merged behind %s programs" % k)
        if js.strip() == "same":
            json_same += 1
        else:
            differ.append("JSON round trip is not field-wise equal: " + js)
        runs = {"as-compiled": s_ac[:300], "tree-shaken": s_ts[:300], "json": s_js[:300],
                "environment (fresh)": e_base[:300], "environment (behind %s)" % k: e_mg[:300]}
        if differ:
            ctx.violation(dict(replay, kind="impl-violation", what="packagings of one program behave differently on the real VM",
                               differences=differ, runs=runs))
        if s_ts != e_base:
            key = "%s | %s" % (oc, e_base.split(" ")[0] + (" " + e_base.split(" ")[1].rstrip(")") if e_base.startswith("(err") else ""))
            cross[key] = cross.get(key, 0) + 1
            if s_ts.startswith("(ok") and e_base.startswith("(ok"):
                ctx.violation(dict(replay, kind="impl-violation",
                                   what="the same tree-shaken program gives different values on one executor and in an environment",
                                   runs=runs))
        # ---- translation validation
        for mm in re.finditer(r"\((ts|mg) (accept|reject|driver-error)((?: \([a-z]+ \d+\))*| \"(?:[^\"\\]|\\.)*\")\)", v or ""):
            validated += 1
            if mm.group(2) == "accept":
                accepted += 1
                nums = dict(re.findall(r"\((\w+) (\d+)\)", mm.group(3)))
                fns_mapped += int(nums.get("fns", 0)); ins_mapped += int(nums.get("ins", 0)); rows_checked += int(nums.get("rows", 0))
            else:
                rejected += 1
                pair = "as-compiled -> tree-shaken" if mm.group(1) == "ts" else "%s -> environment behind %s" % (merged, k)
                ctx.violation(dict(replay, kind="impl-violation" if differ else "translation-validation-rejection",
                                   what="the verified renaming validator rejects a real packaging output",
                                   pair=pair, verdict=mm.group(0)[:600], runs=runs), no_input=not differ)
        # ---- the Coq MODELS of tree_shake / merge_bytecode vs the real functions (exact output equality),
        # and the premises of the merge theorem on this real merge
        for mm in re.finditer(r"\((shake|merge) (same premises-fail|same|differ|skip|driver-error)([^()]*)\)", v or ""):
            what, verdict = mm.group(1), mm.group(2)
            if verdict == "same premises-fail":
                model["merge premises-fail"] += 1
                model["merge same"] += 1
            elif verdict == "driver-error":
                model["driver-error"] += 1
            else:
                model["%s %s" % (what, verdict)] += 1
            if verdict in ("differ", "driver-error"):
                real = "optimisation.rs tree_shake" if what == "shake" else "environment.rs merge_bytecode"
                ctx.violation(dict(replay, kind="impl-violation" if differ else "correspondence-broken",
                                   correspondence="vm/Remap%s.v (model) vs %s: dumped Bytecode not equal" % ("Shake" if what == "shake" else "Merge", real),
                                   verdict=mm.group(0)[:400], runs=runs), no_input=not differ)
        if not (v or "").startswith("(validated"):
            ctx.violation(dict(replay, kind="correspondence-broken", what="validator produced no verdict", line=(v or "")[:300]), no_input=True)
        shifted, deduped, dropped = int(st.get("shifted", 0)), int(st.get("deduped", 0)), int(st.get("dropped-fns", 0))
        merges_shifted += shifted > 0
        merges_deduped += deduped > 2          # NIL and OK are always shared
        shaken_dropped += dropped > 0
        if h not in seen:
            seen.add(h)
            if shifted > 0 or dropped > 0:
                distinct += 1
        if len(samples) < 4 and kd != "test-suite" and (shifted > 0 or dropped > 0):
            samples.append({"origin": origin, "source": src[:200], "behind": [b[:80] for b in behind], "merged": which,
                            "runs": {a: b[:120] for a, b in runs.items()}, "stats": st, "verdict": (v or "")[:300]})

    # ---- negative controls
    if neg_total and neg_rejected != neg_total:
        ctx.violation({"kind": "correspondence-broken", "what": "the validator accepted a corrupted packaging (negative control)",
                       "missed": neg_missed, "rejected": neg_rejected, "total": neg_total}, no_input=True)

    # ---- import leg
    qimp = []
    for l in corpus_lines("c10_imports.txt"):
        qimp.append(("corpus", l))
    for _ in range(ctx.n(400, 6000)):
        use, mod, inplace = gen_import_case(rng)
        qimp.append(("gen", "%s (mod \"m\" %s) (inplace %s)" % (sexpr.quote(use), sexpr.quote(mod), sexpr.quote(inplace))))
    rc, iout = ctx.run_sharded(qp, [l for _, l in qimp], args=["--import"], timeout=1500,
                               shards=min(NCPU, max(1, len(qimp) // 50)))
    imports = imp_ok = imp_skipped = 0
    imp_hist = {}
    for (o, l), out in zip(qimp, iout):
        m = re.match(r"\(import (\((?:ok|err|panic|compile-error|parse-error).*?\)) (\((?:ok|err|panic|compile-error|parse-error).*\))\)$", out)
        if not m:
            ctx.violation({"kind": "correspondence-broken", "what": "unparsable import output", "case": l[:400], "out": out[:300]}, no_input=True)
            continue
        a, b = m.groups()
        if a.startswith(("(compile-error", "(parse-error")) or b.startswith(("(compile-error", "(parse-error")):
            imp_skipped += 1
            if a.split(" ")[0] != b.split(" ")[0]:
                imp_hist["one-side-rejected"] = imp_hist.get("one-side-rejected", 0) + 1
            continue
        imports += 1
        cls = a.split(" ")[0]
        imp_hist[cls] = imp_hist.get(cls, 0) + 1
        if a == b:
            imp_ok += 1
        else:
            ctx.violation({"kind": "impl-violation", "what": "an imported value behaves differently from the module body evaluated in place",
                           "case": l, "imported": a[:400], "in_place": b[:400]})

    # ---- model of value_to_instructions_from_cache vs the real compiler: programs whose whole body is
    # an import are packaged like any other program; the driver re-emits the value with the model
    pure = []
    for o, l in qimp:
        items = sexpr.parse("(" + l + ")")
        if re.fullmatch(r"%m(\.\w+)*", items[0].strip()):
            mods = " ".join("(mod %s %s)" % (sexpr.quote(x[1]), sexpr.quote(x[2])) for x in items[1:] if isinstance(x, list) and x[0] == "mod")
            pure.append("%s %s (behind) (merge ts)" % (sexpr.quote(items[0]), mods))
    pure = pure[:ctx.n(250, 3000)]
    emit_same = emit_skip = emit_differ = emit_instrs = 0

    def emit_work(chunk):
        rc, pk = ctx.run_bin(qp, chunk, timeout=1500)
        rc2, ev = ctx.run_bin(drv, pk, args=["--emit"], timeout=1500)
        rc3, vv = ctx.run_bin(drv, pk, timeout=1500)
        return [p[:200] for p in pk], ev, vv

    if pure:
        nsh = min(NCPU, max(1, len(pure) // 10))
        pchunks = [pure[i::nsh] for i in range(nsh)]
        with cf.ThreadPoolExecutor(max_workers=nsh) as ex:
            eres = list(ex.map(emit_work, pchunks))
        for chunk, (pk, ev, vv) in zip(pchunks, eres):
            for l, p, e, v in zip(chunk, pk, ev, vv):
                if not p.startswith("(packaged"):
                    emit_skip += 1
                    continue
                mm = re.match(r"\(emit same (\d+)\)", e)
                if mm:
                    emit_same += 1
                    emit_instrs += int(mm.group(1))
                elif e.startswith("(emit skip"):
                    emit_skip += 1
                else:
                    emit_differ += 1
                    ctx.violation({"kind": "correspondence-broken",
                                   "correspondence": "vm/Remap.v emit_cached vs compiler.rs value_to_instructions_from_cache",
                                   "case": l[:600], "verdict": e[:300]}, no_input=True)
                for m2 in re.finditer(r"\((ts|mg) (accept|reject|driver-error)", v or ""):
                    validated += 1
                    if m2.group(2) == "accept":
                        accepted += 1
                    else:
                        rejected += 1
                        ctx.violation({"kind": "translation-validation-rejection", "what": "the verified renaming validator rejects a real packaging output (importing program)",
                                       "case": l[:600], "verdict": (v or "")[:400]}, no_input=True)

    # ---- hand-written Bytecode (`quiv run file.json`): the premise `backward_refs` of the merge theorem is
    # needed on the REAL merge_bytecode too. Line 1 (compiler output) must agree; line 2 (the same program with
    # its two functions swapped: a forward Function reference) is the recorded latent defect, not a C10
    # violation (the compiler never emits one: `merge premises-fail` stays 0).
    jw = corpus_lines("c10_json_witness.txt")
    json_probe = []
    if jw:
        rc, jout = ctx.run_bin(qp, jw, args=["--json"], timeout=600)
        for l, o in zip(jw, jout):
            m = re.match(r"\(jsonrun \(alone (.*)\) \(merged (.*)\)\)$", o)
            json_probe.append({"alone": m.group(1) if m else o[:200], "merged": m.group(2) if m else "?"})
        if json_probe and json_probe[0]["alone"] != json_probe[0]["merged"]:
            ctx.violation({"kind": "impl-violation", "what": "a compiler-produced Bytecode loaded from JSON behaves differently alone and merged",
                           "case": jw[0][:600], "runs": json_probe[0]})

    ctx.cov.update({
        "tree_shake_model_equals_real": model["shake same"], "tree_shake_model_differs": model["shake differ"],
        "merge_model_equals_real": model["merge same"], "merge_model_differs": model["merge differ"],
        "merge_theorem_premises_hold": model["merge same"] - model["merge premises-fail"],
        "merge_theorem_premises_fail": model["merge premises-fail"],
        "model_inputs_ill_formed": model["shake skip"] + model["merge skip"], "model_driver_errors": model["driver-error"],
        "hand_written_bytecode_probe": json_probe,
        "import_reemission_model_vs_compiler": emit_same, "import_reemission_instructions": emit_instrs,
        "import_reemission_skipped": emit_skip, "import_reemission_differ": emit_differ,
        "programs": programs, "packagings_validated": validated, "packagings_accepted": accepted, "rejected": rejected,
        "functions_mapped": fns_mapped, "instructions_mapped": ins_mapped, "type_compatibility_rows_checked": rows_checked,
        "tree_shakes_that_dropped_functions": shaken_dropped, "merges_that_shifted_indices": merges_shifted,
        "merges_that_deduplicated_beyond_nil_ok": merges_deduped, "merges_of_as_compiled_program": merged_ac,
        "merge_history_length_histogram": k_hist, "json_round_trips_fieldwise_equal": json_same,
        "json_leg": "validated only (serde_json not modelled): field-wise equality of from_str(to_string(b)) and of the pretty form, plus a run of the deserialised program",
        "real_vm_run_groups": run_groups, "real_vm_runs": 5 * run_groups, "outcome_histogram": outcome_hist,
        "single_executor_vs_environment_differences": cross,
        "import_cases": imports, "import_cases_equal": imp_ok, "import_cases_not_compiling": imp_skipped, "import_outcomes": imp_hist,
        "negative_controls": neg_total, "negative_controls_rejected": neg_rejected, "negative_controls_by_kind": neg_by_kind,
        "sources_not_compiling_standalone": not_compiled,
        "traces_validated_against_impl": run_groups,
        "disagreements_checked": rejected + (neg_total - neg_rejected) + model["shake differ"] + model["merge differ"],
        "evaluations": validated + 5 * run_groups + imports + model["shake same"] + model["merge same"], "distinct_nontrivial": distinct,
        "rule": "every source string of quiver-tests, std/*.qv via %imports, examples, spec.md code blocks, corpus/c10_sources.txt, plus seeded mutations (wrap in function/block/branch/tuple field, sequence two programs, add dead code); each compiled program is packaged four ways by the real code, merged behind 0-3 seeded earlier programs (15% of them the program itself, so merges deduplicate); non-trivial = the tree-shake dropped a function or the merge moved an index; distinct by SHA-1 of the dumped as-compiled program",
        "samples": samples or [{"origin": srcs[0][0], "source": srcs[0][1][:200]}],
        "by_origin": kinds,
    })
    if not ok:
        ctx.violation({"kind": "theorem-broken", "theorem": getattr(ctx, "broken_theorem", "?"),
                       "searched": "%d packagings validated (%d rejected), %d run groups, %d import cases" % (validated, rejected, run_groups, imports)},
                      no_input=True)
