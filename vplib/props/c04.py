"""C04 — messages: exactly-once, per-sender FIFO, no lost wake-ups (exploration level).

exploration  : generated message-passing scenarios (fan-in, fan-out, pipelines, request/reply with
               per-client reply mailboxes, await chains, late awaits of finished processes, selects
               mixing receive / process / timeout sources) whose receivers log (sender, seq) pairs,
               run on the REAL Environment + Workers + Repl in the deterministic simulator qv_sim
               under seeded adversarial schedules x worker counts {1,2,3,5} x quanta {1,2,3,7,1000}.
impl oracles : `messages` (every sent message received exactly once, per-sender order preserved, no
               message left over in a finished receiver's mailbox; evaluated here on the final
               results), `quiescence` (evaluated by qv_sim on the internal dumps at the end: no
               parked process with an available awaited result / finished target / elapsed timeout,
               no process in `spawning`, and a spurious-wake-up probe that demonstrates a lost
               wake-up when a parked process can make progress without any new input), plus hang,
               panic, Err and check_refcounts.
The Coq theorems of DESIGN §5 C04 (message_conservation, per_sender_fifo, spawner_gets_pid,
no_lost_wakeup over M-Sys) are pending; nothing is claimed as proved here."""
from vplib import simlib
from vplib.simlib import SimRunner, basic_problems

MANIFEST = dict(
    category="proof",
    text="Coq theorems on the protocol model M-Sys (coq/theories/sys/Proto.v: Executor scheduling state, Worker, Environment and transports as the code is; process behaviour and HashMap iteration orders are universally quantified inputs), for every schedule and every oracle: message_conservation (every stamped message sent is, with multiplicity, in exactly one of event queue / command queue / arrival log), stamps_unique, per_link_fifo / per_sender_fifo (the send sequence of a worker to a target IS, as a list, arrival log ++ command queue ++ event queue: exactly-once and in order on every link), no_message_dropped (a DeliverMessage is never handled for a process that does not exist: a routed process is on its worker or its spawn command is queued ahead of every message for it), and per handler: a process leaves `spawning` only through its NotifySpawn (the F71 schedule is a kernel-computed regression witness since its repair), every SpawnAction is answered by exactly one NotifySpawn with a fresh pid, every wake-up source (message, awaited result, elapsed timeout) re-queues a parked select. Global invariants over every schedule and oracle (phase 3): scheduler_well_formed (run queue duplicate-free; queue / `spawning` / `selecting` pairwise disjoint and naming existing unfinished processes; every process lives on the worker the router names), spawner_gets_pid (for every process c: #workers with c in `spawning` = #SpawnAction(c) queued + #NotifySpawn(c) queued <= 1, the NotifySpawn queued at the spawner's worker), arrival_log_is_mailbox_history (the DeliverMessages handled for target t on a worker ARE, as a list, everything ever appended to t's mailbox, so the FIFO theorems speak about mailboxes), and three of the four clauses of the no_lost_wakeup invariant Inv_parked: awaited_completion_never_unseen, no_timeout_due_at_last_check (premise time_honest: the slice does not park with a timeout already due), parked_has_no_unseen_message (premise honest_run: the slice parks only after scanning its mailbox; both premises are properties of the select machine, C05). The fourth clause of Inv_parked is DECIDED: REFUTED for arbitrary oracles by two kernel-computed witnesses (a slice that issues Await while keeping a stale key of its previous select lets the new AwaitAction overwrite the pending_awaits entry that stores the answer; a slice run for a process that a failure notification has completed in place) — neither is a slice of the real VM (complete_select forgets the sources of a completed select; a failed process has no frames), and PROVED for every schedule and every oracle that is await_honest (these two select-machine properties, decidable on the schedule): await_backed (every None entry of an unfailed process is backed by a registration in awaiters_for_target on the target's own worker or by a queued AwaitAction / QueryAndAwait / ProcessResults carrying the result / stored pending_awaits answer / UpdateAwaitResults carrying the result), parked_await_answer_in_flight (p parked, p awaits t, t has a result -> the answer is in flight or p was completed by a failure), quiescent_no_unseen_result and quiescent_no_ready (all command and event queues empty -> no parked process has an unseen ready source; pending_awaits entries are live). F72 is not a counterexample (the overtaken awaiter is runnable). The global statements are additionally checked on the real code by the implementation-level oracles (message log exactly-once/FIFO, quiescence + spurious-wake-up probe) over seeded adversarial schedules. The model is tied to the code by replaying qv_sim traces of the real Environment/Workers through the extracted model with the state compared after every scheduler action. During the replay the extracted boolean forms of the oracle premises of the global theorems (pid_honest, await_honest, park_honest, time_honest, resume_honest; sys/ProtoPremises.v) are evaluated on every action of every real trace; a violated premise is a correspondence-broken violation (evidence key premise_checks; a synthetic Send to an unallocated pid is the negative control).",
    design_ref="§4, §5 C04",
    note="Trusted: Coq kernel, extraction (ExtrOcamlBasic), OCaml driver, the simulator's transports and oracles (harness/src/bin/qv_sim), the trace-to-oracle conversion (vplib/simlib.py), the schedule abstraction of DESIGN §4. Effects are outside M-Sys (traces with effects are not replayed). F70 was repaired by 5eb967d (its corpus line must pass). The premises park_honest / time_honest / await_honest are properties of the VM's select machine (C05's model), not proved of executor.rs here.",
    technique="Coq proof over all schedules of a protocol model (invariants by induction on the schedule) + model/code correspondence by trace replay + schedule exploration of the real runtime with implementation-level oracles",
)


def judge(tp, s):
    out = [(p.split(" ")[0], p) for p in basic_problems(s)]
    if s.ok and not out and "check" in tp:
        for p in tp["check"](s):
            out.append(("messages", p))
    return out


def route(tp, kind, s):
    if simlib.f71_shape(s):
        return "F71c04"
    # NARROW match for F70: the program sends the top-level process's own pid (`&.` outside any
    # spawned function) and the only symptom is that the result is never delivered
    src = str(tp["src"])
    if kind == "hang" and tp.get("corpus") and "&. echo, !#'int" in src and "echo = @#{ !#(@'int)" in src and not s.panics and not s.errs:
        return "F70"
    return None


def run(ctx):
    ctx.level = "proof"
    exe = ctx.harness("qv_sim")
    if not exe:
        return
    runner = SimRunner(ctx, exe)
    if getattr(ctx, "replay_path", None):
        # the Python-level `messages` check needs the generating template; a replay re-evaluates the
        # simulator-level oracles (hang, panic, Err, refcounts, quiescence)
        simlib.replay(ctx, runner, lambda obj, s: [k for k, _ in judge(dict(name="replay"), s)])
        return
    nscen = ctx.n(200, 600)
    nsched = ctx.n(50, 150)
    scenarios = []
    while len(scenarios) < nscen:
        t = simlib.MESSAGE_SCENARIOS[len(scenarios) % len(simlib.MESSAGE_SCENARIOS)]
        scenarios.append(t(ctx.rng))
    ok, drv = simlib.proof_layer(ctx)
    res, meta, failures = simlib.explore(ctx, runner, scenarios, nsched, judge, route=route)
    if drv:
        step = max(1, len(res) // ctx.n(36, 600))
        # besides the stride over all runs: more runs of the templates with timeouts / tick schedules, and the
        # corpus traces tagged (template timed_select), so that the premise checks (time_honest, park_honest) meet
        # timed selects — parked and ending runnable — on every run
        timed = [i for i in range(len(meta)) if meta[i][2] != "corpus" and scenarios[meta[i][0]]["name"] in ("select_mix", "stale_failure_then_spawn")]
        pick = sorted(set([i for i in range(0, len(meta), step) if meta[i][2] != "corpus"] + timed[::max(1, len(timed) // ctx.n(24, 300))]))
        sample = [simlib.case_line(scenarios[meta[i][0]]["src"], meta[i][1][0], meta[i][1][1], meta[i][2] if meta[i][2] not in ("fair", "corpus") else "")
                  for i in pick] + [l for l in simlib.corpus_lines("sim_c04.txt") if "(template timed_select)" in l]
        simlib.correspondence(ctx, exe, drv, sample, lambda s: basic_problems(s))
    if not ok:
        simlib.theorem_broken(ctx, sum(len(v) for k, v in failures.items() if k[2] is None))
