"""C04 — messages: exactly-once, per-sender FIFO, no lost wake-ups (exploration level).

exploration  : generated message-passing scenarios (fan-in, fan-out, pipelines, request/reply with
               per-client reply mailboxes, await chains, late awaits of finished processes, selects
               mixing receive / process / timeout sources) whose receivers log (sender, seq) pairs,
               run on the REAL Environment + Workers + Repl in the deterministic simulator qv_sim
               under seeded adversarial schedules x worker counts {1,2,3,5} x quanta {1,2,3,7,1000}.
impl oracles : `messages` (every sent message received exactly once, per-sender order preserved, no
               message left over in a finished receiver's mailbox; evaluated here on the final
               results), `quiescence` (evaluated by qv_sim on the internal dumps at the end: no
               parked process with an available awaited result / finished target / elapsed timeout,
               no process in `spawning`, and a spurious-wake-up probe that demonstrates a lost
               wake-up when a parked process can make progress without any new input), plus hang,
               panic, Err and check_refcounts.
The Coq theorems of DESIGN §5 C04 (message_conservation, per_sender_fifo, spawner_gets_pid,
no_lost_wakeup over M-Sys) are pending; nothing is claimed as proved here."""
from vplib import simlib
from vplib.simlib import SimRunner, basic_problems

MANIFEST = dict(
    category="exploration",
    text="Schedule exploration only (the Coq protocol model M-Sys and the theorems message_conservation / per_sender_fifo / spawner_gets_pid / no_lost_wakeup are pending): generated message-passing scenarios whose receivers log (sender, seq) are run on the real Environment/Worker/Repl code in a deterministic simulator under seeded adversarial schedules (starvation, partial queue visibility, quantum down to 1, 1-5 workers); checked: every message received exactly once and in per-sender order, nothing left over, and at quiescence no parked process has a ready source (dump-based checks + a spurious-wake-up probe), no hang, panic or Err.",
    design_ref="§4, §5 C04",
    note="Trusted: the simulator's transports and oracles (harness/src/bin/qv_sim), the schedule abstraction of DESIGN §4. The lost-wake-up probe injects an UpdateAwaitResults without results (=> Executor::mark_active), which is a no-op for a correctly parked select.",
    technique="bounded schedule exploration of the real runtime in a deterministic simulator with implementation-level oracles (message log, quiescence), ddmin-shrunk replays",
)


def judge(tp, s):
    out = [(p.split(" ")[0], p) for p in basic_problems(s)]
    if s.ok and not out and "check" in tp:
        for p in tp["check"](s):
            out.append(("messages", p))
    return out


def route(tp, kind, s):
    if simlib.f71_shape(s):
        return "F71c04"
    # NARROW match for F70: the program sends the top-level process's own pid (`&.` outside any
    # spawned function) and the only symptom is that the result is never delivered
    src = str(tp["src"])
    if kind == "hang" and tp.get("corpus") and "&. echo, !#'int" in src and "echo = @#{ !#(@'int)" in src and not s.panics and not s.errs:
        return "F70"
    return None


def run(ctx):
    ctx.level = "proof"
    exe = ctx.harness("qv_sim")
    if not exe:
        return
    runner = SimRunner(ctx, exe)
    if getattr(ctx, "replay_path", None):
        # the Python-level `messages` check needs the generating template; a replay re-evaluates the
        # simulator-level oracles (hang, panic, Err, refcounts, quiescence)
        simlib.replay(ctx, runner, lambda obj, s: [k for k, _ in judge(dict(name="replay"), s)])
        return
    nscen = ctx.n(200, 2000)
    nsched = ctx.n(50, 500)
    scenarios = []
    while len(scenarios) < nscen:
        t = simlib.MESSAGE_SCENARIOS[len(scenarios) % len(simlib.MESSAGE_SCENARIOS)]
        scenarios.append(t(ctx.rng))
    ok, drv = simlib.proof_layer(ctx)
    res, meta, failures = simlib.explore(ctx, runner, scenarios, nsched, judge, route=route)
    if drv:
        step = max(1, len(res) // ctx.n(90, 1500))
        sample = [simlib.case_line(scenarios[meta[i][0]]["src"], meta[i][1][0], meta[i][1][1], meta[i][2] if meta[i][2] not in ("fair", "corpus") else "")
                  for i in range(0, len(meta), step) if meta[i][2] != "corpus"]
        simlib.correspondence(ctx, exe, drv, sample, lambda s: basic_problems(s))
    if not ok:
        simlib.theorem_broken(ctx, sum(len(v) for k, v in failures.items() if k[2] is None))
