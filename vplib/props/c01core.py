"""C01 core fragment: generator of programs of the fragment of coq/theories/typed/Core.v, rendered
both as the s-expression the extracted judgement/evaluator reads (driver command `core`) and as
Quiver source for the REAL compiler and VM; plus the conversion of the real compiler's inferred
type (qv_typed tables) and of the real value into the fragment's syntax, so that

    extracted `infer`  ==  the real compiler's inferred result type      (the judgement is the compiler's)
    extracted `eval`   ==  the real VM's result value                    (the evaluator is the VM's)

can be compared on every generated program, on every run.

Types (python tuples): "int" | "bin" | ("tup", name|None, (types..), (labels|None..)) | ("union", (types..))
Expressions: ("int", z) ("bin", len) ("tup", name, [e..], labels) ("var", x) ("get", e, i) ("getl", e, label) ("add", e1, e2)
  ("len", e) ("let", x, e1, e2) ("letas", x, T, e1, e2) ("case", x, [(pat, e)..], d) ("call", f, e)
Patterns: ("pty", T) | ("ptup", name, [x|None ..], labels)"""

NAMES = ["A", "B", "C", "D", "E"]
LABELS = ["x", "y", "z", "k"]
INT, BIN = "int", "bin"
NIL = ("tup", None, (), ())


def tup(name, fields, labels=None):
    fields = tuple(fields)
    return ("tup", name, fields, tuple(labels) if labels is not None else (None,) * len(fields))


def variants(t):
    return list(t[1]) if isinstance(t, tuple) and t[0] == "union" else [t]


def mk_union(ts):
    out = []
    for t in ts:
        for v in variants(t):
            if v not in out:
                out.append(v)
    return out[0] if len(out) == 1 else ("union", tuple(out))


def norm(t):
    """canonical form for comparison: unions flattened, deduplicated, sorted"""
    if t in (INT, BIN):
        return t
    if t[0] == "tup":
        return ("tup", t[1], tuple(norm(f) for f in t[2]), t[3])
    vs = []
    for v in t[1]:
        nv = norm(v)
        for w in (nv[1] if isinstance(nv, tuple) and nv[0] == "union" else [nv]):
            if w not in vs:
                vs.append(w)
    vs.sort(key=repr)
    return vs[0] if len(vs) == 1 else ("union", tuple(vs))


# ------------------------------------------------------------------ rendering
def shape_sexp(name, labels):
    return "%s (%s)" % ("-" if name is None else NAMES.index(name), " ".join("-" if l is None else str(LABELS.index(l)) for l in labels))


def lab_src(l):
    return (l + ": ") if l is not None else ""


def ty_sexp(t):
    if t in (INT, BIN):
        return t
    if t[0] == "tup":
        return "(tup %s%s)" % (shape_sexp(t[1], t[3]), "".join(" " + ty_sexp(f) for f in t[2]))
    return "(union%s)" % "".join(" " + ty_sexp(v) for v in t[1])


def ty_src(t, top=False):
    if t == INT:
        return "'int"
    if t == BIN:
        return "'bin"
    if t[0] == "tup":
        if not t[2]:
            return t[1] or "[]"
        return (t[1] or "") + "[" + ", ".join(lab_src(l) + ty_src(f) for l, f in zip(t[3], t[2])) + "]"
    s = " | ".join(ty_src(v) for v in t[1])
    return s if top else "(" + s + ")"


def pat_sexp(p):
    if p[0] == "pty":
        return "(pty %s)" % ty_sexp(p[1])
    return "(ptup %s%s)" % (shape_sexp(p[1], p[3]), "".join(" " + ("_" if b is None else str(b)) for b in p[2]))


def exp_sexp(e):
    k = e[0]
    if k == "int":
        return "(int %d)" % e[1]
    if k == "bin":
        return "(bin %d)" % e[1]
    if k == "tup":
        return "(tup %s%s)" % (shape_sexp(e[1], e[3]), "".join(" " + exp_sexp(x) for x in e[2]))
    if k == "getl":
        return "(getl %s %d)" % (exp_sexp(e[1]), LABELS.index(e[2]))
    if k == "var":
        return "(var %d)" % e[1]
    if k == "get":
        return "(get %s %d)" % (exp_sexp(e[1]), e[2])
    if k == "add":
        return "(add %s %s)" % (exp_sexp(e[1]), exp_sexp(e[2]))
    if k == "len":
        return "(len %s)" % exp_sexp(e[1])
    if k == "let":
        return "(let %d %s %s)" % (e[1], exp_sexp(e[2]), exp_sexp(e[3]))
    if k == "letas":
        return "(letas %d %s %s %s)" % (e[1], ty_sexp(e[2]), exp_sexp(e[3]), exp_sexp(e[4]))
    if k == "case":
        return "(case %d (%s) %s)" % (e[1], " ".join("(%s %s)" % (pat_sexp(p), exp_sexp(b)) for p, b in e[2]), exp_sexp(e[3]))
    if k == "call":
        return "(call %d %s)" % (e[1], exp_sexp(e[2]))
    raise ValueError(e)


def var_src(x):
    return "$" if x == 0 else "v%d" % x


class Src:
    """Quiver source of a core expression; `aliases` collects the type aliases that type-test
    patterns on unions need (a union cannot be written inline in a pattern)"""

    def __init__(self):
        self.aliases = []

    def alias(self, t):
        t = norm(t)
        if t not in self.aliases:
            self.aliases.append(t)
        return "'k%d" % self.aliases.index(t)

    def pat(self, p):
        if p[0] == "pty":
            t = p[1]
            if isinstance(t, tuple) and t[0] == "union":
                return "=" + self.alias(t)
            return "=" + ty_src(t)
        name = p[1] or ""
        if not p[2]:
            return "=" + (name or "[]")
        return "=%s[%s]" % (name, ", ".join(lab_src(l) + ("_" if b is None else var_src(b)) for l, b in zip(p[3], p[2])))

    def chain(self, e):
        """the expression as ONE chain (no top-level `,`)"""
        k = e[0]
        if k == "int":
            return str(e[1])
        if k == "bin":
            return "0x" + "ab" * e[1]
        if k == "tup":
            if not e[2]:
                return e[1] or "[]"
            return (e[1] or "") + "[" + ", ".join(lab_src(l) + self.chain(x) for l, x in zip(e[3], e[2])) + "]"
        if k == "getl":
            return "%s .%s" % (self.chain(e[1]), e[2])
        if k == "var":
            return var_src(e[1])
        if k == "get":
            return "%s .%d" % (self.chain(e[1]), e[2])
        if k == "add":
            return "[%s, %s] __integer_add__" % (self.chain(e[1]), self.chain(e[2]))
        if k == "len":
            return "%s __binary_length__" % self.chain(e[1])
        if k == "call":
            return "%s f%d" % (self.chain(e[2]), e[1])
        if k == "case":
            brs = " | ".join("%s => %s" % (self.pat(p), self.seq(b)) for p, b in e[2])
            return "%s { | %s | %s }" % (var_src(e[1]), brs, self.seq(e[3])) if e[2] else "%s { %s }" % (var_src(e[1]), self.seq(e[3]))
        return "{ " + self.seq(e) + " }"

    def seq(self, e):
        """the expression as a sequence (steps separated by `,`)"""
        k = e[0]
        if k == "let":
            return "%s = %s, %s" % (var_src(e[1]), self.chain(e[2]), self.seq(e[3]))
        if k == "letas":
            t = e[2]
            ts = self.alias(t) if isinstance(t, tuple) and t[0] == "union" else ty_src(t)
            return "%s =(%s)%s, %s" % (self.chain(e[3]), ts, var_src(e[1]), self.seq(e[4]))
        return self.chain(e)


def program_src(fns, main):
    s = Src()
    fsrc = ["f%d = #%s { %s }" % (i, ty_src(p), s.seq(b)) for i, (p, b) in enumerate(fns)]
    msrc = s.seq(main)
    al = ["'k%d = %s" % (i, ty_src(t, top=True)) for i, t in enumerate(s.aliases)]
    return "\n".join(al) + ("\n" if al else "") + ",\n".join(fsrc + [msrc])


def program_sexp(fns, main):
    return "(core (fns %s) (e %s))" % (" ".join("(%s %s)" % (ty_sexp(p), exp_sexp(b)) for p, b in fns), exp_sexp(main))


# ------------------------------------------------------------------ generation
class Gen:
    def __init__(self, rng, stats):
        self.rng = rng
        self.stats = stats
        self.next_var = 1
        self.fns = []          # (param type, body, result type)

    def note(self, k):
        self.stats[k] = self.stats.get(k, 0) + 1

    def fresh(self):
        self.next_var += 1
        return self.next_var - 1

    def variant(self, name):
        k = self.rng.choice([0, 1, 1, 2])
        labels = self.rng.sample(LABELS, k) if self.rng.random() < 0.4 else [None] * k
        if labels and labels[0] is not None:
            self.note("labelled_tuples")
        return tup(name, [self.rng.choice([INT, INT, BIN]) for _ in range(k)], labels)

    def union_type(self):
        r = self.rng
        vs = [self.variant(n) for n in r.sample(NAMES, r.randint(2, 4))]
        if r.random() < 0.25:
            # (no nil member: the function binds its parameter with a bare binder, and the real
            # compiler still strips nil there - finding F27, outside what is compared)
            vs.append(r.choice([INT, BIN]))
        return mk_union(vs)

    def lit(self, t):
        r = self.rng
        if t == INT:
            return ("int", r.choice([0, 1, 2, 5, 7, 42, -3]))
        if t == BIN:
            return ("bin", r.randint(0, 3))
        if t[0] == "tup":
            return ("tup", t[1], [self.lit(f) for f in t[2]], t[3])
        return self.lit(r.choice(variants(t)))

    def of_type(self, t, env, depth):
        """an expression of (a subtype of) t"""
        r = self.rng
        cands = [x for x, xt in env if all(v in variants(t) for v in variants(xt))]
        if cands and r.random() < 0.5:
            return ("var", r.choice(cands))
        if t == INT and depth < 3:
            k = r.random()
            if k < 0.3:
                return ("add", self.of_type(INT, env, depth + 1), self.of_type(INT, env, depth + 1))
            if k < 0.45:
                return ("len", self.of_type(BIN, env, depth + 1))
            tv = [(x, xt) for x, xt in env if isinstance(xt, tuple) and xt[0] == "tup" and INT in xt[2]]
            if tv and k < 0.7:
                x, xt = r.choice(tv)
                self.note("field_access")
                return self.access(("var", x), xt, r.choice([i for i, f in enumerate(xt[2]) if f == INT]))
        if isinstance(t, tuple) and t[0] == "tup" and depth < 3:
            return ("tup", t[1], [self.of_type(f, env, depth + 1) for f in t[2]], t[3])
        return self.lit(t)

    def access(self, e, t, i):
        """field i of e : t (a tuple type), by label when it has one (sometimes by position)"""
        if t[3][i] is not None and self.rng.random() < 0.7:
            self.note("label_access")
            return ("getl", e, t[3][i])
        return ("get", e, i)

    def use(self, x, t, env, depth):
        """an int-valued expression using variable x of (non-union) type t"""
        if t == INT:
            return ("add", ("var", x), self.of_type(INT, env, depth + 1))
        if t == BIN:
            return ("len", ("var", x))
        if t[0] == "tup":
            for i, f in enumerate(t[2]):
                if f == INT:
                    self.note("field_access")
                    return ("add", self.access(("var", x), t, i), ("int", 1))
                if f == BIN:
                    self.note("field_access")
                    return ("len", self.access(("var", x), t, i))
        return ("int", self.rng.randint(10, 19))

    def case_on(self, x, tx, env, depth):
        """a block on variable x : tx (a union); returns (exp, type)"""
        r = self.rng
        rest = variants(tx)
        brs, types = [], []
        self.note("case_blocks")
        for _ in range(r.randint(1, 3)):
            if len(rest) <= 1:
                break
            if r.random() < 0.35:
                # a type test on a sub-union / one variant
                sub = r.sample(rest, r.randint(1, len(rest) - 1))
                sub = [v for v in rest if v in sub]
                p = ("pty", mk_union(sub))
                matched = sub
                binds = []
                self.note("type_test_patterns")
            else:
                v = r.choice([u for u in rest if isinstance(u, tuple)] or rest)
                if not isinstance(v, tuple):
                    p, matched, binds = ("pty", v), [v], []
                else:
                    bs = [self.fresh() if r.random() < 0.7 else None for _ in v[2]]
                    p = ("ptup", v[1], bs, v[3])
                    matched = [u for u in rest if isinstance(u, tuple) and u[1] == v[1] and u[3] == v[3]]
                    binds = [(b, mk_union([u[2][i] for u in matched])) for i, b in enumerate(bs) if b is not None]
                    self.note("variant_patterns")
            benv = binds[::-1] + [(x, mk_union(matched))] + env
            body, bt = self.body(benv, depth + 1, prefer=[(b, t) for b, t in binds] + [(x, mk_union(matched))])
            brs.append((p, body))
            types.append(bt)
            rest = [u for u in rest if u not in matched]
        # the default relies on the complement
        denv = [(x, mk_union(rest))] + env
        if len(rest) == 1:
            self.note("complement_single_variant")
            d, dt = self.use(x, rest[0], denv, depth + 1), INT
        else:
            d, dt = self.body(denv, depth + 1)
        return ("case", x, brs, d), mk_union(types + [dt])

    def body(self, env, depth, prefer=()):
        """(exp, type) of a random expression; `prefer`: variables it should use"""
        r = self.rng
        k = r.random()
        unions = [(x, t) for x, t in env if isinstance(t, tuple) and t[0] == "union" and len(t[1]) >= 2]
        if prefer and r.random() < 0.7:
            x, t = r.choice(list(prefer))
            if not (isinstance(t, tuple) and t[0] == "union"):
                return self.use(x, t, env, depth), INT
        if depth < 3 and unions and k < 0.3:
            x, t = r.choice(unions)
            return self.case_on(x, t, env, depth)
        if depth < 3 and unions and k < 0.45:
            # type-ascribed binder with nil-narrowing
            x, t = r.choice(unions)
            vs = variants(t)
            chosen = r.sample(vs, r.randint(1, len(vs) - 1))
            sub = [v for v in vs if v in chosen]
            y = self.fresh()
            self.note("ascribed_binders")
            e2, t2 = self.body([(y, mk_union(sub))] + env, depth + 1, prefer=[(y, mk_union(sub))])
            return ("letas", y, mk_union(sub), ("var", x), e2), mk_union([t2, NIL])
        if depth < 3 and k < 0.6:
            y = self.fresh()
            e1, t1 = self.body(env, depth + 1)
            # a bare binder of a variable is an ALIAS (narrowing one narrows the other in the real
            # compiler: shared provenance - not modelled), of a nilable value is F27: neither compared
            if e1[0] != "var" and NIL not in variants(t1):
                self.note("bare_binders")
                e2, t2 = self.body([(y, t1)] + env, depth + 1, prefer=[(y, t1)])
                return ("let", y, e1, e2), t2
            return e1, t1
        if depth < 3 and self.fns and k < 0.75:
            f = r.randrange(len(self.fns))
            p, _, res = self.fns[f]
            self.note("calls")
            return ("call", f, self.of_type(p, env, depth + 1)), res
        if k < 0.85:
            n = r.randint(0, 2)
            t = tup(r.choice(NAMES + [None]), [r.choice([INT, BIN]) for _ in range(n)],
                    r.sample(LABELS, n) if r.random() < 0.4 else None)
            return self.of_type(t, env, depth), t
        t = r.choice([INT, INT, BIN])
        return self.of_type(t, env, depth), t

    def function(self):
        r = self.rng
        p = self.union_type() if r.random() < 0.8 else tup(r.choice(NAMES), [INT, BIN])
        x = self.fresh()
        if isinstance(p, tuple) and p[0] == "union":
            # `x = $, x { .. }`: a block on a bound alias of the parameter (no dispatch table)
            inner, t = self.case_on(x, p, [(x, p)], 1)
            body = ("let", x, ("var", 0), inner)
        else:
            inner, t = self.body([(x, p)], 1, prefer=[(x, p)])
            body = ("let", x, ("var", 0), inner)
        self.fns.append((p, body, t))
        self.note("functions")

    def program(self):
        r = self.rng
        for _ in range(r.randint(1, 3)):
            self.function()
        obs = []
        for f, (p, _, _) in enumerate(self.fns):
            for v in variants(p):
                obs.append(("call", f, self.lit(v)))
        for _ in range(r.randint(0, 2)):
            obs.append(self.body([], 1)[0])
        r.shuffle(obs)
        obs = obs[:6]
        main = ("tup", None, obs, (None,) * len(obs))
        fns = [(p, b) for p, b, _ in self.fns]
        return fns, main


def generate(rng, stats):
    g = Gen(rng, stats)
    fns, main = g.program()
    return dict(sexp=program_sexp(fns, main), src=program_src(fns, main))


# ------------------------------------------------------------------ the real compiler's answers
def real_type(types, tuples, tid, depth=0):
    """type id of the qv_typed tables -> fragment type, or None when outside the fragment"""
    if depth > 12 or tid >= len(types):
        return None
    t = types[tid]
    if t == ["int"]:
        return INT
    if t == ["bin"]:
        return BIN
    if t[0] == "tuple":
        info = tuples[int(t[1])]
        name = None if info[1] == "-" else info[1]
        fs, labs = [], []
        for f in info[2:]:
            if f[0] != "-" and f[0] not in LABELS:
                return None
            ft = real_type(types, tuples, int(f[1]), depth + 1)
            if ft is None:
                return None
            fs.append(ft)
            labs.append(None if f[0] == "-" else f[0])
        return ("tup", name, tuple(fs), tuple(labs))
    if t[0] == "union":
        vs = [real_type(types, tuples, int(v), depth + 1) for v in t[1:]]
        if any(v is None for v in vs) or not vs:
            return None
        return ("union", tuple(vs))
    return None


def real_value(v, tuples):
    """parsed value s-expression of qv_typed -> the driver's CVAL syntax (string)"""
    if v[0] == "i":
        return "(i %s)" % v[1]
    if v[0] == "b":
        return "(b %d)" % (len(v[1]) // 2 if len(v) > 1 else 0)
    if v[0] == "t":
        info = tuples[int(v[1])]
        name = "-" if info[1] == "-" else (str(NAMES.index(info[1])) if info[1] in NAMES else "?" + info[1])
        labs = " ".join("-" if f[0] == "-" else (str(LABELS.index(f[0])) if f[0] in LABELS else "?") for f in info[2:])
        return "(t %s (%s)%s)" % (name, labs, "".join(" " + real_value(f, tuples) for f in v[2:]))
    return "(other)"


def parse_ty(s):
    """driver `(ty ..)` s-expression (parsed) -> fragment type"""
    if s in ("int", "bin"):
        return s
    if s[0] == "tup":
        return ("tup", None if s[1] == "-" else NAMES[int(s[1])], tuple(parse_ty(f) for f in s[3:]),
                tuple(None if l == "-" else LABELS[int(l)] for l in s[2]))
    return ("union", tuple(parse_ty(v) for v in s[1:]))
