"""C08 — runtime type tests accept only members and never reject known members.

theorem layer : coq/theories/props/C08.v (table_is_relation, istype_is_relation, istype_sound relative
                to C09, istype_complete under explicit hypotheses, parameter-table theorems)
correspondence: Compat.v (extracted) vs the REAL compute_type_compatibility /
                compute_param_compatibility on the CompatibilityInput of every harvested program in
                three configurations (as compiled, tree-shaken, merged behind 0-2 earlier programs):
                the three tables are compared row by row.
config check  : the real type table on structural images (ids erased) must give the same verdict for
                every (pattern, tag) that exists in two configurations of one program.
end-to-end    : generated (value, pattern type) pairs run through real programs
                `f = #(S) { $ =<pattern> }, <value> f`; the verdict (Ok / []) is compared with the
                extracted membership `inhabb` of Sem.v on an independently built registry.
"""
import hashlib, os, re
from vplib import sexpr, testsrc
from vplib.common import VERIF

MANIFEST = dict(
    category="proof",
    text="partial. Coq theorems on the executable model of compatibility.rs and of the executor's table lookups: the first-occurrence rule of TypeIndex, table_is_relation (a tag is in a pattern's row iff the tag's type is assignable to the pattern; functions by type_id, builtins via callable_to_type, processes via (receive, result), resources by name; a tuple id without a Type::Tuple entry is never accepted; since the F70 repair 5eb967d the tables are computed over the program's types extended with the process type of every function that has none - process_has_type_entry: every function's process tag has a type entry, xreg_keeps_ids: no id of the program changes), istype_is_relation, istype_sound relative to C09's compat_sound (cycle-free fragment, side conditions explicit), istype_complete under has_type_entry (with the transitivity instance as a hypothesis in general; WITHOUT it on the cycle-free fragment, by C09's compat_trans_partial), parameter tables (rows cover every function; permissive only when absent; param_compat=false accepts everything). NOT a theorem: soundness on the recursive fragment (C09's gap), equality of verdicts across configurations (checked on every run on structural images of the real tables). Every run compares the model's three tables with the real ones for every harvested program in three configurations and runs generated (value, type) pairs through real programs against the value semantics of Sem.v.",
    design_ref="§5 C08",
    note="Trusted: Coq kernel, extraction, OCaml driver, Rust harness, generators. The end-to-end generator avoids nil values/types (F13, F27 shapes) and gives every value its own type as a member of the static union (so the compile-time narrowing of C09's known finding F25 is not exercised); process values are not generated end-to-end (the harness's single-executor loop cannot run inter-process replies): F70 (fixed 5eb967d) is a regression statement of the model (C08_F70_repaired) and a table-level must-pass probe (corpus/c08_entry_pid.txt: the entry process's tag occurs in a row in every configuration).",
    technique="Coq proof on an executable model + model/code correspondence on real tables + end-to-end verdict oracle",
)


# ---------------------------------------------------------------- dump plumbing
def balanced(s, i):
    d = 0
    for j in range(i, len(s)):
        if s[j] == "(":
            d += 1
        elif s[j] == ")":
            d -= 1
            if d == 0:
                return s[i:j + 1]
    return None


def sub(s, key, start=0):
    cands = [k for k in (s.find("(" + key + " ", start), s.find("(" + key + ")", start)) if k >= 0]
    return balanced(s, min(cands)) if cands else None


def split_strings(body):
    """the quoted strings of an s-expression fragment, in order"""
    out, i = [], 0
    while True:
        i = body.find('"', i)
        if i < 0:
            return out
        j = i + 1
        buf = []
        while body[j] != '"':
            if body[j] == "\\":
                j += 1
            buf.append(body[j])
            j += 1
        out.append("".join(buf))
        i = j + 1


def cfgs_of(line):
    out, k = [], 0
    while True:
        i = line.find("(cfg ", k)
        if i < 0:
            return out
        name = line[i + 5:line.find(" ", i + 5)]
        out.append((name, sub(line, "input", i), sub(line, "tables", i), sub(line, "struct", i)))
        k = i + 1


def struct_of(st):
    """(set of tag keys, {pattern key: set of accepted tag keys}, set of constructed tuple keys)"""
    tags = set(split_strings(sub(st, "tags") or ""))
    builds = set(split_strings(sub(st, "builds") or ""))
    pats, k = {}, 0
    while True:
        i = st.find("(pat ", k)
        if i < 0:
            break
        body = balanced(st, i)
        ss = split_strings(body)
        pats.setdefault(ss[0], set()).update(ss[1:])
        k = i + 1
    return tags, pats, builds


# ---------------------------------------------------------------- end-to-end generator
TNAMES = ["A", "B", "C"]
LABELS = ["x", "y"]


class E2E:
    """abstract types/values -> (Quiver source text, model registry ops, model value)"""

    def __init__(self, rng):
        self.rng = rng
        self.aliases = []     # (name, elem type) for 'lK = Nil | Cons[elem, ^]

    # ---- types
    def gen_type(self, depth, allow_fn=True):
        r = self.rng.random()
        if depth <= 0 or r < 0.3:
            return self.rng.choice([("int",), ("bin",), ("tup", self.rng.choice(TNAMES), ())])
        if r < 0.65:
            n = self.rng.choice([1, 1, 2])
            labelled = self.rng.random() < 0.4
            labels = self.rng.sample(LABELS, n) if labelled else [None] * n
            return ("tup", self.rng.choice(TNAMES), tuple((l, self.gen_type(depth - 1, False)) for l in labels))
        if r < 0.8:
            vs = []
            for _ in range(self.rng.choice([2, 2, 3])):
                v = self.gen_type(depth - 1, allow_fn)
                if v[0] != "union" and v not in vs:
                    vs.append(v)
            return ("union", tuple(vs)) if len(vs) > 1 else vs[0]
        if r < 0.9:
            if len(self.aliases) < 2 and self.rng.random() < 0.7:
                self.aliases.append(self.gen_type(1, False))
            if self.aliases:
                return ("list", self.rng.randrange(len(self.aliases)))
            return ("int",)
        if allow_fn:
            return ("fn", self.gen_type(1, False))
        return ("bin",)

    def gen_pattern(self, members, depth):
        r = self.rng.random()
        if r < 0.3:
            return self.rng.choice(members)
        if r < 0.45 and len(members) > 1:
            k = self.rng.randint(1, len(members) - 1)
            vs = [m for m in self.rng.sample(members, k) if m[0] != "union"]
            if len(vs) > 1:
                return ("union", tuple(vs))
            if vs:
                return vs[0]
        if r < 0.65:
            # a partial over the labels in use
            n = self.rng.choice([0, 1, 1, 2])
            labels = self.rng.sample(LABELS, n)
            return ("partial", self.rng.choice([None, None] + TNAMES), tuple((l, self.gen_type(1, False)) for l in labels))
        if r < 0.8:
            # a near-copy of a member: one field type changed
            m = self.rng.choice(members)
            if m[0] == "tup" and m[2]:
                fs = list(m[2])
                i = self.rng.randrange(len(fs))
                fs[i] = (fs[i][0], self.gen_type(1))
                return ("tup", m[1], tuple(fs))
        return self.gen_type(depth)

    def src(self, t):
        k = t[0]
        if k in ("int", "bin"):
            return "'" + k
        if k == "tup":
            if not t[2]:
                return t[1]
            return "%s[%s]" % (t[1], ", ".join(("%s: %s" % (l, self.src(x)) if l else self.src(x)) for l, x in t[2]))
        if k == "union":
            return "(" + " | ".join(self.src(x) for x in t[1]) + ")"
        if k == "partial":
            return "%s(%s)" % (t[1] or "", ", ".join("%s: %s" % (l, self.src(x)) for l, x in t[2]))
        if k == "list":
            return "'l%d" % t[1]
        if k == "fn":
            return "(#%s -> 'int)" % self.src(t[1])
        raise ValueError(k)

    NAME = {"A": 0, "B": 1, "C": 2, "Nil": 3, "Cons": 4}
    LAB = {"x": 0, "y": 1}

    def reg(self, R, t):
        """register the abstract type in the model registry R (c09.Reg); returns its type id"""
        k = t[0]
        if k in ("int", "bin"):
            return R.ty((k,))
        if k == "tup":
            fs = [(self.LAB[l] if l else None, self.reg(R, x)) for l, x in t[2]]
            return R.ty(("tuple", R.tu(self.NAME[t[1]], fs)))
        if k == "union":
            return R.ty(("union", tuple(self.reg(R, x) for x in t[1])))
        if k == "partial":
            return R.ty(("partial", self.NAME[t[1]] if t[1] else None, tuple((self.LAB[l], self.reg(R, x)) for l, x in t[2])))
        if k == "list":
            elem = self.reg(R, self.aliases[t[1]])
            nil = R.ty(("tuple", R.tu(self.NAME["Nil"], [])))
            cyc = R.ty(("cycle", 1))
            cons = R.ty(("tuple", R.tu(self.NAME["Cons"], [(None, elem), (None, cyc)])))
            return R.ty(("union", (nil, cons)))
        if k == "fn":
            p = self.reg(R, t[1])
            return R.ty(("fn", p, R.ty(("int",)), R.ty(("union", ()))))
        raise ValueError(k)

    # ---- values: (source text, model value s-expression)
    def gen_value(self, R, t, depth=3):
        k = t[0]
        if k == "int":
            return str(self.rng.randint(0, 9)), "(i)"
        if k == "bin":
            return "0x0%d" % self.rng.randint(1, 9), "(b)"
        if k == "tup":
            if not t[2]:
                return t[1], "(t %d)" % self.NAME[t[1]]
            parts = [self.gen_value(R, x, depth - 1) for _, x in t[2]]
            s = "%s[%s]" % (t[1], ", ".join(("%s: %s" % (l, p[0]) if l else p[0]) for (l, _), p in zip(t[2], parts)))
            m = "(t %d%s)" % (self.NAME[t[1]], "".join(" (%s %s)" % (self.LAB[l] if l else "-", p[1]) for (l, _), p in zip(t[2], parts)))
            return s, m
        if k == "union":
            return self.gen_value(R, self.rng.choice(t[1]), depth)
        if k == "list":
            if depth <= 0 or self.rng.random() < 0.4:
                return "Nil", "(t %d)" % self.NAME["Nil"]
            h = self.gen_value(R, self.aliases[t[1]], depth - 1)
            tl = self.gen_value(R, t, depth - 1)
            return "Cons[%s, %s]" % (h[0], tl[0]), "(t %d (- %s) (- %s))" % (self.NAME["Cons"], h[1], tl[1])
        if k == "fn":
            # a function declared with exactly this parameter type, result int, never receiving
            return None, "(f %d)" % self.reg(R, t)
        raise ValueError(k)


def gen_e2e_case(rng, c09reg):
    g = E2E(rng)
    members = []
    for _ in range(rng.choice([2, 3, 3, 4])):
        m = g.gen_type(2)
        if m[0] == "union":
            members += [x for x in m[1] if x not in members]
        elif m not in members:
            members.append(m)
    vt = rng.choice(members)
    pattern = g.gen_pattern(members, 2)
    R = c09reg()
    vsrc, vmodel = g.gen_value(R, vt)
    pid = g.reg(R, pattern)
    prelude = ["'l%d = Nil | Cons[%s, ^]" % (i, g.src(a)) for i, a in enumerate(g.aliases)]
    if vsrc is None:
        prelude.append("g = #%s { 1 }" % g.src(vt[1]))
        vsrc = "&g"
    static = " | ".join(g.src(m) for m in members)
    ascribed = rng.random() < 0.3      # `=(T)x` (type-ascribed binding) instead of `=T`
    ptxt = g.src(pattern)
    if ascribed:
        ptxt = (ptxt if pattern[0] == "union" else "(%s)" % ptxt) + "v"
    src = ", ".join(prelude + ["f = #(%s) { $ =%s }" % (static, ptxt), "%s f" % vsrc])
    feats = {"fn": vt[0] == "fn", "list": "'l" in src, "partial": pattern[0] == "partial", "union_pat": pattern[0] == "union",
             "ascribed": ascribed}
    return src, R, pid, vmodel, feats


# F57: analyze_partial_pattern drops the type check when the scrutinee's union has exactly one
# tuple/partial variant, so non-tuple members pass a partial pattern (or fail at run time on the field read)
PARTIAL_ELIDED_KEY = "F57"


def classify_e2e(feats, real, model, vm):
    """narrow structural signature of the known end-to-end defect classes"""
    if feats.get("partial") and real == "1" and model == "0" and not vm.startswith("(t "):
        return PARTIAL_ELIDED_KEY
    return None


def report_finding(ctx, obj, key, known_hits, limit=[0]):
    """route through known_findings.json (status known + this property); returns True when unmatched"""
    f = ctx.findings.get(key) if key else None
    if f and f.get("status") == "known" and f.get("property") == ctx.pid:
        known_hits[key] = known_hits.get(key, 0) + 1
        ctx.violation(obj, finding_key=key)
        return False
    limit[0] += 1
    if limit[0] <= 6:
        ctx.violation(obj)
    return True


# ---------------------------------------------------------------- targeted program templates
RESULTS = [("'int", "1"), ("'bin", "0x01"), ("A", "A"), ("B['int]", "B[2]")]
PARAMS = ["'int", "'bin", "C['int]", "('int | 'bin)"]


def tmpl_narrow_tuple(rng):
    """C08-1's shape: a tuple value whose exact type occurs in no signature or pattern (narrower than
    the declared variant), built in a function that shares its signature with an earlier function, and
    tested against the structurally wider union.  Expected: [0, index of the matching branch]."""
    name = rng.choice(["Circle", "T", "Node"])
    others = rng.sample(["Square", "Leaf", "Zed"], rng.choice([1, 2]))
    lab = rng.choice(["r: ", "x: ", ""])
    extra = rng.random() < 0.4
    wide = "%s[%s('int | 'bin)%s]" % (name, lab, ", 'int" if extra else "")
    variants = [wide] + others
    order = list(range(len(variants)))
    rng.shuffle(order)
    decl = " | ".join(variants[i] for i in order)
    branches, expect = [], None
    for k, i in enumerate(order):
        if i == 0:
            branches.append("=%s[%s_%s] => %d" % (name, lab, ", _" if extra else "", k + 1))
            expect = k + 1
        else:
            branches.append("=%s => %d" % (variants[i], k + 1))
    value = "%s[%s~%s]" % (name, lab, ", 7" if extra else "")
    src = ("'shape = %s, area = #'shape { | %s }, zero = #'int { 0 }, probe = #'int { %s ~> area }, [3 ~> zero, 3 ~> probe]"
           % (decl, " | ".join(branches), value))
    return src, ["0", str(expect)]


def tmpl_function_patterns(rng):
    """C08-2's shape: >= 2 functions sharing the parameter type with different result types, classified by
    function-type patterns; preceded by a separate program (merged first) that defines yet another function
    of the same parameter type.  Expected: the branch index per function, default for the int."""
    param = rng.choice(PARAMS)
    k = rng.choice([2, 2, 3])
    res = rng.sample(RESULTS, k)
    pre_res = rng.choice([r for r in RESULTS if r not in res] or RESULTS)
    prelude = "label = #%s { %s }, 5" % (param, pre_res[1])
    fns = ["g%d = #%s { %s }" % (i, param, r[1]) for i, r in enumerate(res)]
    types = ["(#%s -> %s)" % (param, r[0]) for r in res]
    pats = list(range(k))
    rng.shuffle(pats)
    npat = rng.choice([k, k, k - 1]) if k > 1 else k
    pats = pats[:max(1, npat)]
    branches = ["=%s => %d" % (types[j], n + 1) for n, j in enumerate(pats)]
    default = len(pats) + 1
    src = "%s, f = #(%s | 'int) { | %s | %d }, [%s, 5 f]" % (
        ", ".join(fns), " | ".join(types), " | ".join(branches), default,
        ", ".join("&g%d f" % i for i in range(k)))
    expect = [str(pats.index(i) + 1) if i in pats else str(default) for i in range(k)] + [str(default)]
    return prelude, src, expect


def parse_ran(line):
    """{configuration: outcome text} of a `(ran ..)` line"""
    out = {}
    for m in re.finditer(r"\((as-compiled|tree-shaken|merged-behind-\d+) ", line):
        out[m.group(1)] = balanced(line, m.start())[len(m.group(1)) + 2:-1]
    return out


def ints_of(outcome):
    m = re.match(r"\(ok \(t - \([- ]*\)((?: \(i -?\d+\))*)\)\)$", outcome)
    return re.findall(r"\(i (-?\d+)\)", m.group(1)) if m else None


def reg_literal(R):
    tus = " ".join("(tu %s%s)" % ("Ok" if n == "Ok" else ("-" if n is None else n),
                                  "".join(" (%s %d)" % ("-" if l is None else l, t) for l, t in fs)) for n, fs in R.tuples)
    from vplib.props.c09 import show_ty
    return "(reg (tuples %s) (types %s))" % (tus, " ".join(show_ty(t) for t in R.types))


def entry_process_untyped(inp):
    """F70c08's signature on a dumped CompatibilityInput: the program has Process types, and the entry
    function (Callable p r rc) has no `Process(Some rc, Some r)` entry — type_of_tag (CProcess entry) = None"""
    m = re.search(r"\(entry (\d+)\)", inp)
    if not m or "(proc " not in inp:
        return False
    fns = re.findall(r"\(f (\d+)[ \d]*\)", sub(inp, "fns") or "")
    e = int(m.group(1))
    if e >= len(fns):
        return False
    types = re.findall(r"\((?:int|bin|ref|tuple \d+|partial [^()]*(?:\([^()]*\) ?)*|fn \d+ \d+ \d+|cycle \d+|union[ \d]*|proc [-\d]+ [-\d]+|res \d+|var \d+)\)", sub(inp, "types") or "")
    t = int(fns[e])
    if t >= len(types):
        return False
    mm = re.match(r"\(fn (\d+) (\d+) (\d+)\)", types[t])
    if not mm:
        return False
    return ("(proc %s %s)" % (mm.group(3), mm.group(2))) not in types


def load_corpus(name):
    p = os.path.join(VERIF, "corpus", name)
    if not os.path.exists(p):
        return []
    return [l.rstrip("\n") for l in open(p) if l.strip() and not l.startswith("#")]


def run(ctx):
    from vplib.props.c09 import Reg
    ok = ctx.coq_props()
    qc = ctx.harness("qv_compat")
    qe = ctx.harness("qv_eval")
    drv = ctx.driver("compat")
    if not qc or not qe or not drv:
        return
    rng = ctx.rng
    # ------------------------------------------------------------------ 1. tables of real programs
    lines = load_corpus("c08_sources.txt")
    ncorpus = len(lines)
    harvested = [sexpr.quote(s) for _, s in testsrc.all_sources()]
    lines += harvested
    if ctx.tier == "thorough":
        # sequences of two harvested programs (more types/tuples/functions in one table)
        for _ in range(1500):
            a, b = rng.choice(harvested), rng.choice(harvested)
            lines.append(sexpr.quote(sexpr.parse(a) + ",\n" + sexpr.parse(b)))
    # F70 (fixed 5eb967d) regression probes: the entry process's own pid must be accepted somewhere
    # (a pattern row or a receive filter) in EVERY configuration; as found no row at all contained it
    entry_pid_at = len(lines)
    entry_pid_probes = load_corpus("c08_entry_pid.txt")
    lines += entry_pid_probes
    # targeted templates (each also executed in its three configurations further down)
    tmpl = []        # (source, expected ints or None)
    for src in load_corpus("c08_run.txt"):
        items = sexpr.parse("(" + src + ")")
        tmpl.append((items[0], items[1:] or None))
    for _ in range(ctx.n(60, 1500)):
        tmpl.append(tmpl_narrow_tuple(rng))
    for _ in range(ctx.n(60, 1500)):
        pre, src, exp = tmpl_function_patterns(rng)
        tmpl.append((pre, None))
        tmpl.append((src, exp))
    ntmpl_at = len(lines)
    lines += [sexpr.quote(t[0]) for t in tmpl]
    rc, out = ctx.run_sharded(qc, lines, args=["--merge", "3"], shards=8, timeout=1500)
    inputs, real_tables, owner = [], [], []
    outcome_hist, cfg_hist = {}, {}
    config_failures = []
    entry_lost = []      # a constructible tuple tag lost its Type::Tuple entry through tree-shaking / merging
    entry_dependent = []  # verdict differs between configurations only because the tag lacks a type entry in one
    untyped_entry = []   # the entry function's process type is not in the program's own table (F70c08's old signature;
                         # since 5eb967d the tables are computed with it appended — informational)
    entry_pid_rejected = []  # F70 regression probes where no row contains the entry process's tag
    for li, o in enumerate(out):
        kind = o[1:o.find(" ")] if " " in o else o.strip("()")
        outcome_hist[kind] = outcome_hist.get(kind, 0) + 1
        if not o.startswith("(compiled"):
            if o.startswith("(panic"):
                ctx.violation({"kind": "impl-violation", "statement": "panic while compiling/packaging/merging", "case": lines[li], "real_output": o[:400]})
            continue
        cs = cfgs_of(o)
        if entry_pid_at <= li < entry_pid_at + len(entry_pid_probes):
            for name, inp, tab, st in cs:
                m = re.search(r"\(entry (\d+)\)", inp)
                if not m or ("(p %s)" % m.group(1)) not in tab:
                    entry_pid_rejected.append((li, name))
        structs = []
        for name, inp, tab, st in cs:
            base = re.sub(r"-\d+$", "", name)
            cfg_hist[base] = cfg_hist.get(base, 0) + 1
            inputs.append(inp); real_tables.append(tab); owner.append((li, name))
            if entry_process_untyped(inp):
                untyped_entry.append((li, name))
            structs.append((name, struct_of(st)))
        # same verdict in every configuration, on structural images
        for i in range(len(structs)):
            for j in range(i + 1, len(structs)):
                (na, (ta, pa, ba)), (nb, (tb, pb, bb)) = structs[i], structs[j]
                # has_type_entry (hypothesis of istype_complete) must survive packaging: a tuple shape that
                # configuration nb constructs and that has a Type::Tuple entry in na (the earlier, fuller
                # configuration) must still have one in nb
                if na == "as-compiled":
                    for tk in bb:
                        if tk in ta and tk not in tb:
                            entry_lost.append((li, na, nb, tk))
                # tags whose structural image has a type entry in BOTH configurations; a tag without an
                # entry is never accepted (no_type_entry_never_accepted) — that class is has_type_entry's,
                # counted separately
                common = {t for t in ta if not t.startswith("!")} & {t for t in tb if not t.startswith("!")}
                lacking = ({t[1:] for t in ta if t.startswith("!")} & {t for t in tb if not t.startswith("!")}) | \
                          ({t[1:] for t in tb if t.startswith("!")} & {t for t in ta if not t.startswith("!")})
                for pk in set(pa) & set(pb):
                    for tk in common:
                        if (tk in pa[pk]) != (tk in pb[pk]):
                            config_failures.append((li, na, nb, pk, tk, tk in pa[pk]))
                    for tk in lacking:
                        if (tk in pa[pk]) != (tk in pb[pk]):
                            entry_dependent.append((li, na, nb, pk, tk))
    rc2, model_tables = ctx.run_sharded(drv, inputs, timeout=1500)
    disagreements = 0
    rows_compared = 0
    table_reports = []   # reported after the executions: a failing verdict found there is the failing input
    for k, (rt, mt) in enumerate(zip(real_tables, model_tables)):
        rows_compared += rt.count("(row")
        if rt != mt:
            disagreements += 1
            if disagreements <= 4:
                li, name = owner[k]
                table_reports.append({"kind": "correspondence-broken", "correspondence": "Compat.v vs compatibility.rs tables (%s)" % name,
                                      "case": lines[li], "input": inputs[k][:3000], "real": rt[:3000], "model": mt[:3000]})
    for (li, name) in entry_pid_rejected[:3]:
        ctx.violation({"kind": "impl-violation", "statement": "F70 regression (fixed 5eb967d): the process tag of the entry function is in no row of the runtime tables (no pattern and no receive filter accepts the top-level process's own pid)",
                       "case": lines[li], "configuration": name})
    for li in range(entry_pid_at, entry_pid_at + len(entry_pid_probes)):
        if not out[li].startswith("(compiled"):
            ctx.violation({"kind": "impl-violation", "statement": "F70 regression probe does not compile", "case": lines[li], "real_output": out[li][:300]})
    for (li, na, nb, tk) in entry_lost[:4]:
        ctx.violation({"kind": "impl-violation", "statement": "has_type_entry lost: a tuple the configuration constructs has a Type::Tuple entry as compiled but none after packaging, so every runtime type test rejects it there",
                       "case": lines[li], "configurations": [na, nb], "tag": tk})
    for (li, na, nb, pk, tk, va) in config_failures[:4]:
        ctx.violation({"kind": "impl-violation", "statement": "table_config_invariant: the same (pattern, tag) gets a different verdict in two configurations of one program",
                       "case": lines[li], "configurations": [na, nb], "pattern": pk, "tag": tk, "accepted_in_first": va})
    # ------------------------------------------------------------------ 1b. templates executed in every configuration
    rcr, ran = ctx.run_sharded(qc, [sexpr.quote(t[0]) for t in tmpl], args=["--merge", "2", "--run"], shards=1, timeout=1500)
    run_cfgs, run_failures = 0, 0
    for (src, exp), r in zip(tmpl, ran):
        outs = parse_ran(r)
        if not outs:
            if r.startswith("(panic"):
                ctx.violation({"kind": "impl-violation", "statement": "panic while running a template program", "case": src, "real_output": r})
            continue
        run_cfgs += len(outs)
        vals = set(outs.values())
        bad = None
        if len(vals) > 1:
            bad = "the program gives different results as compiled / tree-shaken / merged"
        elif exp is not None and ints_of(next(iter(vals))) != list(exp):
            bad = "the program's type tests give %s, expected %s" % (next(iter(vals)), " ".join(exp))
        if bad:
            run_failures += 1
            if run_failures <= 4:
                ctx.violation({"kind": "impl-violation", "statement": bad, "case": src, "outcomes": outs, "expected": exp})
    # ------------------------------------------------------------------ 2. end-to-end verdicts
    n = ctx.n(1500, 40000)
    e2e = []
    pinned = []     # hand-written probes: `"<source>" <0|1>` (expected verdict; 1 = Ok)
    for l in load_corpus("c08_e2e.txt"):
        items = sexpr.parse("(" + l + ")")
        pinned.append((items[0], items[1]))
    for _ in range(n):
        try:
            e2e.append(gen_e2e_case(rng, Reg))
        except (ValueError, IndexError):
            continue
    rc3, verdicts = ctx.run_sharded(qe, [sexpr.quote(c[0]) for c in e2e] + [sexpr.quote(p[0]) for p in pinned], timeout=1500)
    pinned_verdicts = verdicts[len(e2e):]
    verdicts = verdicts[:len(e2e)]
    mlines = ["(member %s (depth 8) (q %d %s))" % (reg_literal(R), pid, vm) for (_, R, pid, vm, _) in e2e]
    rc4, mem = ctx.run_sharded(drv, mlines, timeout=1500)
    e2e_hist, e2e_run, e2e_mismatch = {}, 0, 0
    known_hits, unmatched = {}, 0
    odd_samples = []
    feat_hist = {}
    for (src, R, pid, vm, feats), v, m in zip(e2e, verdicts, mem):
        if v.startswith("(ok (t Ok"):
            real = "1"
        elif v.startswith("(ok (t - ())"):
            real = "0"
        else:
            k = v[1:v.find(" ")] if " " in v else v
            e2e_hist[k] = e2e_hist.get(k, 0) + 1
            if k not in ("compile-error", "parse-error") and len(odd_samples) < 5:
                odd_samples.append({"case": src, "real_output": v})
            if v.startswith("(panic"):
                ctx.violation({"kind": "impl-violation", "statement": "panic in a type-test program", "case": src, "real_output": v})
            elif v.startswith("(err"):
                # a type test must answer Ok or []: a runtime error means a field was read without the type check
                e2e_mismatch += 1
                key = PARTIAL_ELIDED_KEY if feats.get("partial") and not vm.startswith("(t ") else None
                if report_finding(ctx, {"kind": "impl-violation", "statement": "a type-test program fails at run time instead of answering Ok or []",
                                        "case": src, "real_output": v, "value": vm, "matched_signature": key}, key, known_hits):
                    unmatched += 1
            continue
        model = m.strip()[3:-1].strip() if m.startswith("(m ") else "?"
        if model not in ("0", "1"):
            e2e_hist["model-" + model] = e2e_hist.get("model-" + model, 0) + 1
            continue
        e2e_run += 1
        for f, on in feats.items():
            if on:
                feat_hist[f] = feat_hist.get(f, 0) + 1
        e2e_hist["accepted" if real == "1" else "rejected"] = e2e_hist.get("accepted" if real == "1" else "rejected", 0) + 1
        if real != model:
            e2e_mismatch += 1
            key = classify_e2e(feats, real, model, vm)
            obj = {"kind": "impl-violation",
                   "statement": "the runtime type test %s a value that %s the pattern type" % (("accepts", "does not inhabit") if real == "1" else ("rejects", "inhabits")),
                   "case": src, "real_output": v, "model_membership": model, "model_registry": reg_literal(R), "pattern_type_id": pid, "value": vm,
                   "matched_signature": key}
            if report_finding(ctx, obj, key, known_hits):
                unmatched += 1
    for (src, want), v in zip(pinned, pinned_verdicts):
        real = "1" if v.startswith("(ok (t Ok") else ("0" if v.startswith("(ok (t - ())") else v)
        if real != want:
            e2e_mismatch += 1
            key = PARTIAL_ELIDED_KEY if re.search(r"=\w*\(\w+:", src) else None
            obj = {"kind": "impl-violation", "statement": "pinned end-to-end probe: expected verdict %s" % want, "case": src, "real_output": v, "matched_signature": key}
            if report_finding(ctx, obj, key, known_hits):
                unmatched += 1
    for obj in table_reports:
        # the model is proved to be the relation (table_is_relation): a differing real row is a wrong row; it
        # comes with a failing input when some executed program shows a wrong verdict
        ctx.violation(obj, no_input=(run_failures == 0 and e2e_mismatch == 0))
    # ------------------------------------------------------------------ evidence
    seen = set()
    nontrivial = 0
    for k, inp in enumerate(inputs):
        h = hashlib.sha1(inp.encode()).hexdigest()
        if h not in seen:
            seen.add(h)
            if "(row " in real_tables[k] and ("(union " in inp or "(partial" in inp):
                nontrivial += 1
    ctx.cov.update({
        "evaluations": rows_compared + e2e_run, "programs": len(lines), "corpus_programs": ncorpus,
        "compile_outcomes": outcome_hist, "configurations_compared": len(inputs), "configurations_by_kind": cfg_hist,
        "table_rows_compared": rows_compared, "distinct_nontrivial": nontrivial,
        "rule": "every source string of quiver-tests, std/*.qv, examples, spec.md code blocks (+ corpus/c08_sources.txt; thorough: 1500 sequenced pairs), each in up to three configurations (as compiled, tree-shaken, merged behind 0-2 earlier programs); non-trivial = distinct CompatibilityInput (SHA-1) with a non-empty table row and a union or partial type",
        "config_invariance_failures": len(config_failures), "constructible_tuple_entries_lost_by_packaging": len(entry_lost), "verdicts_differing_only_by_missing_type_entry": len(entry_dependent),
        "missing_type_entry_samples": [{"case": lines[li], "configurations": [na, nb], "pattern": pk, "tag": tk} for (li, na, nb, pk, tk) in entry_dependent[:3]], "configurations_whose_entry_process_type_is_supplied_by_the_table_extension": len(untyped_entry), "entry_pid_probes": len(entry_pid_probes), "entry_pid_probes_rejected": len(entry_pid_rejected),
        "template_programs": len(tmpl), "template_configurations_executed": run_cfgs, "template_run_failures": run_failures,
        "e2e_cases_generated": len(e2e), "e2e_verdicts_compared": e2e_run, "e2e_mismatches": e2e_mismatch, "e2e_mismatches_matching_known_findings": known_hits, "e2e_mismatches_unmatched": unmatched, "e2e_pinned_probes": len(pinned),
        "e2e_outcomes": e2e_hist, "e2e_other_outcome_samples": odd_samples, "e2e_features": feat_hist,
        "traces_validated_against_impl": len(inputs) - disagreements, "disagreements_checked": disagreements,
        "samples": [lines[ncorpus] if len(lines) > ncorpus else None] + [c[0] for c in e2e[:3]],
    })
    if not ok:
        ctx.violation({"kind": "theorem-broken", "theorem": getattr(ctx, "broken_theorem", "?"),
                       "searched": "%d configurations of real tables, %d end-to-end verdicts: %d table disagreements, %d verdict mismatches" % (len(inputs), e2e_run, disagreements, e2e_mismatch)},
                      no_input=(disagreements == 0 and e2e_mismatch == 0))
