"""C17 — formatting is a fixpoint and preserves the program and its comments.

theorem layer : coq/theories/props/C17.v — the three places where the formatter changes / re-encodes the
                program: block normalisation (Simplify.v), string escaping (Escape.v), layout (Pretty.v)
correspondence: (a) extracted normalize_blocks vs the real `simplify::normalize_blocks` on real-parser ASTs
                (b) extracted escape/unescape vs real `format_program` + real `parse` on one-string programs,
                    and extracted string processing vs the real parser on raw string bodies
                (c) extracted printer vs the real `pretty::print` on generated Docs at several widths
deciding check: end-to-end, real vs real, no model: parse -> format -> reparse / format again / compare
                normalised ASTs / compare bytecode / compare comment sequences, on grammar-generated
                sources + std/*.qv + every parsing source string of quiver-tests/tests/*.rs.
                Each failure is an impl-violation (source = replay, shrunk), unless its *input signature*
                matches a known finding (F15..F19, F30..F44, F60..F63) whose status in known_findings.json is "known"."""
import glob, hashlib, os, re
from vplib import sexpr
from vplib.common import REPO, VERIF
from vplib.props.c17gen import Gen

MANIFEST = dict(
    category="proof",
    text="partial. Coq theorems (22, closed under the global context): "
         "(1) normalize_blocks (model of simplify.rs) is idempotent for the compiler's option set and for the formatter's with ANY keep predicate, "
         "and formatter-then-compiler normalisation equals compiler normalisation for ANY keep predicate (format_then_compile_same: 'identical after removing no-op blocks'); "
         "(2) the string escapers of format.rs are inverted by the parser's unescaping, single-line and multi-line (every string and margin: \\s protection, CR/TAB/quote/brace/backslash escapes, "
         "empty lines, closing delimiter found where expected, no hole opened), and the printer's trailing-space stripping leaves every rendered line intact; "
         "(3) the Wadler printer of pretty.rs is total and emits exactly the Text atoms of the Doc in order for every width, each IfBreak resolved by its enclosing group's mode "
         "(docs with LineSuffix: as a permutation); "
         "(4) on the data-literal fragment (integers, identifiers, single-line strings, nested anonymous/named tuples with optional labels, chains) BOTH the formatter's Doc construction "
         "(term_doc, tuple_doc, field_doc, bracketed with its trailing comma, chain_doc with the head-flat-plus-container and `~>`-continuation layouts and the 50-column soft width, "
         "break_if_wider_than, flatten, flat_width, format_program for one statement) AND the parser (program, chain, primary, tuple_term, tuple_field(_list), identifier, tuple_name, integer_literal, "
         "string_segments) are modelled, and parse o print = id holds for EVERY width (frag_roundtrip), hence print o parse o print = print (frag_format_fixpoint), the parser only yields "
         "well-formed chains (parse_frag_wf) and formatting any accepted fragment source is a fixpoint (frag_source_fixpoint); "
         "(5) NEW: the same for the fragment WITH BLOCKS (FormatFrag2: `{..}` with `|` branches, guards `=>`, multi-step sequences): the model adds format_program's normalize_blocks step, "
         "sequence_doc with several steps and tall steps, is_tall_step, block_doc, leading_bar, branch_doc, wrap_breaking_body, collapse_blanks and the parser's block / expression / branch / sequence / seq_sep; "
         "for EVERY width the output parses to the input up to the no-op blocks the formatter removes or adds (frag2_roundtrip: g_normalize c' = g_normalize s), formatting the re-parsed output reproduces it "
         "(frag2_format_fixpoint), the fragment's normalisation is idempotent, the parser yields well-formed sequences and formatting any accepted source is a fixpoint (frag2_source_fixpoint). "
         "Every modelled function is compared with the real one on generated inputs at every run (counts in the evidence: modelled_functions_compared_with_real_code). "
         "NOT proved (partial): outside the two fragments the Doc construction of format.rs (functions, spawn/select forms, patterns and bindings, types and type aliases, multi-line strings and holes inside layouts, the comma rules needs_comma/term_gap), "
         "comment/blank-line (trivia) scanning and attachment, collapse_blanks and the rest of the nom parser are unmodelled, and normalize_preserves_eval is left to C02; "
         "so for the full language the user-visible property (output re-parses, is a fixpoint, same program up to no-op blocks, same bytecode, same comment sequence) is decided by an end-to-end "
         "real-vs-real metamorphic search over grammar-generated sources (all forms, comments/blank lines/CRLF at every boundary), std/*.qv, and every parsing source string of the test suite "
         "and of format.rs's own tests.",
    design_ref="§5 C17",
    note="Trusted: Coq kernel, extraction (ExtrOcamlBasic), OCaml driver, Rust harness (incl. its own interpolation-aware comment scanner), generators. "
         "The search found 26 defect classes in the real formatter (F15-F19, F30-F44, F60-F63, F79c17, F89, F90; incl. a panic and two program-changing rewrites); 23 are repaired in /repo and their reproducers are "
         "must-pass corpus probes; F32, F41, F79c17 were repaired from hooks/fix_*.patch; still known: F31 (only its residual class: a comment inside a type, a pattern or an interpolation hole), "
         "F89 and F90 (residues of the F31 repair; repairs proposed in hooks/fix_F89.patch and hooks/fix_F90.patch). Known findings are matched narrowly by input signature and only while known_findings.json lists them as known.",
    technique="Coq proof of the simplifier / string codec / layout models and of parse-print round trips on a modelled fragment + model-code correspondence by differential execution + "
              "end-to-end metamorphic testing of the real formatter",
)

CK = {"comments:reordered", "comments:merged", "comments:lost", "comments:changed"}
IK = {"idem:layout", "idem:content"}
KNOWN = {
    "F15": ("multi-blank2", {"ast", "bc"}),                 # blank lines inside a """ string collapsed
    "F16": ("hole-string", CK | IK),                        # trivia scanner not interpolation-aware
    "F17": ("hole-comment", CK),                            # comment inside a string hole dropped
    "F18": ("multi-uspace", {"ast", "bc"}),                 # trailing Unicode space of a """ line stripped
    "F19": ("tail-block", {"ast", "bc"}),                   # trivia-kept block ending in a tail call
    "F30": ("blank-line", {"idem:layout"}),                 # a blank line forces a break but is not kept -> 2nd format re-joins
    "F31": (("hole-comment", "comment-in-pattern", "comment-in-type"), {"comments:reordered"}),   # residual class only: a comment INSIDE an interpolation hole, a pattern or a type (rendered as one piece of text, no AST node to stay with) overtakes other comments
    "F89": (("comment-in-empty-brackets", "comment-before-comma-closer"), {"comments:reordered"}),   # residue of the F31 repair: a comment followed only by commas (and comments) up to the closing bracket is not recognised as the last thing in the brackets
    "F90": ("comment-in-select-sources", {"comments:reordered"}),   # the sources of a `! [ .. ]` are not nodes a comment can attach to: a comment among them moves out and can overtake another
    "F91": ("hole-backslash", {"reparse"}),   # PARSER defect: a string term at the start of a step whose hole holds a backslash (a resource type `\\F`) does not parse: the string-PATTERN alternative is tried first and aborts on the 'invalid escape'
    "F32": ("two-comments", {"comments:merged"}),           # two trailing comments of one node land on one line
    "F33": ("multi-pattern", {"ast"} | IK),                      # a """ string pattern is re-rendered as "..." (StringStyle changes)
    "F34": ("lower-tuple-type", {"reparse"}),               # `'e[...]` rendered as `e[...'e]`
    "F35": ("partial-type-pattern", {"ast", "bc"}),         # `((j: 't))` rendered as `(j: 't)` = a different pattern
    "F36": ("spawn-rich-function", {"ast", "bc", "reparse"}),   # `@#<'t>'int -> 'bin {..}` rendered with the `@type {..}` sugar
    "F37": ("wrap-binding", {"ast", "bc"}),                 # wrap_breaking_body braces a binding/matching chain
    "F38": (("comment-in-arrow-branch", "comment-near-arrow"), IK),                    # a comment inside a `cond => consequence` branch (in the guard, next to `=>`, in or trailing the consequence) is attached differently by the 2nd format (wraps the consequence in braces / re-joins)
    "F39": ("spawn-container", {"panic"}),                  # `@[..]`, `@"s"`: format_program panics (format.rs:432 unreachable!)
    "F40": ("primitive-named-identifier", {"ast", "bc"}),   # `(<'int>)c`: a type-parameter pattern loses its angle brackets -> `('int)c` (primitive, not the parameter)
    "F41": ("toplevel-type-binding", {"reparse", "ast", "bc"}),  # a statement `'d<'t> = <chain>` (type pattern binding) is re-read as a type alias
    "F43": ("name-then-paren", {"reparse"}),               # `.. Name , (pat) = ..` (also `=Name`, or a type alias ending in a bare name): the comma becomes a newline and `Name\n(` no longer parses (tuple_name refuses a following `(` across whitespace)
    "F44": ("out-comment-before-continuation", {"reparse"} | CK),             # a deferred trailing comment (e.g. of a guard, or one written inside a pattern) is flushed at the first line break, which can be a `~>` continuation line: output does not re-parse (signature read off the OUTPUT: a comment ends a line whose successor starts with `~>`)
    "F60": ("select-then-tuple", {"ast", "bc"} | IK),       # `x ! ~> [a]` is rendered `x ! [a]` = the general select form with sources
    "F61": ("bodyless-fn-then-block", {"ast", "bc"} | IK),  # `#'int ~> { .. }` / `.. #'int, { .. } ..` is rendered `#'int { .. }` / `#'int\n{ .. }` = a function WITH that body
    "F63": ("empty-select-sources", {"idem:layout"}),       # an over-long chain breaks inside the empty source list of `! []` and emits a blank line there, which the 2nd format re-attaches
    "F79c17": (frozenset({"hole-name-then-paren", "hole-string"}), {"reparse"}),   # residue of the F43 repair: inside a string hole that contains a """ string the hole is flattened with raw newlines and `Name\n(` appears again
    "F62": ("multi-hole-trivia", {"reparse"} | CK | IK),    # chains inside a hole of a """ string carry offsets relative to the hole: comments/blank lines of the file are attached to them (printed inside the hole)
}


def q(s):
    return sexpr.quote(s)


def parse_e2e(line):
    """e2e output line -> dict(status, fails, sig, feat, ...)."""
    if line.startswith("(parse-error)"):
        return {"status": "parse-error"}
    if line.startswith("(panic"):
        return {"status": "panic", "fails": {"panic"}, "raw": line, "sig": {"spawn-container"} if "spawn-container" in line else set()}
    if not line.startswith("(e2e"):
        return {"status": "harness-error", "fails": {"harness"}, "raw": line[:300], "sig": set()}
    s = sexpr.parse(line)
    d = {"status": "ok", "fails": set(), "sig": set(), "feat": {}}
    for item in s[1:]:
        k = item[0]
        if k == "reparse" and item[1] != "ok":
            d["fails"].add("reparse")
        elif k == "idem" and item[1] != "ok":
            d["fails"].add("idem:" + item[1])
        elif k == "ast" and item[1] != "ok":
            d["fails"].add("ast")
        elif k == "bc":
            v = item[1]
            d["bc"] = v if isinstance(v, str) else v[0]
            if d["bc"] not in ("same", "skip"):
                d["fails"].add("bc")
            if not isinstance(v, str):
                d["bc_detail"] = v
        elif k == "comments" and item[1] != "ok":
            d["fails"].add("comments:" + item[1])
        elif k == "sig":
            d["sig"] = set(item[1:])
        elif k == "feat":
            d["feat"] = {f[0]: int(f[1]) for f in item[1:]}
        elif k in ("ncomments", "maxline", "lines"):
            d[k] = int(item[1])
        elif k == "linelens":
            d["linelens"] = [int(x) for x in item[1:]]
        elif k in ("out", "out2"):
            d[k] = item[1]
    return d


def explained_by(ctx, info):
    """Known findings (status == known) whose input signature matches and whose allowed failure kinds
    together cover every failing check of this case. Returns the list of ids, or None."""
    ids, covered = [], set()
    for fid, (sig, kinds) in KNOWN.items():
        f = ctx.findings.get(fid)
        if not f or f.get("status") != "known" or f.get("property") != ctx.pid.replace("scratch", ""):
            continue        # a fixed / unregistered finding suppresses nothing
        if isinstance(sig, frozenset):          # all of these signature tokens
            hit = sig <= info["sig"]
        else:                                   # one token, or any of a tuple
            hit = any(x in info["sig"] for x in ((sig,) if isinstance(sig, str) else sig))
        if hit and info["fails"] & kinds:
            ids.append(fid)
            covered |= kinds
    if ids and info["fails"] <= covered:
        return ids
    return None


class E2E:
    def __init__(self, ctx, exe):
        self.ctx, self.exe = ctx, exe

    def run(self, sources, out=False, sharded=True):
        lines = [q(s) for s in sources]
        args = ["e2e"] + (["--out"] if out else [])
        if sharded:
            rc, res = self.ctx.run_sharded(self.exe, lines, args=args)
        else:
            rc, res = self.ctx.run_bin(self.exe, lines, args=args)
        res = res + ["(missing-output)"] * (len(lines) - len(res))
        return [parse_e2e(l) for l in res]

    def shrink(self, src, fails, rounds=40):
        """Greedy delta-debugging: delete line chunks, then tokens, then characters, keeping the same
        primary failure (and keeping it unexplained by a known finding)."""
        want = set(fails)

        def still(info):
            return info.get("status") in ("ok", "panic") and (info["fails"] & want) and explained_by(self.ctx, info) is None

        def pieces(s, mode):
            if mode == "lines":
                return s.splitlines(keepends=True)
            if mode == "tokens":
                return re.findall(r"\s+|[A-Za-z0-9_']+|.", s, re.S)
            return list(s)

        cur = src
        for mode in ("lines", "tokens", "chars"):
            n = 2
            while rounds > 0:
                ps = pieces(cur, mode)
                if len(ps) < 2 or (mode == "chars" and len(ps) > 400):
                    break
                chunk = max(1, len(ps) // n)
                cands = []
                for i in range(0, len(ps), chunk):
                    c = "".join(ps[:i] + ps[i + chunk:])
                    if c.strip() and c != cur:
                        cands.append(c)
                cands = cands[:300]
                if not cands:
                    break
                rounds -= 1
                infos = self.run(cands, sharded=len(cands) > 64)
                ok = [c for c, inf in zip(cands, infos) if still(inf)]
                if ok:
                    cur = min(ok, key=len)
                    n = max(2, n - 1)
                elif chunk == 1:
                    break
                else:
                    n = min(len(ps), n * 2)
        return cur


# ------------------------------------------------------------------------------------------ sources
def rust_string_literals(text):
    """Source strings found in a Rust test file: "..." (with escapes) and r#"..."# raw strings."""
    out = []
    for m in re.finditer(r'r(#+)"(.*?)"\1', text, re.S):
        out.append(m.group(2))
    text2 = re.sub(r'r(#+)"(.*?)"\1', '""', text, flags=re.S)
    for m in re.finditer(r'"((?:[^"\\]|\\.)*)"', text2, re.S):
        s = m.group(1)
        s = re.sub(r"\\\n\s*", "", s)       # line continuation

        def unesc(mm):
            c = mm.group(1)
            if c.startswith("u{"):
                try:
                    return chr(int(c[2:-1], 16))
                except ValueError:
                    return ""
            return {"n": "\n", "t": "\t", "r": "\r", "0": "\0", "\\": "\\", '"': '"', "'": "'"}.get(c, "\\" + c)
        s = re.sub(r"\\(u\{[0-9a-fA-F]+\}|.)", unesc, s, flags=re.S)
        out.append(s)
    return out


def repo_sources():
    std = []
    for f in sorted(glob.glob(os.path.join(REPO, "std", "*.qv"))):
        std.append(open(f, encoding="utf-8").read())
    tests, seen = [], set()
    for f in sorted(glob.glob(os.path.join(REPO, "quiver-tests", "tests", "*.rs"))) + [os.path.join(REPO, "quiver-compiler", "src", "format.rs")]:
        try:
            text = open(f, encoding="utf-8").read()
        except OSError:
            continue
        for s in rust_string_literals(text):
            if s.strip() and s not in seen and len(s) < 20000:
                seen.add(s)
                tests.append(s)
    return std, tests


def corpus_sources():
    p = os.path.join(VERIF, "corpus", "c17_sources.txt")
    if not os.path.exists(p):
        return []
    out = []
    for l in open(p, encoding="utf-8"):
        l = l.rstrip("\n")
        if l.startswith('"'):
            out.append(sexpr.parse(l))
    return out


def gen_sources(ctx, n):
    """n generated programs; returns [(source, kind, ground-truth comments)]."""
    out = []
    for i in range(n):
        r = ctx.rng.random()
        typed = r < 0.3
        noise = ctx.rng.choice([0.0, 0.1, 0.3, 0.3, 0.6, 0.9])
        g = Gen(ctx.rng, noise=noise, comments=ctx.rng.choice([0.0, 0.2, 0.4, 0.6]), typed=typed, budget=ctx.rng.choice([10, 25, 40, 80]))
        try:
            src = g.program()
        except RecursionError:
            continue
        # ground truth for the comment scanner: the generator's own markers, in source order
        out.append((src, "typed" if typed else "free", re.findall(r"//[ ]?c\d+#", src)))
    return out


# ------------------------------------------------------------------------------------------ main
def run(ctx):
    import time
    t0 = time.time()
    timings = {}
    from vplib.common import ensure_coq_makefile
    ok = ctx.coq_props()
    if not ok and "No rule to make target" in str(ctx.cov.get("coq_error", "")):
        # another process removed/renamed a .v file between `coq_makefile` and `make` (shared tree): regenerate and retry once
        ensure_coq_makefile(force=True)
        ok = ctx.coq_props()
    timings["coq_build_and_audit_s"] = round(time.time() - t0, 1)
    qf = ctx.harness("qv_format")
    nviol = len(ctx.violations)
    drv = ctx.driver("format")
    if not drv:
        # same transient (stale Makefile dependencies of the shared Coq tree): regenerate and retry once
        ensure_coq_makefile(force=True)
        drv = ctx.driver("format")
        if drv:
            del ctx.violations[nviol:]
    if not qf:
        return
    e2e = E2E(ctx, qf)

    if getattr(ctx, "replay_path", None):
        return replay(ctx, e2e, drv, qf)

    # ---------------------------------------------------------------- end-to-end, real vs real
    std, tests = repo_sources()
    corpus = corpus_sources()
    gen = gen_sources(ctx, ctx.n(8000, 40000))
    sources = [(s, "corpus", None) for s in corpus] + [(s, "std", None) for s in std] + [(s, "tests", None) for s in tests] + gen
    t1 = time.time()
    infos = e2e.run([s for s, _, _ in sources])
    timings["e2e_s"] = round(time.time() - t1, 1)

    stats = {"by_origin": {}, "parse_errors": {}, "with_comments": 0, "multi_line_strings": 0, "single_strings": 0,
             "straddle_40": 0, "straddle_50": 0, "straddle_100": 0, "broken_layout": 0, "bytecode_compared": 0,
             "compiles_not": 0, "crlf": 0}
    form_hist, seen, parsed, nontrivial = {}, set(), 0, 0
    failures, known_hits, scanner_mismatch = [], {}, 0
    parsed_sources = []
    for (src, origin, truth), info in zip(sources, infos):
        if info["status"] == "parse-error":
            stats["parse_errors"][origin] = stats["parse_errors"].get(origin, 0) + 1
            continue
        stats["by_origin"][origin] = stats["by_origin"].get(origin, 0) + 1
        parsed += 1
        parsed_sources.append(src)
        h = hashlib.sha1(src.encode("utf-8", "surrogatepass")).hexdigest()
        feat = info.get("feat", {})
        for k, v in feat.items():
            form_hist[k] = form_hist.get(k, 0) + 1          # number of sources containing the form
        lens = info.get("linelens", [])
        has_comment = info.get("ncomments", 0) > 0
        s40 = any(36 <= x <= 44 for x in lens)
        s50 = any(46 <= x <= 54 for x in lens)
        s100 = any(95 <= x <= 100 for x in lens)
        multi = feat.get("Multi", 0) > 0
        stats["with_comments"] += has_comment
        stats["multi_line_strings"] += multi
        stats["single_strings"] += feat.get("Single", 0) > 0
        stats["straddle_40"] += s40
        stats["straddle_50"] += s50
        stats["straddle_100"] += s100
        stats["broken_layout"] += info.get("lines", 0) > 1
        stats["crlf"] += "\r\n" in src
        if info.get("bc") == "same" or "bc" in info.get("fails", ()):
            stats["bytecode_compared"] += 1
        elif info.get("bc") == "skip":
            stats["compiles_not"] += 1
        if h not in seen:
            seen.add(h)
            if has_comment or multi or s40 or s50 or s100 or info.get("lines", 0) > 1 or feat.get("Block", 0) > 0:
                nontrivial += 1
        # the generator's ground truth validates the harness's comment scanner (only where no comment can sit in a hole)
        if truth is not None and "hole-comment" not in info["sig"] and "hole-string" not in info["sig"] and info.get("ncomments") is not None:
            if info["ncomments"] != len(truth):
                scanner_mismatch += 1
        if info["fails"]:
            ids = explained_by(ctx, info)
            if ids:
                for fid in ids:
                    known_hits[fid] = known_hits.get(fid, 0) + 1
                    if known_hits[fid] <= 1:
                        ctx.violation({"kind": "impl-violation", "finding": fid, "failing_checks": sorted(info["fails"]),
                                       "signature": sorted(info["sig"]), "source": src, "origin": origin}, finding_key=fid)
            else:
                failures.append((src, origin, info))

    # unknown failures: shrink and report (bounded number of replays; all are counted)
    reported, n_reported = {}, 0
    for src, origin, info in sorted(failures, key=lambda f: len(f[0])):
        key = (tuple(sorted(info["fails"])), tuple(sorted(info["sig"])))
        reported[key] = reported.get(key, 0) + 1
        if reported[key] > 1 or n_reported >= 6:
            continue
        n_reported += 1
        small = e2e.shrink(src, info["fails"], rounds=25) if info["status"] != "harness-error" else src
        detail = e2e.run([small], out=True, sharded=False)[0]
        ctx.violation({"kind": "impl-violation", "oracle": "end-to-end real-vs-real metamorphic check of format_program",
                       "failing_checks": sorted(detail.get("fails", info["fails"])), "signature": sorted(detail.get("sig", [])),
                       "source": small, "original_source": src if len(src) < 4000 else src[:4000], "origin": origin,
                       "formatted": detail.get("out"), "formatted_twice": detail.get("out2"), "bytecode": detail.get("bc"),
                       "raw": detail.get("raw")})

    # ---------------------------------------------------------------- (a) normalize_blocks: model vs real, + the theorems on the real function
    t2 = time.time()
    norm_cases = corr_norm(ctx, qf, drv, parsed_sources) if drv else {}
    timings["corr_normalize_s"] = round(time.time() - t2, 1)
    t2 = time.time()
    # ---------------------------------------------------------------- (b) escape / unescape
    esc_cases = corr_escape(ctx, qf, drv) if drv else {}
    # ---------------------------------------------------------------- (c) pretty printer
    pretty_cases = corr_pretty(ctx, qf, drv) if drv else {}
    frag_cases = corr_frag(ctx, qf, drv) if drv else {}
    frag2_cases = corr_frag2(ctx, qf, drv) if drv else {}
    timings["corr_escape_pretty_s"] = round(time.time() - t2, 1)

    corr_total = sum(c.get("cases", 0) for c in (norm_cases, esc_cases, pretty_cases, frag_cases, frag2_cases))
    corr_bad = sum(c.get("disagreements", 0) for c in (norm_cases, esc_cases, pretty_cases, frag_cases, frag2_cases))
    samples = [s for s, o, _ in gen[:400] if len(s) < 200][:4]
    ctx.cov.update({
        "evaluations": parsed * 5 + corr_total,
        "distinct_nontrivial": nontrivial,
        "rule": "e2e: one evaluation = one of the 5 metamorphic checks on one parseable source; distinct by SHA-1 of the source; non-trivial = the source has a comment, "
                "a multi-line string, a block, a line within +-4 columns of the 40/50/100 thresholds, or a multi-line layout. Correspondence cases are counted separately below. "
                "No generator narrowing is in force (comments, blank lines and CRLF are generated at every boundary the grammar admits, including inside patterns and types). "
                "A failing case is suppressed only if every failing check is covered by known findings (status == known in known_findings.json) "
                "whose signature matches; everything else is shrunk and reported.",
        "samples": samples + [{"source": sources[len(corpus) + len(std)][0][:200] if len(sources) > len(corpus) + len(std) else ""}],
        "sources_total": len(sources), "sources_parsed": parsed, "sources_distinct": len(seen),
        "sources_by_origin": stats["by_origin"], "parse_rejected_by_origin": stats["parse_errors"],
        "sources_with_comments": stats["with_comments"], "sources_with_multiline_strings": stats["multi_line_strings"],
        "sources_with_single_line_strings": stats["single_strings"], "sources_crlf": stats["crlf"],
        "sources_width_straddling": {"40": stats["straddle_40"], "50": stats["straddle_50"], "100": stats["straddle_100"]},
        "sources_with_multiline_layout": stats["broken_layout"],
        "sources_bytecode_compared": stats["bytecode_compared"], "sources_not_compiling": stats["compiles_not"],
        "syntactic_forms_histogram": dict(sorted(form_hist.items())),
        "e2e_failures_unexplained": len(failures), "e2e_failures_known": known_hits,
        "comment_scanner_vs_generator_mismatches": scanner_mismatch, "timings": timings,
        "correspondence_normalize": norm_cases, "correspondence_escape": esc_cases, "correspondence_pretty": pretty_cases, "correspondence_fragment": frag_cases, "correspondence_fragment_with_blocks": frag2_cases,
        "modelled_functions_compared_with_real_code": {
            "Simplify.normalize_blocks compiler_options  ~ simplify::normalize_blocks(keep=false, lift, no group)": norm_cases.get("cases", 0),
            "Simplify.normalize_blocks (formatter_options (keep_by_span ..)) ~ simplify::normalize_blocks(keep by span offset, no lift, group)": norm_cases.get("cases", 0),
            "Escape.escape_single / render_multiline ~ format.rs escape_single_line_text / escape_multiline_text / protect_trailing_spaces / multiline_string_doc (through format_program)": esc_cases.get("format_roundtrip_cases", 0),
            "Escape.unescape / scan_single / scan_multiline_raw / multiline_dedent / process_escapes / process_multiline(_term) ~ parser.rs string processing (through parse)": esc_cases.get("format_roundtrip_cases", 0) + esc_cases.get("raw_string_cases_compared", 0),
            "Pretty.print (layout, fits, strip_trailing_whitespace), group, forces_break ~ pretty::print, group": pretty_cases.get("print_calls_compared", 0),
            "FormatFrag.flatten ~ pretty::flatten": pretty_cases.get("flatten_calls_compared", 0),
            "FormatFrag.flat_width ~ pretty::flat_width": pretty_cases.get("flat_width_calls_compared", 0),
            "FormatFrag.format_frag (term_doc, chain_doc, bracketed, break_if_wider_than, program_doc) ~ format_program on fragment ASTs": frag_cases.get("format_cases", 0),
            "FormatFrag.parse_frag ~ parser::parse on printed and perturbed fragment texts": frag_cases.get("format_cases", 0) + frag_cases.get("parse_cases_accepted_by_model", 0),
            "FormatFrag2.format_frag2 (g_normalize, block_doc, branch_doc, sequence_doc, is_tall_step, wrap_breaking_body, leading_bar, collapse_blanks) ~ format_program on fragment ASTs with blocks": frag2_cases.get("format_cases", 0),
            "FormatFrag2.parse_frag2 (block, expression, branch, sequence, seq_sep) ~ parser::parse": frag2_cases.get("format_cases", 0) + frag2_cases.get("parse_cases_accepted_by_model", 0),
        },
        "traces_validated_against_impl": corr_total - corr_bad,
        "disagreements_checked": corr_bad + len(failures),
    })
    if scanner_mismatch:
        ctx.violation({"kind": "correspondence-broken", "correspondence": "harness comment scanner vs generator ground truth",
                       "mismatches": scanner_mismatch}, no_input=True)
    if not ok:
        ctx.violation({"kind": "theorem-broken", "theorem": getattr(ctx, "broken_theorem", "?"),
                       "searched": "%d parseable sources end-to-end (%d unexplained failures), %d correspondence cases (%d disagreements)"
                                   % (parsed, len(failures), corr_total, corr_bad)},
                      no_input=(len(failures) == 0))


# ------------------------------------------------------------------------------------------ correspondences
def corr_norm(ctx, qf, drv, parsed_sources):
    srcs = parsed_sources[:ctx.n(2500, 15000)]
    lines = []
    for s in srcs:
        m = ctx.rng.choice([0, 1, 2, 3])
        r = ctx.rng.randrange(m) if m else 0
        lines.append("%s %d %d" % (q(s), m, r))
    rc, real = ctx.run_sharded(qf, lines, args=["norm"])
    inputs, idx = [], []
    for i, l in enumerate(real):
        parts = l.split("\t")
        if len(parts) == 4:
            m, r = lines[i].rsplit(" ", 2)[1:]
            inputs.append("(norm %s %s %s)" % (m, r, parts[0]))
            idx.append(i)
        elif l.startswith("(panic"):
            ctx.violation({"kind": "impl-violation", "oracle": "normalize_blocks panicked", "source": srcs[i], "raw": l})
    rc, model = ctx.run_sharded(drv, inputs, args=["norm"])
    bad, changed, props_bad, f19 = 0, 0, 0, 0
    for j, i in enumerate(idx):
        din, c, f, props = real[i].split("\t")
        got = model[j] if j < len(model) else "(missing-output)"
        if c != din or f != din:
            changed += 1
        if got != c + "\t" + f:
            bad += 1
            if bad <= 3:
                ctx.violation({"kind": "correspondence-broken", "correspondence": "Simplify.v normalize_blocks vs simplify.rs normalize_blocks",
                               "source": srcs[i], "keep": lines[i].rsplit(" ", 2)[1:], "model": got[:3000], "impl": (c + "\t" + f)[:3000]}, no_input=True)
        if "diff" in props:
            p = sexpr.parse(props)
            which = [x[0] for x in p[1:] if x[1] != "ok"]
            info = e2e_sig(ctx, qf, srcs[i])
            if which == ["cf"] and "tail-block" in info:
                f19 += 1
                if f19 == 1:
                    ctx.violation({"kind": "impl-violation", "finding": "F19", "oracle": "normalize_c(normalize_f p) = normalize_c p on the real normalize_blocks",
                                   "source": srcs[i], "keep": lines[i].rsplit(" ", 2)[1:]}, finding_key="F19")
            else:
                props_bad += 1
                if props_bad <= 3:
                    ctx.violation({"kind": "impl-violation", "oracle": "normalize_blocks laws on the real function (cc: idempotent compiler options, ff: idempotent formatter options, cf: compiler after formatter = compiler)",
                                   "violated": which, "source": srcs[i], "keep": lines[i].rsplit(" ", 2)[1:]})
    return {"cases": len(idx), "disagreements": bad, "asts_changed_by_normalize": changed, "real_function_law_failures": props_bad,
            "real_function_cf_failures_matching_F19": f19}


def e2e_sig(ctx, qf, src):
    rc, out = ctx.run_bin(qf, [q(src)], args=["e2e"])
    return parse_e2e(out[0] if out else "").get("sig", set())


def gen_string(rng):
    pool = ["a", "b", "Z", " ", " ", "  ", "\n", "\n", "\t", "\r", "\"", "\"\"\"", "\\", "{", "}", "é", "中", "\U0001F600", "\\n", "\\s", "//", "'", "\u00a0"]
    n = rng.choice([0, 1, 2, 3, 5, 8, 13, 30])
    return "".join(rng.choice(pool) for _ in range(n))


def cps(s):
    return " ".join(str(ord(c)) for c in s)


def uncps(t):
    return "".join(chr(int(x)) for x in t.split())


def esc_fields(line):
    """`(tag (out cp..) (back ok cp..|err|other|hole))` -> (out text, back text or None)."""
    m = re.match(r"\((?:esc|single|multi) \((?:out|esc|raw) ?([0-9 ]*)\) \(back ([a-z]+) ?([0-9 ]*)\)\)", line)
    if not m:
        return None, None
    return uncps(m.group(1)), (uncps(m.group(3)) if m.group(2) == "ok" else None)


def corr_escape(ctx, qf, drv):
    rng = ctx.rng
    strings, cases = [], []
    for _ in range(ctx.n(3000, 20000)):
        sv = gen_string(rng)
        kind = rng.choice(["single", "multi", "psingle", "pmulti"])
        strings.append((kind, sv))
        if kind in ("single", "psingle"):
            cases.append("(%s %s)" % (kind, cps(sv)))
        else:
            cases.append("(%s %d %s)" % (kind, rng.choice([0, 0, 1, 2, 3]), cps(sv)))
    rc, real = ctx.run_sharded(qf, cases, args=["esc"])
    # what the real formatter printed between the delimiters, and the margin the real layout chose
    minputs, inners = [], []
    for (kind, sv), r in zip(strings, real):
        out, back = esc_fields(r)
        inner, as_multi, margin = None, False, 0
        if out is not None:
            if kind in ("multi", "pmulti") and '"""' in out:
                as_multi = True
                a, b = out.index('"""') + 3, out.rindex('"""')
                inner = out[a:b]
                margin = len(inner) - len(inner.rstrip(" ")) if "\n" in inner else 0
            elif '"' in out:
                inner = out[out.index('"') + 1:out.rindex('"')]
        inners.append((inner, back, as_multi))
        minputs.append("(multi %d %s)" % (margin, cps(sv)) if as_multi else "(single %s)" % cps(sv))
    rc, model = ctx.run_sharded(drv, minputs, args=["esc"])
    if model and model[0].startswith("(unsupported-mode"):
        return {"cases": 0, "disagreements": 0, "note": "Escape model not in the driver"}
    bad, known, rendered_single = 0, {}, 0
    for (kind, sv), c, r, m, (inner, back, as_multi) in zip(strings, cases, real, model, inners):
        mout, mback = esc_fields(m)
        if kind == "pmulti" and not as_multi:
            rendered_single += 1
        if back != sv:
            # the real round trip parse(format(program)) itself fails: implementation-level oracle
            lines_ = sv.split("\n")
            uspace = as_multi and any(l and l[-1].isspace() and l[-1] not in " \t\r" for l in lines_)
            blank = [all(ch.isspace() and ch not in " \t\r" for ch in l) for l in lines_]
            blank2 = as_multi and any(a and b for a, b in zip(blank, blank[1:]))
            fid = "F18" if uspace else ("F15" if blank2 else None)
            if fid:
                known[fid] = known.get(fid, 0) + 1
                if known[fid] == 1:
                    ctx.violation({"kind": "impl-violation", "finding": fid, "oracle": "parse(format_program(one-string program)) returns the string",
                                   "case": c, "impl": r[:600]}, finding_key=fid)
                continue
            bad += 1
            if bad <= 3:
                ctx.violation({"kind": "impl-violation", "oracle": "parse(format_program(one-string program)) returns the string", "case": c,
                               "impl": r[:1000], "model": m[:1000]})
            continue
        if inner != mout or mback != sv:
            bad += 1
            if bad <= 3:
                ctx.violation({"kind": "correspondence-broken", "correspondence": "Escape.v escape_single/render_multiline + unescape/process_multiline vs format.rs + parser.rs (through format_program / parse)",
                               "case": c, "impl": r[:1000], "model": m[:1000]}, no_input=True)
    # raw string bodies: the parser's string processing vs the model on arbitrary (also malformed) raw text
    raws = []
    rpool = ["a", "b", " ", " ", "  ", "\t", "\n", "\n", "\n  ", "\n    ", "\r\n", "\\n", "\\t", "\\r", "\\s", "\\\\", "\\\"", "\\{", "\\\n", "\\x", "\\", "\"", "\"\"", "é", "}", "中"]
    for _ in range(ctx.n(3000, 20000)):
        n = rng.choice([0, 1, 2, 4, 7, 12])
        body = "".join(rng.choice(rpool) for _ in range(n))
        mode = rng.choice(["rawmulti", "rawmulti", "rawsingle"])
        if mode == "rawmulti" and rng.random() < 0.8:
            margin = " " * rng.choice([0, 2, 4])
            body = "\n" + "".join(margin + rng.choice(["", " ", "  "]) + l + "\n" for l in body.split("\n")) + margin
        raws.append((mode, "(%s %s)" % (rng.choice(["term", "pat"]), cps(body))))
    rbad, rcompared, accepted = 0, 0, 0
    for mode in ("rawmulti", "rawsingle"):
        sub = [c for mm, c in raws if mm == mode]
        rc, real = ctx.run_sharded(qf, sub, args=[mode])
        rc, model = ctx.run_sharded(drv, sub, args=[mode])
        for c, r, m in zip(sub, real, model):
            if m == "(other)" or r == "(other)":
                continue
            rcompared += 1
            accepted += r.startswith("(ok")
            if r != m:
                rbad += 1
                if rbad <= 3:
                    ctx.violation({"kind": "correspondence-broken", "correspondence": "Escape.v %s vs parser.rs string processing" % mode, "case": c, "impl": r[:600], "model": m[:600]}, no_input=True)
    return {"cases": len(cases) + rcompared, "disagreements": bad + rbad, "format_roundtrip_cases": len(cases), "raw_string_cases_compared": rcompared,
            "raw_strings_accepted_by_parser": accepted, "multiline_patterns_rendered_single_line": rendered_single,
            "real_roundtrip_failures_matching_known": known}


def gen_doc(rng, depth):
    if depth <= 0:
        k = rng.random()
        if k < 0.5:
            t = "".join(rng.choice(["a", "b", "xyz", " ", " ", "é", "中", "{", ",", "|", "\t", "\r", "\u00a0", "\u2003", "\x0c"]) for _ in range(rng.choice([0, 1, 2, 5, 9])))
            return "(text %s)" % cps(t) if t else "(text)"
        return rng.choice(["line", "softline", "line", "softline", "hardline", "nil", "breakparent"])
    k = rng.random()
    if k < 0.35:
        return "(concat %s)" % " ".join(gen_doc(rng, depth - 1) for _ in range(rng.choice([0, 1, 2, 3, 5])))
    if k < 0.5:
        return "(nest %d %s)" % (rng.choice([0, 2, 2, 4]), gen_doc(rng, depth - 1))
    if k < 0.75:
        return "(group %s)" % gen_doc(rng, depth - 1)
    if k < 0.8:
        return "(rawgroup %s %s)" % (rng.choice(["true", "false"]), gen_doc(rng, depth - 1))
    if k < 0.92:
        return "(ifbreak %s %s)" % (gen_doc(rng, depth - 1), gen_doc(rng, depth - 1))
    if k < 0.97:
        return "(suffix %s)" % gen_doc(rng, depth - 1)
    return gen_doc(rng, 0)


def corr_pretty(ctx, qf, drv):
    rng = ctx.rng
    cases = []
    for _ in range(ctx.n(3000, 20000)):
        ws = sorted(set(rng.choice([0, 1, 3, 5, 8, 10, 13, 20, 40, 100]) for _ in range(3)))
        cases.append("(pretty (w %s) %s)" % (" ".join(map(str, ws)), gen_doc(rng, rng.choice([1, 2, 3, 4, 5]))))
    rc, real = ctx.run_sharded(qf, cases, args=["pretty"])
    rc, model = ctx.run_sharded(drv, cases, args=["pretty"])
    if model and model[0].startswith("(unsupported-mode"):
        return {"cases": 0, "disagreements": 0, "note": "Pretty model not in the driver"}
    bad, differs_by_width = 0, 0
    for c, r, m in zip(cases, real, model):
        if len(set(re.findall(r"\([0-9 ]*\)", r.split(" (flat ")[0]))) > 1:
            differs_by_width += 1
        if r != m:
            bad += 1
            if bad <= 3:
                kind = "impl-violation" if "(panic" in r else "correspondence-broken"
                ctx.violation({"kind": kind, "correspondence": "Pretty.v print vs pretty.rs print", "case": c, "impl": r[:1500], "model": m[:1500]},
                              no_input=(kind != "impl-violation"))
    return {"cases": len(cases), "disagreements": bad, "docs_whose_layout_depends_on_width": differs_by_width,
            "print_calls_compared": sum(len(c.split(")")[0].split()) - 2 for c in cases), "flatten_calls_compared": len(cases),
            "flat_width_calls_compared": sum(len(c.split(")")[0].split()) - 2 for c in cases)}



# ------------------------------------------------------------------------------------------ fragment (FormatFrag.v)
def gen_fname(rng, upper=False):
    n = rng.choice([1, 1, 2, 3, 5, 8, 13, 21])
    first = rng.choice("ABCDEFGHKLMNPQRSTXYZ" if upper else "abcdefghijklmnopqrstuvwxyz")
    body = "".join(rng.choice("abcdefghijklmnopqrstuvwxyz0123456789_ABZ") for _ in range(n - 1))
    tail = "" if upper else rng.choice(["", "", "", "?", "!", "?!"])
    name = first + body + tail
    return name + "x" if name in ("int", "bin", "ref") else name


def gen_fterm(rng, depth, budget):
    budget[0] -= 1
    k = rng.random()
    if depth <= 0 or budget[0] <= 0 or k < 0.3:
        j = rng.random()
        if j < 0.3:
            return "(i %d)" % rng.choice([0, 1, -1, 7, 42, -300, 10 ** 12, -(10 ** 30), rng.randint(-99999, 99999)])
        if j < 0.65:
            return "(id %s)" % cps(gen_fname(rng))
        if j < 0.9:
            return "(s %s)" % cps("".join(rng.choice(["a", "b", " ", "  ", "\"", "\\", "{", "}", "\n", "\t", "é", "中", "//", "~>", ",", "]"]) for _ in range(rng.choice([0, 1, 2, 5, 12, 30]))))
        return "(t (n %s))" % cps(gen_fname(rng, True)) if rng.random() < 0.6 else "(t -)"
    name = "(n %s)" % cps(gen_fname(rng, True)) if rng.random() < 0.4 else "-"
    fields = []
    for _ in range(rng.choice([1, 1, 2, 3, 4, 6])):
        label = "(l %s)" % cps(gen_fname(rng)) if rng.random() < 0.35 else "-"
        fields.append("(f %s %s)" % (label, gen_fchain_terms(rng, depth - 1, budget)))
    return "(t %s %s)" % (name, " ".join(fields))


def gen_fchain_terms(rng, depth, budget=None):
    budget = budget if budget is not None else [rng.choice([3, 8, 20, 40, 80])]
    n = rng.choice([1, 1, 1, 2, 2, 3, 4])
    return " ".join(gen_fterm(rng, depth, budget) for _ in range(n))


def perturb(rng, text):
    """Whitespace-level variations of a printed fragment text that the grammar treats alike, and a few that it does not."""
    out = []
    for ch in text:
        r = rng.random()
        if ch == " " and r < 0.15:
            out.append(rng.choice(["  ", "\t", " \t ", " ~> ", "\n  ~> ", " ~>\n"]))
        elif ch == "\n" and r < 0.3:
            out.append(rng.choice(["\n\n", "\r\n", "\n   ", " \n"]))
        elif ch in "[]," and r < 0.15:
            out.append(rng.choice([ch + " ", " " + ch, ch + "\n ", ch]))
        elif r < 0.01:
            out.append(rng.choice(["", ch + ch, ",", "]", "[", "x", " = ", ".", "(", '"']))
        else:
            out.append(ch)
    return "".join(out)


def corr_frag(ctx, qf, drv):
    """Model printer (FormatFrag.format_frag) vs real format_program, and model parser (parse_frag) vs real parser, on the
    data-literal fragment; the round trip parse(format(ast)) = ast on the real code; the model round trip at 8 widths."""
    rng = ctx.rng
    cases = ["(fragfmt (c %s))" % gen_fchain_terms(rng, rng.choice([0, 1, 2, 3, 4])) for _ in range(ctx.n(2500, 15000))]
    rc, real = ctx.run_sharded(qf, cases, args=["frag"])
    rc, model = ctx.run_sharded(drv, cases, args=["frag"])
    if model and model[0].startswith("(unsupported-mode"):
        return {"cases": 0, "disagreements": 0, "note": "fragment model not in the driver"}
    bad, multi_line, texts = 0, 0, []
    for c, r, m in zip(cases, real, model):
        mo = re.match(r"\(frag \(out ([0-9 ]*)\) \(back (.*)\)\)$", r)
        if mo:
            text = uncps(mo.group(1))
            texts.append(text)
            multi_line += text.count("\n") > 1
            if mo.group(2) != "(ok %s)" % c[len("(fragfmt "):-1]:
                bad += 1
                if bad <= 3:
                    ctx.violation({"kind": "impl-violation", "oracle": "parse(format_program(fragment AST)) = the AST (real vs real)", "case": c[:1500], "impl": r[:1500]})
                continue
        if r != m:
            bad += 1
            if bad <= 3:
                kind = "impl-violation" if "(panic" in r else "correspondence-broken"
                ctx.violation({"kind": kind, "correspondence": "FormatFrag.v format_frag / parse_frag vs format_program / parse", "case": c[:1500],
                               "impl": r[:1500], "model": m[:1500]}, no_input=(kind != "impl-violation"))
    # the parsers on perturbed texts
    pcases = []
    for t in texts[:ctx.n(2500, 15000)]:
        pcases.append("(fragparse %s)" % cps(perturb(rng, t)))
    rc, preal = ctx.run_sharded(qf, pcases, args=["frag"])
    rc, pmodel = ctx.run_sharded(drv, pcases, args=["frag"])
    pbad, accepted, model_only_rejects = 0, 0, 0
    for c, r, m in zip(pcases, preal, pmodel):
        if "(back (ok" in m:
            accepted += 1
            if r != m:
                pbad += 1
                if pbad <= 3:
                    ctx.violation({"kind": "correspondence-broken", "correspondence": "FormatFrag.v parse_frag vs parser.rs parse (perturbed fragment text)",
                                   "case": c[:1500], "impl": r[:1500], "model": m[:1500]}, no_input=True)
        elif "(back (ok" in r:
            model_only_rejects += 1     # the model parser is allowed to be more conservative (it answers None outside the fragment)
    return {"cases": len(cases) + len(pcases), "disagreements": bad + pbad, "format_cases": len(cases), "outputs_with_broken_layout": multi_line,
            "parse_cases": len(pcases), "parse_cases_accepted_by_model": accepted, "parse_cases_only_real_accepts": model_only_rejects}


# ------------------------------------------------------------------------------------------ fragment with blocks (FormatFrag2.v)
def gen_gterm(rng, depth, budget):
    budget[0] -= 1
    if depth > 0 and budget[0] > 0 and rng.random() < 0.3:
        branches = []
        for _ in range(rng.choice([1, 1, 2, 2, 3])):
            cond = gen_gseq(rng, depth - 1, budget, rng.choice([1, 1, 1, 2]))
            k = gen_gseq(rng, depth - 1, budget, rng.choice([1, 1, 2, 3])) if rng.random() < 0.45 else "-"
            branches.append("(br %s %s)" % (cond, k))
        return "(b %s)" % " ".join(branches)
    k = rng.random()
    if depth <= 0 or budget[0] <= 0 or k < 0.35:
        j = rng.random()
        if j < 0.3:
            return "(i %d)" % rng.choice([0, 1, -1, 7, 42, -300, 10 ** 12, rng.randint(-99999, 99999)])
        if j < 0.7:
            return "(id %s)" % cps(gen_fname(rng))
        if j < 0.9:
            return "(s %s)" % cps("".join(rng.choice(["a", "b", " ", "\"", "{", "}", "|", "=>", ",", "é"]) for _ in range(rng.choice([0, 1, 2, 5, 12]))))
        return "(t (n %s))" % cps(gen_fname(rng, True)) if rng.random() < 0.6 else "(t -)"
    name = "(n %s)" % cps(gen_fname(rng, True)) if rng.random() < 0.4 else "-"
    fields = []
    for _ in range(rng.choice([1, 1, 2, 3, 4])):
        label = "(l %s)" % cps(gen_fname(rng)) if rng.random() < 0.35 else "-"
        fields.append("(f %s %s)" % (label, gen_gchain_terms(rng, depth - 1, budget)))
    return "(t %s %s)" % (name, " ".join(fields))


def gen_gchain_terms(rng, depth, budget):
    return " ".join(gen_gterm(rng, depth, budget) for _ in range(rng.choice([1, 1, 1, 2, 2, 3, 4])))


def gen_gseq(rng, depth, budget, n, head="q"):
    return "(%s %s)" % (head, " ".join("(c %s)" % gen_gchain_terms(rng, depth, budget) for _ in range(n)))


def corr_frag2(ctx, qf, drv):
    """FormatFrag2: model format (normalize_blocks + Doc construction with blocks, branches, guards, multi-step sequences,
    wrap_breaking_body, tall steps, collapse_blanks) vs real format_program; model parser vs real parser."""
    rng = ctx.rng
    cases = []
    for _ in range(ctx.n(2500, 15000)):
        budget = [rng.choice([4, 10, 25, 50])]
        cases.append("(frag2fmt %s)" % gen_gseq(rng, rng.choice([1, 2, 3, 4]), budget, rng.choice([1, 1, 2, 3]), head="seq"))
    rc, real = ctx.run_sharded(qf, cases, args=["frag2"])
    rc, model = ctx.run_sharded(drv, cases, args=["frag2"])
    if model and model[0].startswith("(unsupported-mode"):
        return {"cases": 0, "disagreements": 0, "note": "fragment-2 model not in the driver"}
    bad, texts, with_block, wrapped, blank_lines = 0, [], 0, 0, 0
    for c, r, m in zip(cases, real, model):
        mo = re.match(r"\(frag2 \(out ([0-9 ]*)\)", r)
        if mo:
            text = uncps(mo.group(1))
            texts.append(text)
            with_block += "{" in text
            blank_lines += "\n\n" in text
        if r != m:
            bad += 1
            if bad <= 3:
                kind = "impl-violation" if ("(panic" in r or "(back (err)" in r) else "correspondence-broken"
                ctx.violation({"kind": kind, "correspondence": "FormatFrag2.v format_frag2 / parse_frag2 vs format_program / parse", "case": c[:2000],
                               "impl": r[:2000], "model": m[:2000]}, no_input=(kind != "impl-violation"))
    pcases = ["(frag2parse %s)" % cps(perturb(rng, t)) for t in texts[:ctx.n(2500, 15000)]]
    rc, preal = ctx.run_sharded(qf, pcases, args=["frag2"])
    rc, pmodel = ctx.run_sharded(drv, pcases, args=["frag2"])
    pbad, accepted, model_only_rejects = 0, 0, 0
    for c, r, m in zip(pcases, preal, pmodel):
        if "(back (ok" in m:
            accepted += 1
            if r != m:
                pbad += 1
                if pbad <= 3:
                    ctx.violation({"kind": "correspondence-broken", "correspondence": "FormatFrag2.v parse_frag2 vs parser.rs parse (perturbed text)",
                                   "case": c[:2000], "impl": r[:2000], "model": m[:2000]}, no_input=True)
        elif "(back (ok" in r:
            model_only_rejects += 1
    return {"cases": len(cases) + len(pcases), "disagreements": bad + pbad, "format_cases": len(cases), "outputs_with_a_block": with_block,
            "outputs_with_blank_line_between_tall_steps": blank_lines, "parse_cases": len(pcases), "parse_cases_accepted_by_model": accepted,
            "parse_cases_only_real_accepts": model_only_rejects}

# ------------------------------------------------------------------------------------------ replay
def replay(ctx, e2e, drv, qf):
    import json
    obj = json.load(open(ctx.replay_path))
    src = obj.get("source")
    if src is None:
        print("replay: no source in", ctx.replay_path)
        return
    info = e2e.run([src], out=True, sharded=False)[0]
    print("replay: failing checks now:", sorted(info.get("fails", [])), "signature:", sorted(info.get("sig", [])))
    ctx.cov.update({"evaluations": 5, "distinct_nontrivial": 1, "rule": "replay of one source", "samples": [src[:300]],
                    "traces_validated_against_impl": 0, "disagreements_checked": 1})
    if info.get("fails"):
        ids = explained_by(ctx, info)
        if ids:
            for fid in ids:
                ctx.violation({"kind": "impl-violation", "finding": fid, "source": src, "failing_checks": sorted(info["fails"])}, finding_key=fid)
        else:
            ctx.violation({"kind": "impl-violation", "source": src, "failing_checks": sorted(info["fails"]), "formatted": info.get("out"),
                           "formatted_twice": info.get("out2")})
