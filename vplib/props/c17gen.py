"""Grammar-driven generator of Quiver *concrete syntax* for C17 (formatting).

Not every output must parse (the property quantifies over parseable sources; unparseable ones are
filtered by the real parser and counted). Layout noise (newlines, indentation, `~>` continuations,
comments, blank lines, CRLF) is injected at the token boundaries where the grammar allows trivia."""

ASCII_TAILS = ["", " plain words", " \"quote", " { brace", " } close", " // nested //", " \"\"\" triple", " =x => y | z",
               " \\ backslash", " [1, 2]", " café ü中", " tab\there", " trailing   ", "  nbsp"]
KEYWORDISH = ["int", "bin", "ref"]
TYPE_PARAMS = ["t", "u", "k", "v"]


class Gen:
    def __init__(self, rng, noise=0.3, comments=0.3, typed=False, budget=40):
        self.rng = rng
        self.noise = noise          # probability of a non-trivial separator
        self.comments = comments    # probability that a noisy separator carries a comment
        self.cid = 0
        self.comment_texts = []     # ground truth, in generation (= source) order when built left-to-right
        self.indent = 0
        self.budget = budget        # rough node budget
        self.typed = typed
        self.vars = []              # bound int variables (typed mode)
        self.funs = []              # bound 'int -> 'int functions (typed mode)
        self.crlf = False

    # ------------------------------------------------------------------ lexical
    def chance(self, p):
        return self.rng.random() < p

    def ident(self, n=None):
        r = self.rng
        if n is None:
            n = r.choice([1, 1, 2, 3, 5, 8]) if not self.chance(0.05) else r.randint(10, 30)
        s = r.choice("abcdefghijklmnopqrstuvwxyz") + "".join(r.choice("abcdefghijklmnopqrstuvwxyz0123456789_") for _ in range(n - 1))
        if s in ("int", "bin", "ref"):
            s += "x"
        if self.chance(0.05):
            s += "?"
        elif self.chance(0.03):
            s += "!"
        return s

    def tname(self, n=None):
        r = self.rng
        n = n or r.choice([1, 2, 4, 6])
        return r.choice("ABCDEFGHKLMNPQRSTXYZ") + "".join(r.choice("abcdefghijklmnopqrstuvwxyz0123456789_") for _ in range(n - 1))

    def nl(self):
        return "\r\n" if self.crlf else "\n"

    def ind(self):
        r = self.rng
        if self.chance(0.05):
            return "\t"
        return " " * r.choice([0, 1, 2, 2, 4, 4, 6, 8])

    def comment(self):
        self.cid += 1
        text = "//" + self.rng.choice(["", " "]) + "c%d#" % self.cid + self.rng.choice(ASCII_TAILS)
        self.comment_texts.append(text.rstrip())
        return text

    def wsc(self, tight=""):
        """Optional whitespace/comments (the parser's `wsc`)."""
        if not self.chance(self.noise):
            return tight
        out = ""
        r = self.rng
        for _ in range(r.choice([1, 1, 1, 2, 3])):
            k = r.random()
            if k < self.comments:
                out += r.choice(["", " ", "  "]) + self.comment() + self.nl() + self.ind()
            elif k < self.comments + 0.25:
                out += self.nl() + self.nl() + self.ind()          # blank line
            else:
                out += self.nl() + self.ind()
        return out

    def seqsep(self):
        """Separator between the chains of a sequence (comma or newline, with trivia)."""
        r = self.rng
        if not self.chance(self.noise):
            return r.choice([", ", ", ", ",", " , "])
        out = r.choice(["", " "])
        if self.chance(self.comments):
            out += self.comment()            # trailing comment of the previous chain; needs a newline next
            out += self.nl()
        else:
            out += r.choice([",", self.nl(), "," + self.nl(), self.nl() + ","])
        for _ in range(r.choice([0, 0, 1, 2])):
            k = r.random()
            if k < self.comments:
                out += self.ind() + self.comment() + self.nl()
            elif k < self.comments + 0.3:
                out += self.nl()
            else:
                out += self.ind() + self.nl()
        return out + self.ind()

    def sp(self):
        """Separator between the terms of a chain: horizontal space or a `~>` (which may span lines)."""
        r = self.rng
        if not self.chance(self.noise):
            return " "
        return r.choice([" ", "  ", "\t", " ~> ", " ~> ", self.nl() + self.ind() + "~> ", " ~>" + self.nl() + self.ind(),
                         self.nl() + self.nl() + self.ind() + "~> "])

    def spend(self, n=1):
        self.budget -= n
        return self.budget > 0

    # ------------------------------------------------------------------ strings
    def str_chars(self, n, multi=False):
        r = self.rng
        pool = ["a", "b", "z", " ", " ", "  ", "0", "é", "中", "\U0001F600", "}", "'", "/", "//", "#", "~>", "=>", "|", ",", "."]
        esc = ["\\n", "\\r", "\\t", "\\\\", "\\\"", "\\{"]
        if multi:
            esc += ["\\s", "\\s"]
        out = ""
        for _ in range(n):
            k = r.random()
            if k < 0.65:
                out += r.choice(pool)
            elif k < 0.9:
                out += r.choice(esc)
            elif k < 0.93 and not self.typed:
                out += "\t" if multi else "\\t"
            else:
                out += r.choice(["x", "\"\""]) if multi and self.chance(0.3) else r.choice(pool)
        return out

    def hole(self, depth):
        if self.typed:
            # a hole must evaluate to a Str: use a string literal or a bound Str variable
            return "{" + self.rng.choice(['"h"', '"{"i"}"' if self.chance(0.1) else '"q"']) + "}"
        inner = self.expression(depth - 1, braces=False, small=True)
        return "{" + self.rng.choice(["", " "]) + inner + self.rng.choice(["", " "]) + "}"

    def single_string(self, depth, pattern=False):
        r = self.rng
        out = '"'
        for _ in range(r.choice([0, 1, 1, 2, 3])):
            if not pattern and depth > 0 and self.chance(0.25):
                out += self.hole(depth)
            else:
                out += self.str_chars(r.choice([0, 1, 3, 6, 12]))
        return out + '"'

    def multi_string(self, depth, pattern=False):
        """A `\"\"\"` block: opening delimiter, content lines indented by at least the margin, closing
        delimiter on its own line at the margin."""
        r = self.rng
        margin = " " * r.choice([0, 2, 2, 4, 6]) if not self.chance(0.05) else "\t"
        nl = self.nl()
        lines = []
        for _ in range(r.choice([0, 1, 1, 2, 3, 5])):
            k = r.random()
            if k < 0.15:
                lines.append(r.choice(["", "", margin, "   ", "\t"]))            # blank line (any indentation)
            else:
                body = ""
                for _ in range(r.choice([1, 1, 2, 3])):
                    if not pattern and depth > 0 and self.chance(0.15):
                        body += self.hole(depth)
                    else:
                        body += self.str_chars(r.choice([1, 2, 5, 10]), multi=True)
                extra = r.choice(["", "", "", " ", "  ", "    "])                # deeper indentation is content
                trail = r.choice(["", "", "", " ", "  ", "\t", "\\s", " \\s", "\\"])   # trailing ws / \s / continuation
                lines.append(margin + extra + body + trail)
        first = r.choice(["", "", " ", "\t"])
        return '"""' + first + nl + "".join(l + nl for l in lines) + margin + '"""'

    def string(self, depth, pattern=False):
        if self.chance(0.3):
            return self.multi_string(depth, pattern)
        return self.single_string(depth, pattern)

    # ------------------------------------------------------------------ types
    def type_(self, depth, top=False):
        r = self.rng
        if depth <= 0 or not self.spend():
            return r.choice(["'int", "'bin", "'ref", "'" + self.ident(), self.tname(), "[]", "^", "'t"])
        k = r.random()
        if k < 0.15:
            return r.choice(["'int", "'bin", "'" + self.ident()])
        if k < 0.3:      # tuple type
            name = r.choice(["", self.tname()])
            fields = []
            for _ in range(r.choice([0, 1, 2, 3])):
                f = r.random()
                if f < 0.4:
                    fields.append(self.ident() + ": " + self.type_(depth - 1))
                elif f < 0.85:
                    fields.append(self.type_(depth - 1))
                else:
                    fields.append("...'" + self.ident() + (("<" + self.type_(depth - 1) + ">") if self.chance(0.2) else ""))
            if not fields and name:
                return name
            return name + "[" + self.wsc() + ("," + self.wsc(" ")).join(fields) + (self.wsc() + "," if fields and self.chance(0.1) else "") + self.wsc() + "]"
        if k < 0.45:     # union (parenthesised unless top)
            members = [self.type_(depth - 1) for _ in range(r.choice([2, 2, 3, 5]))]
            u = (self.wsc(" ") + "|" + self.wsc(" ")).join(members)
            return u if top else "(" + u + ")"
        if k < 0.52:
            i = (" & ").join(self.type_(depth - 1) for _ in range(2))
            return i if top else "(" + i + ")"
        if k < 0.6:      # generic application
            return "'" + self.ident() + "<" + ", ".join(self.type_(depth - 1) for _ in range(r.choice([1, 2]))) + ">"
        if k < 0.68:     # function type
            f = "#" + self.type_(depth - 1) + " -> " + self.type_(depth - 1)
            return f if top else "(" + f + ")"
        if k < 0.74:     # process types
            return r.choice(["@'int", "(@'int -> 'bin)", "(@-> 'bin)", "@" + self.type_(0)])
        if k < 0.8:      # partial types
            name = r.choice(["", self.tname()])
            fields = [self.ident() + ": " + self.type_(depth - 1) for _ in range(r.choice([0, 1, 2]))]
            return name + "(" + ", ".join(fields) + ")"
        if k < 0.85:
            return r.choice(["'%" + self.ident(), "'%" + self.ident() + "." + self.ident(), "'%" + self.ident() + "<'int>", "'%a/b.c"])
        if k < 0.9:
            return r.choice(["^", "^1", "^2", "\\File", "\\" + self.tname()])
        if k < 0.94:
            return r.choice(["'", "'<'int>", "'<" + self.type_(depth - 1) + ">"])
        return self.tname() + "[" + self.type_(depth - 1) + ", ^]"

    def type_alias(self, depth):
        r = self.rng
        name = r.choice([self.ident(), self.ident(), ""])
        params = ""
        if self.chance(0.3):
            params = "<" + ", ".join("'" + p for p in r.sample(TYPE_PARAMS, r.choice([1, 2]))) + ">"
        eq = r.choice([" = ", " = ", "=", " =" + self.nl() + "  "])
        body = self.type_(depth, top=True)
        if self.chance(0.25):
            # straddle: a union alias whose flat width is near 100
            target = r.choice([96, 99, 100, 101, 104])
            members = []
            width = len("'" + name + params + " =")
            while width < target - 12:
                m = self.tname(r.choice([3, 5, 8]))
                members.append(m)
                width += 3 + len(m)
            last = max(1, target - width - 3)
            members.append(self.tname(last))
            body = " | ".join(members)
        return "'" + name + params + eq + body

    # ------------------------------------------------------------------ patterns
    def pattern(self, depth):
        r = self.rng
        if depth <= 0 or not self.spend():
            return r.choice([self.ident(), "_", str(r.randint(0, 99)), self.tname(), "&" + self.ident(), "'int", "*", "[]"])
        k = r.random()
        if k < 0.12:
            return self.ident()
        if k < 0.2:
            return r.choice([str(r.randint(-5, 300)), "0x" + "".join(r.choice("0123456789abcdef") for _ in range(2 * r.choice([0, 1, 2]))),
                             "1.5", "-0.25", "1/3", "4/2", str(10 ** 30)])
        if k < 0.3:
            return self.string(0, pattern=True)
        if k < 0.5:
            name = r.choice(["", "", self.tname()])
            fields = []
            for _ in range(r.choice([0, 1, 2, 3])):
                fields.append((self.ident() + ": " if self.chance(0.3) else "") + self.pattern(depth - 1))
            if not fields and name:
                return name
            return name + "[" + self.wsc() + ("," + self.wsc(" ")).join(fields) + self.wsc() + "]"
        if k < 0.6:
            name = r.choice(["", self.tname()])
            fields = []
            for _ in range(r.choice([1, 2, 3])):
                fields.append(self.ident() + (": " + self.pattern(depth - 1) if self.chance(0.4) else ""))
            return name + "(" + ", ".join(fields) + ")"
        if k < 0.66:
            return r.choice(["*", self.tname() + "*", "_", "&" + self.ident()])
        if k < 0.78:
            return r.choice([self.type_(1), "(" + self.type_(1, top=True) + ")", "'" + self.ident() + "<'int>"])
        if k < 0.88:
            return "(" + " | ".join(self.pattern(depth - 1) for _ in range(r.choice([2, 3]))) + ")"
        return "(" + self.type_(1, top=True) + ")" + self.ident()

    # ------------------------------------------------------------------ terms
    def access(self):
        r = self.rng
        k = r.random()
        path = "".join("." + r.choice([self.ident(), str(r.randint(0, 3))]) for _ in range(r.choice([0, 0, 0, 1, 2])))
        if k < 0.45:
            return self.ident() + path
        if k < 0.6:
            return r.choice(["$", "$0", "$1", "$" + self.ident(), "$.0", "$." + self.ident()]) + path
        if k < 0.7:
            return r.choice(["~", "~." + self.ident(), "~.0"])
        if k < 0.8:
            return "%" + "/".join(self.ident() for _ in range(r.choice([1, 1, 2]))) + path
        if k < 0.9:
            return "__" + r.choice(["integer_add", "integer_multiply", "binary_length", "x_y"]) + "__"
        return "." + r.choice([self.ident(), str(r.randint(0, 3))]) + path

    def tuple_(self, depth):
        r = self.rng
        k = r.random()
        if k < 0.1:
            return self.tname()
        head = ""
        first_spread = False
        if k < 0.55:
            head = ""
        elif k < 0.85:
            head = self.tname()
        else:
            head = r.choice(["~", self.ident()])
            first_spread = True
        fields = []
        n = r.choice([0, 1, 2, 2, 3, 4, 6])
        if first_spread:
            fields.append("...")
        for _ in range(n):
            f = r.random()
            if f < 0.08:
                fields.append(r.choice(["...", "..." + self.ident()]))
            elif f < 0.4:
                fields.append(self.ident() + ": " + self.chain(depth - 1, small=True))
            else:
                fields.append(self.chain(depth - 1, small=True))
        if not fields:
            return head + "[" + self.wsc() + "]"
        body = self.wsc()
        for i, f in enumerate(fields):
            if i:
                body += self.wsc() + "," + self.wsc(" ")
            body += f
        if self.chance(0.15):
            body += self.wsc() + ","
        return head + "[" + body + self.wsc() + "]"

    def function(self, depth):
        r = self.rng
        s = "#"
        if self.chance(0.15):
            s += "<" + ", ".join("'" + p for p in r.sample(TYPE_PARAMS, r.choice([1, 2]))) + ">"
        k = r.random()
        has_type = False
        if k < 0.6:
            s += r.choice(["'int", "'bin", "['int, 'int]", "'" + self.ident(), "('int | 'bin)", self.tname() + "['int]", "'t"])
            has_type = True
            if self.chance(0.25):
                s += " -> " + r.choice(["'int", "'bin", "Ok", "('int | [])", "#'int -> 'int"])
        if has_type and self.chance(0.1):
            return s                                   # body-less function (a type-only receive / signature)
        return s + r.choice([" ", " ", ""]) + self.block(depth)

    def block(self, depth):
        return self.expression(depth, braces=True)

    def expression(self, depth, braces=True, small=False):
        r = self.rng
        nb = r.choice([1, 1, 1, 2, 2, 3, 4]) if not small else r.choice([1, 1, 2])
        branches = []
        for _ in range(nb):
            cond = self.sequence(depth - 1, small=True if small else None)
            if self.chance(0.45 if nb > 1 else 0.2):
                cond += self.wsc(" ") + "=>" + self.wsc(" ") + self.sequence(depth - 1, small=True if small else None)
            branches.append(cond)
        body = (self.wsc(" ") + "|" + self.wsc(" ")).join(branches)
        if self.chance(0.15):
            body = "|" + self.wsc(" ") + body
        if not braces:
            return body
        pad = r.choice([" ", " ", ""])
        return "{" + self.wsc(pad) + body + self.wsc(pad) + "}"

    def term(self, depth, first=False):
        r = self.rng
        if depth <= 0 or not self.spend():
            return r.choice([str(r.randint(0, 999)), self.ident(), self.tname(), "~", "$", self.access(), "[]", '"s"', "."])
        k = r.random()
        if k < 0.13:
            return r.choice([str(r.randint(-9, 99999)), "-" + str(r.randint(1, 9)), str(2 ** 70), "0x", "0x0a1b", "0xFF", "1.5", "-0.25", "2.0", "1/3", "-2/4", "10/5"])
        if k < 0.3:
            return self.access()
        if k < 0.44:
            return self.tuple_(depth)
        if k < 0.53:
            return self.string(depth)
        if k < 0.63:
            return "=" + self.pattern(2)
        if k < 0.75:
            return self.block(depth)
        if k < 0.82:
            return self.function(depth)
        if k < 0.86:
            return r.choice(["^", "^" + self.ident(), "^" + self.ident() + "." + self.ident(), "^~"])
        if k < 0.91:
            return r.choice(["@" + self.ident(), "@~", "@", "@" + self.block(depth - 1), "@ " + self.block(depth - 1), "@'int " + self.block(depth - 1),
                             "@('int | 'bin) " + self.block(depth - 1), "@['int, 'bin] " + self.block(depth - 1), "@" + self.function(depth - 1),
                             "@%" + self.ident() + "." + self.ident(), "@3", "@12"])
        if k < 0.96:
            srcs = (self.wsc() + "," + self.wsc(" ")).join(self.chain(depth - 1, small=True) for _ in range(r.choice([0, 1, 2, 3])))
            return r.choice(["!", "!" + self.ident(), "!'int", "!'" + self.ident() + "<'int>", "!('int | 'bin)", "!#'int", "!#" + self.tname() + "['int]",
                             "!@3", "!@" + self.ident(), "!1000", "! [" + self.wsc() + srcs + self.wsc() + "]", "! []", "!'int " + self.block(depth - 1)])
        return r.choice([".", "&" + self.ident(), "&.", "&" + self.ident() + "." + self.ident(), "&__integer_add__", "&%" + self.ident() + "." + self.ident()])

    def chain(self, depth, small=False):
        r = self.rng
        n = r.choice([1, 1, 2, 2, 3]) if small else r.choice([1, 1, 2, 2, 3, 4, 6])
        terms = [self.term(depth, first=(i == 0)) for i in range(n)]
        out = terms[0]
        for t in terms[1:]:
            out += self.sp() + t
        if not small and self.chance(0.2):
            out = self.pattern(2) + r.choice([" = ", " = ", " =" + self.nl() + self.ind()]) + out
        return out

    def sequence(self, depth, small=None):
        r = self.rng
        n = r.choice([1, 1, 1, 2, 3]) if small else r.choice([1, 1, 2, 3, 4])
        out = self.chain(depth, small=bool(small))
        for _ in range(n - 1):
            out += self.seqsep() + self.chain(depth, small=bool(small))
        if self.chance(0.05):
            out += r.choice([",", " ,"])
        return out

    # ------------------------------------------------------------------ width-straddling constructs
    def straddle(self):
        """A construct whose flat width lands within +-4 of one of the formatter's thresholds
        (40: short block, 50: chain soft width, 100: line width), at indentation 0 or nested."""
        r = self.rng
        target = r.choice([40, 50, 100]) + r.choice([-4, -2, -1, 0, 1, 2, 4])
        kind = r.choice(["tuple", "chain", "block", "branchy", "binding", "nested", "args"])
        prefix = ""
        if kind == "binding":
            prefix = self.ident(r.choice([1, 3, 6])) + " = "
            kind = r.choice(["tuple", "chain", "block"])
        if kind == "nested":
            prefix = self.ident(2) + " = #{ "
            kind = r.choice(["tuple", "chain", "block"])
            suffix = " }"
        else:
            suffix = ""
        budget = target - len(prefix) - len(suffix)
        if kind == "tuple":
            open_, sep, close = r.choice(["[", self.tname(3) + "["]), ", ", "]"
        elif kind == "chain":
            open_, sep, close = "", " ", ""
        elif kind == "args":
            open_, sep, close = "[", ", ", "] " + self.ident(4)
        elif kind == "block":
            open_, sep, close = self.ident(1) + " { ", " | ", " }"
        else:
            open_, sep, close = "{ =1 => ", " | =2 => ", " }"
        items = []
        width = len(open_) + len(close)
        while True:
            remaining = budget - width - (len(sep) if items else 0)
            if remaining < 1:
                break
            if remaining <= 12:
                items.append(self.ident_exact(remaining))
                width = budget
                break
            it = self.ident_exact(r.choice([2, 4, 7, 11]))
            items.append(it)
            width += len(it) + (len(sep) if len(items) > 1 else 0)
        return prefix + open_ + sep.join(items) + close + suffix

    def ident_exact(self, n):
        r = self.rng
        return r.choice("abcdefghijklmnopqrstuvwxyz") + "".join(r.choice("abcdefghijklmnopqrstuvwxyz") for _ in range(n - 1)) if n > 0 else ""

    # ------------------------------------------------------------------ typed-lite programs (likely to compile)
    def t_int(self, depth):
        """A chain evaluating to an integer, using only bound names."""
        r = self.rng
        if depth <= 0 or not self.spend():
            return r.choice([str(r.randint(0, 50))] + self.vars[-3:])
        k = r.random()
        if k < 0.15:
            return str(r.randint(0, 999))
        if k < 0.3 and self.vars:
            return r.choice(self.vars)
        if k < 0.5:
            return "[" + self.wsc() + self.t_int(depth - 1) + "," + self.wsc(" ") + self.t_int(depth - 1) + self.wsc() + "]" + self.sp() + r.choice(["__integer_add__", "__integer_multiply__", "__integer_subtract__"])
        if k < 0.62:     # redundant block around a chain / a term
            return "{" + self.wsc(" ") + self.t_int(depth - 1) + self.wsc(" ") + "}"
        if k < 0.7:      # multi-step no-binding block
            return "{" + self.wsc(" ") + self.t_int(depth - 1) + self.seqsep() + self.t_int(depth - 1) + self.wsc(" ") + "}"
        if k < 0.85:     # branching block
            a, b, c = self.t_int(depth - 1), self.t_int(depth - 1), self.t_int(depth - 1)
            conseq = b if self.chance(0.6) else b + self.seqsep() + self.t_int(depth - 1)
            return a + self.sp() + "{" + self.wsc(" ") + "=0" + self.wsc(" ") + "=>" + self.wsc(" ") + conseq + self.wsc(" ") + "|" + self.wsc(" ") + c + self.wsc(" ") + "}"
        if k < 0.93 and self.funs:
            return self.t_int(depth - 1) + self.sp() + r.choice(self.funs)
        if k < 0.97:
            return self.t_int(depth - 1) + self.sp() + "{" + self.wsc(" ") + "[~, 1]" + self.sp() + "__integer_add__" + self.wsc(" ") + "}"
        return "[" + self.t_int(depth - 1) + ", " + self.t_int(depth - 1) + "]" + self.sp() + ".0"

    def t_statement(self, depth):
        r = self.rng
        k = r.random()
        if k < 0.5 or not self.vars:
            v = self.ident_exact(r.choice([1, 2, 5])) + str(len(self.vars))
            s = v + " = " + self.t_int(depth)
            self.vars.append(v)
            return s
        if k < 0.7:
            f = "f" + self.ident_exact(2) + str(len(self.funs))
            saved = self.vars
            self.vars = []
            body = self.t_int(depth).replace("\0", "")
            # the parameter is `$`; a tail-recursive countdown keeps `^` compilable
            if self.chance(0.3):
                body = "$ {" + self.wsc(" ") + "=0 => " + body + self.wsc(" ") + "|" + self.wsc(" ") + "[$, 1] __integer_subtract__" + self.sp() + r.choice(["^", "{ ^ }", "{" + self.wsc(" ") + "^" + self.wsc(" ") + "}"]) + self.wsc(" ") + "}"
            s = f + " = #'int {" + self.wsc(" ") + body + self.wsc(" ") + "}"
            self.vars = saved
            self.funs.append(f)
            return s
        if k < 0.8:
            return r.choice(['"a {"b"}"', '"x\\ty"', '"""\n  line\n    deeper\\s\n  """']) if not self.chance(0.5) else "Str[0x41]"
        if k < 0.9:
            v = self.ident_exact(2) + str(len(self.vars))
            s = "[" + v + ", _] = [" + self.t_int(depth - 1) + ", " + self.t_int(depth - 1) + "]"
            self.vars.append(v)
            return s
        return self.t_int(depth)

    # ------------------------------------------------------------------ whole programs
    def program(self):
        r = self.rng
        self.crlf = self.chance(0.06)
        depth = r.choice([1, 2, 2, 3, 3, 4])
        items = []
        n = r.choice([1, 1, 2, 3, 4, 6])
        out = ""
        if self.chance(self.noise * 0.6):
            out += self.wsc().lstrip(" ") if True else ""
        for i in range(n):
            if i:
                out += self.seqsep()
            k = r.random()
            if self.typed:
                out += self.t_statement(depth)
            elif k < 0.15:
                out += self.type_alias(2)
            elif k < 0.3:
                out += self.straddle()
            else:
                out += self.chain(depth)
        if self.chance(self.noise * 0.6):
            out += self.rng.choice(["", " "]) + self.comment()      # dangling trailing comment
        if self.chance(0.8):
            out += self.nl()
        return out
