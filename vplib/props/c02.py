"""C02 — compiled execution agrees with the language's reference semantics.

theorem layer : coq/theories/props/C02.v — laws of the reference evaluator `Lang.eval` (a
                fuelled big-step semantics written from docs/spec.md): fuel monotonicity (the
                semantics is a partial function), chains are infallible, sequences short-circuit on
                nil, branch fall-through / consequence commit, match verdict and bindings, block
                scoping, closures capture by value.
deciding check: every source is parsed by the REAL parser (harness qv_ast) and the REAL AST is
                dumped variant by variant; the extracted `eval_program` evaluates that AST; the real
                compiler + real VM run the same source; the canonical values are compared (tuple ids
                erased to (name, labels), binaries by content, functions as `function`).  Sources:
                the test-suite (its `.expect("..")` strings are a third oracle), docs/spec.md's
                examples (corpus/c02_spec.txt with the documented results, and every fenced block),
                corpus probes, and a type-directed generator (vplib/props/c02gen.py).
There is NO theorem relating the Rust compiler's output to the evaluator (it would need a model of
compiler.rs): that link is exactly the differential check.

Modelling decision R15 (star pattern over a union): docs/spec.md only says "`*` = all named fields"
and is silent about a value whose static type is a union of differently-labelled tuples.  The
meaning fixed by the F64 repair (hooks/fix_F64.msg) is adopted: every label of every variant is in
scope and the labels the matched value does not carry are nil (also after a failed match).  The
evaluator is untyped, so it records "a star pattern was matched in this scope" (a reserved
environment entry, block-scoped) and reads a name that is not bound in such a scope as nil; the
only imprecision (an OUTER binding named like a label that only another variant carries) is outside
the fragment and avoided by the generator.

Findings this check produced (F53c02, F64c02, F75, F76) or routed (F73) are repaired in /repo; their
reproducers are must-pass regression probes in corpus/c02_probes.txt (expected = the spec value,
compared with the real VM and the evaluator).  corpus/c02_known.txt holds reproducers of findings
that are still `known` (none at the moment); the signature routing stays table-driven by
known_findings.json (a `fixed` entry suppresses nothing)."""
import collections, hashlib, os, re, unicodedata
from vplib import sexpr, testsrc
from vplib.common import VERIF, REPO
from vplib.props import c02gen

READINGS = (
    "Modelling decisions of the reference evaluator (coq/theories/lang/Lang.v header) and what settles each: "
    "R1 `p = chain` is the in-chain match `chain =p` evaluating to Ok/[] — docs/spec.md l.303-305 (Pattern matching: 'Patterns can appear before a chain (x = ...) or within a chain (... =x)', 'A match evaluates to Ok if it succeeds and nil if it fails'). "
    "R2 a full tuple pattern is exact on name, arity and every label — spec l.49-60 (Tuple types: name and field names are part of the type) and quiver-tests/tests/assignment.rs:24-29; the loose examples l.323 and l.336 were ruled 'resolved ambiguity: spec example vs spec text/tests' by the coordinator. "
    "R3 after a FAILED match the pattern's binders are in scope and hold nil — spec l.303 ('any variables the pattern binds are in scope afterwards', silent on their value); settled by /verif/hooks/fix_F64.msg ('stores nil for a name it does not bind - the value a binder has after a failed match as well'). "
    "R4 a repeated binder inside one pattern is an equality test; an identifier bound earlier is re-bound; a pin reads the outer scope — spec l.844-846 (example `=[Cons[value, _], value]`), l.367 ('Identifiers in patterns bind by default'), l.345-357 (References). "
    "R5 a consequence starts from the BLOCK's input with the condition's bindings in scope — spec l.400 ('each branch starts from the block's parameter'), l.445 (`{ =Square[x] [x, 10] num.gt? => ... }`), quiver-tests/tests/branches.rs test_consequence_ripple_is_block_parameter_not_condition_result. "
    "R6 each branch is evaluated in the scope the block was entered with — spec l.408 ('a branch's bindings are likewise local to the block'); the slot discipline behind it was repaired by fix F73 (7ce1312). "
    "R7 tuple fields and string holes receive the flowing value left to right; a field's bindings persist, a hole is a scope — spec l.236-238 (fields receive their own copy), l.173-176 ('Each hole is parsed like a block body'), l.400 (a block introduces a scope). "
    "R8 'callable variables are called', decided dynamically for identifiers, `$`-accesses, import members and builtins; `~` and a postfix `.x` only select — spec l.226-231, l.497 (`$` is the parameter), l.553-558 ('no bare ripple application'); for fields of a tuple that contains a spread: fix F75 (5ce1e95). "
    "R9 `^`, `^f`, `^~` hand the rest of the enclosing function's evaluation to the callee — spec l.560-596 (Tail recursion). "
    "R10 `#{..}` without a parameter type is nilary; a context-inferred parameter is outside the fragment — spec l.489-495. "
    "R11 a program is ONE sequence, type aliases are transparent — spec l.210-212. "
    "R12 equality is structural on (name, labels, fields); comparing functions is outside the fragment — spec l.331-343, l.345-357; quiver-tests/tests/equality.rs; C13's theorem values_equal_structural. "
    "R13 builtins: mathematical integers / byte strings, truncating division, sign-of-dividend modulo — spec l.795-802 names them only; semantics = quiver-core/src/builtins/integer.rs as proved against reference specs by C12. "
    "R14 type patterns: structural membership, `^` = root of the alias, generic aliases by substitution — spec l.359-365, l.73-141 (Type aliases, Parameterised, Union, Intersection, Recursive types). "
    "R15 an unnamed `*` over a union of differently-labelled tuples brings every label into scope, absent ones nil — spec l.326 ('Star (all named fields)') is silent about unions; settled by /verif/hooks/fix_F64.msg. "
    "Re-binding a name uses the new binding's value and type (spec l.307-315, l.367): fixes F53 (07dd2af, /verif/hooks/fix_F53.msg) and F76 (d92f466).")

MANIFEST = dict(
    category="proof",
    text="partial. Coq theorems (props/C02.v, 25, all closed under the global context) about the reference evaluator Lang.eval — a big-step semantics of the core sequential language written from docs/spec.md, structurally recursive on the AST with fuel consumed only by function calls and imports: eval_fuel_mono / eval_program_fuel_mono / fuel_mono_all_judgements / eval_deterministic (a finished result is stable under more fuel: the semantics is a partial function), chain_infallible, sequence_short_circuit, branch_fallthrough, consequence_commits, match_verdict (Ok/[]; on success the scope grows by the pattern's bindings, on failure by its binders all nil), match_binds_only_binders, pmatch_extends, bare_binder_always_succeeds, block_scoping, closure_captures_by_value; and normalize_preserves_eval (+ splice_noop, lift_noop, normalize_preserves_value, normalize_preserves_termination, call_import_norm): simplify.rs's normalize_blocks with the compiler's options, modelled in lang/LangSimplify.v, preserves the outcome of every program at every fuel, up to the event counters and to normalising the bodies of function values in the result. A compiler-correctness slice (compile_simulates, compile_block_simulates, call_simulates, compile_program_correct, normalize_then_compile_correct; lang/LangCompile*.v) proves that the mirrored code generation simulates the evaluator on the VM model vm/Vm.v (C07's, lock-stepped against executor.rs there) for a fragment: integer literals, tuples without spreads, positional access, bare binders, integer-literal matches, chains, sequences, and blocks with any number of branches (condition with or without `=>` consequence, fall-through, Store/Load of the block input, Reset at branch and block exit), and non-capturing functions with a non-nil parameter bound by `f = #T { body }` (IFunction) and called `arg f` (ILoad; ICall; callee frame with its own locals; frame pop) to any call depth — call_simulates, by induction on the evaluator's fuel, discharges the call premise of compile_simulates. At IEqual the VM model takes the verdict as an outside input; the exhibited run supplies the verdict of the evaluator's own structural equality. NOT in the fragment: a `=>` branch whose condition binds (out-of-line failure handler), spreads, label access, strings/binaries, structured patterns, function values anywhere but as the value of a binding step, capturing or nilary functions, tail calls, builtins, imports, processes; not mirrored: the compiler's dropping of the steps after a statically-nil step. NOT a theorem: that the Rust compiler's bytecode computes eval for the whole language (no model of compiler.rs) — `compile_correct` is kept as a comment in props/C02.v. That link is validated by differential execution: the real parser's AST is evaluated by the extracted evaluator and compared with real compile+run on test-suite sources (with the suite's expected strings as a third oracle), the spec's examples with their documented results, corpus probes (must-pass) and type-directed generated programs accepted by the real compiler; the model of simplify.rs is compared with the real normalize_blocks on the same sources and std/*.qv. " + READINGS,
    design_ref="§5 C02",
    note="Trusted: Coq kernel, extraction (ExtrOcamlBasic), OCaml driver (AST reader, atom interning), Rust harness qv_ast (AST dumper, --norm) and qvh::eval_source, Python differ/generator/shrinker. Out of the modelled fragment (reported as `unsupported`, counted): processes/select/spawn/send/self, resources/IO, refs, builtins other than integer add/subtract/multiply/divide/modulo/gcd/compare/abs/sqrt and binary concat/length, function/process/module types and type spreads inside type patterns, `^n` (n>0), context-inferred parameters of `#{..}` literals. Where static typing decides what the spec words dynamically (a variable whose type mixes callables and non-callables, type variables) the generator avoids the construct. The generator also avoids the known typing defects F13/F27 (C20/C01). Findings this check produced (F53c02, F64c02, F75, F76) or routed (F73) are repaired in /repo; their reproducers are must-pass regression probes in corpus/c02_probes.txt; F93 (a name-inheriting spread `~[...]` / `x[...]` over a source whose static type is a union yields an unnamed tuple; spec l.272/l.286 say the name is preserved) was found by the thorough tier: reproducers in corpus/c02_known.txt, narrow signature sig_F93, the free generator gives name-inheriting spreads of named tuples a plain-tuple-typed source and exercises explicitly named spreads over union-typed sources instead; signature routing stays table-driven by known_findings.json. LangSimplify.v models normalize_blocks for the compiler's options only (the formatter's `keep` closure and `group_consequences` are C17's, over Simplify.v).",
    technique="Coq proof (laws of the reference semantics; normalisation preserves it) + differential execution of the extracted evaluator on the real parser's AST against the real compiler+VM, 3-way with the test-suite's expected values; model-vs-code correspondence of the normalisation",
)

FUEL_SUITE = 400000       # the suite has 100000-iteration tail loops
FUEL_GEN = 30000


def q(s):
    return sexpr.quote(s)


# ------------------------------------------------------------------ canonical values
def canon_real(line):
    """real VM outcome -> the evaluator's vocabulary: functions/builtins become (f)"""
    prev = None
    s = line
    while prev != s:
        prev = s
        s = re.sub(r"\((?:f|bi)(?: [^()]*| \(f\))*\)", "(f)", s)
    return s


def strip_stats(line):
    m = re.search(r" \(st ([-0-9 ]+)\)$", line)
    if m:
        return line[:m.start()], [int(x) for x in m.group(1).split()]
    return line, None


def fmt_value(v):
    """canonical dump (parsed) -> the string quiver-core/src/format.rs format_value prints;
    None when the value is not plain (function, long binary, Surd, ...)"""
    h = v[0]
    if h == "i":
        return v[1]
    if h == "b":
        hx = v[1] if len(v) > 1 else ""
        if len(hx) > 16:
            return None
        return "0x" + hx
    if h == "t":
        name, labels, fields = v[1], v[2], v[3:]
        if name == "Str" and len(fields) == 1 and fields[0][0] == "b":
            hx = fields[0][1] if len(fields[0]) > 1 else ""
            try:
                s = bytes.fromhex(hx).decode("utf-8")
            except (UnicodeDecodeError, ValueError):
                s = None
            if s is not None and "\0" not in s and not any(unicodedata.category(c) == "Cc" and c not in "\n\r\t" for c in s):
                return '"' + s.replace("\\", "\\\\").replace('"', '\\"').replace("\n", "\\n").replace("\r", "\\r").replace("\t", "\\t") + '"'
        if name == "Rational" and len(fields) == 2 and fields[0][0] == "i" and fields[1][0] == "i":
            return "%s/%s" % (fields[0][1], fields[1][1])
        if name == "Surd":
            return None
        parts = []
        for l, f in zip(labels, fields):
            fv = fmt_value(f)
            if fv is None:
                return None
            parts.append((l + ": " if l != "-" else "") + fv)
        if name != "-":
            return name if not parts else "%s[%s]" % (name, ", ".join(parts))
        return "[%s]" % ", ".join(parts)
    return None


def printed(line):
    """`(ok <value>)` -> printed form or None"""
    if not line.startswith("(ok "):
        return None
    try:
        return fmt_value(sexpr.parse(line)[1])
    except Exception:
        return None


# ------------------------------------------------------------------ sources
def suite_pairs():
    """[(origin, source, expected printed value or None)] from quiver-tests/tests/*.rs: the string
    passed to `.evaluate(` and, when the very next call is `.expect("..")`, its argument."""
    out = []
    tdir = os.path.join(REPO, "quiver-tests", "tests")
    for fn in sorted(os.listdir(tdir)):
        if not fn.endswith(".rs") or fn.startswith("zz") or fn == "common.rs":
            continue
        text = open(os.path.join(tdir, fn)).read()
        for m in re.finditer(r"\.evaluate\(", text):
            try:
                r = testsrc.rust_string_literals(text, m.end())
            except (ValueError, IndexError):
                r = None
            if not r:
                continue
            src, end = r
            # a builder with in-memory modules / io is not reproducible from the source alone
            pre = text[max(0, m.start() - 400):m.start()]
            stmt = pre[pre.rfind(";") + 1:]
            if "with_modules" in stmt or "with_io" in stmt:
                continue
            exp = None
            mm = re.match(r"\s*,?\s*\)\s*\.expect\(", text[end:end + 200])
            if mm:
                try:
                    e = testsrc.rust_string_literals(text, end + mm.end())
                    if e:
                        exp = e[0]
                except (ValueError, IndexError):
                    pass
            line = text.count("\n", 0, m.start()) + 1
            out.append(("%s:%d" % (fn, line), src, exp))
    return out


def corpus_cases(name):
    out = []
    p = os.path.join(VERIF, "corpus", name)
    if not os.path.exists(p):
        return out
    for i, line in enumerate(open(p)):
        line = line.rstrip("\n")
        if not line or line.startswith("#"):
            continue
        body = line.split(" ; ")[0] if " ; " in line else line
        # "<src>" [=> "<expected>"]
        try:
            items = sexpr.parse("(" + body + ")")
        except Exception:
            continue
        src = items[0]
        exp = items[2] if len(items) >= 3 and items[1] == "=>" else None
        out.append(("%s:%d" % (name, i + 1), src, exp))
    return out


# ------------------------------------------------------------------ signatures of the known findings (input AST only)
def _walk(node, f):
    if isinstance(node, list):
        f(node)
        for x in node:
            _walk(x, f)


def sig_F53c02(ast_line, real, ev):
    """some identifier is bound by a bare binder more than once AND is read somewhere: the shape
    of "re-binding a name that has a recorded narrowing" (`t = [4], t = t.0, t { =4 => .. }`)"""
    try:
        ast = sexpr.parse(ast_line)
    except Exception:
        return False
    binders, reads = collections.Counter(), set()

    def visit(n):
        if n and n[0] == "MIdentifier" and len(n) == 2:
            binders[n[1]] += 1
        if n and n[0] == "AccessT" and len(n) >= 2 and isinstance(n[1], list) and n[1] and n[1][0] == "Identifier":
            reads.add(n[1][1])
    _walk(ast, visit)
    return any(c >= 2 and x in reads for x, c in binders.items())


def sig_F76(ast_line, real, ev):
    """the F53c02 shape where additionally a tuple is built with a spread (`[4] [...]`, `B[...]`):
    the residue of the F53 family after the F53 repair"""
    return "(FSpread" in ast_line and sig_F53c02(ast_line, real, ev)


def sig_F64c02(ast_line, real, ev):
    """an UNNAMED star pattern, and one side reports an undefined variable"""
    return "(MStar -)" in ast_line and (real == "(err VariableUndefined)" or ev.startswith("(err stuck 1)"))


BINDER_HEADS = ("MIdentifier", "MAs", "MStar")


def _has_binder(node):
    found = []

    def visit(n):
        if n and isinstance(n[0], str) and (n[0] in BINDER_HEADS or (n[0] == "PartialPatternField" and len(n) == 3 and n[2] == "-")):
            found.append(1)
    _walk(node, visit)
    return bool(found)


def sig_F73(ast_line, real, ev, st=None):
    """local slots misaligned after a failed branch: the evaluation took a fall-through AND
    (a) some non-final branch has a condition of several steps in which an earlier step binds and
        whose last step is not a match (its nil does not come from a failed match), or
    (b) a chain has a block term followed later by a block term that binds"""
    if st is not None and st[0] == 0:
        return False
    try:
        ast = sexpr.parse(ast_line)
    except Exception:
        return False
    hit = []

    def visit(n):
        if n and n[0] == "ExpressionB":
            branches = n[1:]
            for b in branches[:-1]:
                chains = b[1][1:]
                if len(chains) >= 2 and any(_has_binder(c) for c in chains[:-1]):
                    last_terms = chains[-1][2:]
                    if last_terms and not (isinstance(last_terms[-1], list) and last_terms[-1][0] == "Match"):
                        hit.append("a")
        if n and n[0] == "Chain":
            terms = n[2:]
            blocks = [i for i, t in enumerate(terms) if isinstance(t, list) and t and t[0] == "Block"]
            if len(blocks) >= 2 and any(_has_binder(terms[i]) for i in blocks[1:]):
                hit.append("b")
    _walk(ast, visit)
    return bool(hit)


def sig_F75(ast_line, real, ev, st=None):
    """a tuple literal with a spread AND a field whose first term is a callable used by flow
    (an access to an identifier / builtin / import member); the real value holds a function where
    the evaluator's does not"""
    if real.count("(f)") <= ev.count("(f)"):
        return False
    try:
        ast = sexpr.parse(ast_line)
    except Exception:
        return False
    hit = []

    def first_is_access(chain):
        terms = chain[2:]
        if not terms:
            return False
        t = terms[0]
        if isinstance(t, list) and t and t[0] == "Block":
            # `{ f }`: a redundant block is stripped by the compiler
            try:
                inner = t[1][1][1][1]          # ExpressionB -> Branch -> Sequence -> first Chain
                return first_is_access(inner)
            except Exception:
                return False
        return (isinstance(t, list) and t and t[0] == "Access" and isinstance(t[1], list) and len(t[1]) >= 2
                and isinstance(t[1][1], list) and t[1][1] and t[1][1][0] in ("Identifier", "Builtin", "Import"))

    def visit(n):
        if n and n[0] == "Tuple":
            fields = [f for f in n[2:] if isinstance(f, list) and f and f[0] == "TupleField"]
            has_spread = any(f[2][0] == "FSpread" for f in fields)
            if has_spread and any(f[2][0] == "FChain" and first_is_access(f[2][1]) for f in fields):
                hit.append(1)
    _walk(ast, visit)
    return bool(hit)


_TNAME = re.compile(r"\(t [^ ()]+ ")


def sig_F93(ast_line, real, ev):
    """a name-inheriting tuple (`~[...]`, `x[...]`) occurs AND the two values differ ONLY in tuple
    names (the real compiler takes the inherited name from the STATIC type of the spread's source:
    none when that type is a union; spec l.272/l.286 say the name is preserved)"""
    return ("(Tuple Inherit" in ast_line and real != ev and real.startswith("(ok") and ev.startswith("(ok")
            and _TNAME.sub("(t - ", real) == _TNAME.sub("(t - ", ev))


SIGNATURES = [("F93", sig_F93), ("F64c02", sig_F64c02), ("F75", sig_F75), ("F76", sig_F76), ("F53c02", sig_F53c02), ("F73", sig_F73)]


def known_finding_of(ast_line, real, ev, st=None):
    for fid, sig in SIGNATURES:
        try:
            ok = sig(ast_line, real, ev, st) if sig in (sig_F73, sig_F75) else sig(ast_line, real, ev)
        except Exception:
            ok = False
        if ok:
            return fid
    return None


# ------------------------------------------------------------------ shrinking (statement / branch / field level)
def _groups(src):
    out = []
    stack = [[-1, []]]
    i, n = 0, len(src)
    while i < n:
        ch = src[i]
        if ch == '"':
            i += 1
            while i < n and src[i] != '"':
                i += 2 if src[i] == "\\" else 1
            i += 1
            continue
        if ch in "[{(":
            stack.append([i, []])
        elif ch in "]})":
            if len(stack) > 1:
                o, seps = stack.pop()
                out.append((o, i, seps))
        elif ch == "," or ch == "|":
            stack[-1][1].append((i, i + 1))
        elif ch == "=" and src[i:i + 2] == "=>":
            stack[-1][1].append((i, i + 2))
            i += 2
            continue
        i += 1
    out.append((-1, n, stack[0][1]))
    return out


def shrink_candidates(src):
    cands = []
    for o, c, seps in _groups(src):
        starts = [o + 1] + [e for _, e in seps]
        ends = [s for s, _ in seps] + [c]
        k = len(starts)
        if k > 1:
            for i in range(k):
                if i < k - 1:
                    cands.append(src[:starts[i]] + src[starts[i + 1]:])
                else:
                    cands.append(src[:ends[i - 1]] + src[ends[i]:])
        if o >= 0:
            for i in range(k):
                elem = src[starts[i]:ends[i]].strip()
                if elem:
                    cands.append(src[:o] + " " + elem + " " + src[c + 1:])
            cands.append(src[:o] + ("[]" if src[o] == "[" else "0") + src[c + 1:])
    seen, out = set(), []
    for c in sorted(cands, key=len):
        if c != src and c.strip() and c not in seen:
            seen.add(c)
            out.append(c)
    return out


def shrink(src, holds_batch, max_rounds=80, batch=64):
    cur = src
    for _ in range(max_rounds):
        cands = shrink_candidates(cur)
        progressed = False
        for k in range(0, len(cands), batch):
            chunk = cands[k:k + batch]
            res = holds_batch(chunk)
            good = [c for c, ok in zip(chunk, res) if ok]
            if good:
                cur = min(good, key=len)
                progressed = True
                break
        if not progressed:
            break
    return cur


# ------------------------------------------------------------------ the check
NODE = re.compile(r"\(([A-Z][A-Za-z_]*)")
BARE = re.compile(r"(?<=[ (])(Parameter|Ripple|SelfSrc|TailCallRipple|Inherit|Anonymous)(?=[ )])")


class Runner:
    def __init__(self, ctx, qa, drv, std):
        self.ctx, self.qa, self.drv, self.std = ctx, qa, drv, std

    def both(self, sources, fuel, shards=None):
        """-> [(ast_line, real_line, eval_line, stats)]"""
        lines = [q(s) for s in sources]
        if not lines:
            return []
        _, out = self.ctx.run_sharded(self.qa, lines, args=["--eval"], shards=shards, timeout=1500)
        asts, reals = [], []
        for o in out:
            a, _, r = o.partition("\t")
            asts.append(a)
            reals.append(canon_real(r) if r else "(missing-output)")
        # a big OCaml stack for deep (non-tail) recursion of the evaluator
        cmd = "ulimit -s 4000000 2>/dev/null || ulimit -s unlimited 2>/dev/null; exec %s %d --std %s" % (self.drv, fuel, self.std)
        _, ev = self.ctx.run_sharded("/bin/sh", asts, args=["-c", cmd], shards=shards, timeout=1500)
        res = []
        for a, r, e in zip(asts, reals, ev):
            e2, st = strip_stats(e)
            res.append((a, r, e2, st))
        return res


def classify(real, ev):
    """-> category"""
    if ev.startswith("(skip") or real.startswith("(parse-error"):
        return "parse-error"
    if real.startswith("(compile-error"):
        return "rejected-by-compiler"
    if ev.startswith("(unsupported"):
        return "unsupported"
    if ev == "(none)":
        return "no-executable-code"
    if real.startswith("(panic") or real == "(missing-output)":
        return "real-panic"
    if ev in ("(missing-output)", "(stack-overflow)") or ev.startswith("(driver-error"):
        return "evaluator-no-output"
    if real in ("(err StepLimit)", "(err Blocked)"):
        return "both-diverge" if ev == "(timeout)" else "real-undecided"
    if ev == "(timeout)":
        return "evaluator-out-of-fuel"
    if real.startswith("(ok") and re.search(r"\((?:p|r|res) ", real):
        return "non-structural-value"
    if real == ev:
        return "agree"
    if real.startswith("(err") and ev.startswith("(err"):
        return "agree-error"
    return "DISAGREE"


def run(ctx):
    ok = ctx.coq_props()
    qa = ctx.harness("qv_ast")
    drv = ctx.driver("lang")
    if not qa or not drv:
        return
    if not ok:
        ctx.violation({"kind": "theorem-broken", "theorem": getattr(ctx, "broken_theorem", "props/C02.v"),
                       "what": "the Coq cone of props/C02.v does not check"}, no_input=True)
    std = os.path.join(ctx.work, "std_modules.txt")
    rc, out = ctx.run_bin(qa, [], args=["--std"])
    open(std, "w").write("\n".join(out) + "\n")
    R = Runner(ctx, qa, drv, std)

    if getattr(ctx, "replay_path", None):
        # ./check C02 --replay <file>: re-judge the recorded (shrunk) source on the current tree
        import json
        obj = json.load(open(ctx.replay_path))
        src = obj.get("shrunk") or obj.get("source") or ""
        (ast, real, ev, st), = R.both([src], FUEL_SUITE, shards=1)
        cat = classify(real, ev)
        print("replay: %s real=%s evaluator=%s" % (cat, real, ev))
        ctx.cov["replay"] = {"category": cat, "real": real, "evaluator": ev}
        ctx.cov["evaluations"] = 1
        if cat in ("DISAGREE", "real-panic"):
            ctx.violation({"kind": "impl-violation-or-evaluator-bug", "source": src, "real": real, "evaluator": ev},
                          finding_key=known_finding_of(ast, real, ev, st))
        return

    # ---------------------------------------------------------------- sources
    suite = suite_pairs()
    n_suite_total = len(suite)
    cap = ctx.n(700, 10**9)
    if len(suite) > cap:
        idx = sorted(ctx.rng.sample(range(len(suite)), cap))
        suite = [suite[i] for i in idx]
    spec_blocks = [(o, s, None) for o, s in testsrc.spec_examples()]
    corpus = corpus_cases("c02_spec.txt") + corpus_cases("c02_probes.txt") + corpus_cases("c02_known.txt")
    gstats = {}
    ngen = ctx.n(700, 50000)
    gen = [("gen:%d" % i, c02gen.generate(ctx.rng, gstats), None) for i in range(ngen)]

    cases = [("corpus",) + c for c in corpus] + [("suite",) + c for c in suite] + \
            [("spec",) + c for c in spec_blocks] + [("gen",) + c for c in gen]
    results = {}
    for kind, fuel in (("corpus", FUEL_SUITE), ("suite", FUEL_SUITE), ("spec", FUEL_SUITE), ("gen", FUEL_GEN)):
        sel = [c for c in cases if c[0] == kind]
        for c, r in zip(sel, R.both([c[2] for c in sel], fuel)):
            results[(c[0], c[1])] = (c, r)

    # ---------------------------------------------------------------- model of simplify.rs vs the real normalize_blocks
    # (correspondence of coq/theories/lang/LangSimplify.v, about which C02_normalize_preserves_eval speaks):
    # the real parser's AST before/after the real normalize_blocks (compiler options); the extracted
    # `normalize` must map one to the other.  Sources: everything above plus std/*.qv.
    norm_srcs = [c[2] for c in cases] + [src for _, src in testsrc.qv_files()]
    _, nd = ctx.run_sharded(qa, [q(x) for x in norm_srcs], args=["--norm"], timeout=1500)
    _, nm = ctx.run_sharded(drv, nd, args=["--norm"], timeout=1500)
    norm_cnt = collections.Counter()
    norm_changed = 0
    for src, dline, mline in zip(norm_srcs, nd, nm):
        key = mline if mline.startswith("(norm") else ("parse-error" if "parse-error" in mline else mline.split()[0])
        norm_cnt[key] += 1
        if mline == "(norm ok)":
            try:
                parsed = sexpr.parse(dline)
                if parsed[1] != parsed[2]:
                    norm_changed += 1
            except Exception:
                pass
        if mline.startswith("(norm diff") or mline.startswith("(driver-error") or dline.startswith("(panic"):
            ctx.violation({"kind": "correspondence-broken", "correspondence": "LangSimplify.normalize vs simplify::normalize_blocks",
                           "what": mline, "source": src,
                           "replay": "printf '%s\\n' " + repr(q(src)) + " | .cache/cargo-target/debug/qv_ast --norm"},
                          no_input=True)
    ctx.cov["normalize_model_vs_real"] = dict(norm_cnt)
    ctx.cov["normalize_real_changed_the_ast"] = norm_changed

    # ---------------------------------------------------------------- compile slice: the mirror vs real bytecode
    # (correspondence of coq/theories/lang/LangCompile.v, about which C02_compile_program_correct speaks):
    # for programs of the fragment the extracted `compile_program (normalize p)` must emit exactly the
    # instructions of the entry function the real compiler emits (`qv_ast --code`; constant indices and
    # tuple ids resolved to the constant / the (name, labels) shape on both sides).
    fstats = {}
    nfrag = ctx.n(500, 6000)
    frag = [c02gen.fragment_program(ctx.rng, fstats) for _ in range(nfrag)]
    frag_generated = set(frag)
    code_diffs = []
    frag += [c[2] for c in cases if c[0] in ("corpus", "suite")]        # whatever of these is in the fragment
    _, fd = ctx.run_sharded(qa, [q(x) for x in frag], args=["--code"], timeout=1500)
    _, fm = ctx.run_sharded(drv, fd, args=["--compile"], timeout=1500)
    code_cnt = collections.Counter()
    code_instrs = 0
    for src, dline, mline in zip(frag, fd, fm):
        real = dline.partition("\t")[2]
        if not real.startswith("(code"):
            code_cnt["real-" + (real.split()[0].strip("()") if real else "no-output")] += 1
            continue
        if mline == "(not-in-fragment)":
            code_cnt["not-in-fragment"] += 1
        elif mline == real:
            code_cnt["same-code"] += 1
            code_instrs += real.count("(") - 1
        elif mline.startswith("(code") and src not in frag_generated:
            # a corpus / test-suite source: the one known unmirrored behaviour is that the real
            # compiler drops the steps after a STATICALLY nil step; recorded, not a violation
            code_cnt["different-code-in-suite-source"] += 1
            code_diffs.append({"source": src, "real": real, "mirror": mline})
        elif mline.startswith("(code"):
            code_cnt["DIFFERENT-CODE"] += 1
            ctx.violation({"kind": "correspondence-broken", "correspondence": "LangCompile.compile_program vs compiler.rs codegen",
                           "source": src, "real": real, "mirror": mline,
                           "what": "the compile mirror and the real compiler emit different code for a program of the fragment"},
                          no_input=True)
        else:
            code_cnt[mline.split()[0].strip("()")] += 1
    ctx.cov["compile_mirror_vs_real_bytecode"] = dict(code_cnt)
    ctx.cov["compile_mirror_instructions_compared"] = code_instrs
    ctx.cov["compile_mirror_differences_in_suite_sources"] = code_diffs[:10]
    ctx.cov["compile_fragment_generator_features"] = dict(sorted(fstats.items()))

    # ---------------------------------------------------------------- compare
    per_origin = collections.defaultdict(collections.Counter)
    unsupported = collections.Counter()
    node_hist = collections.Counter()
    third = collections.Counter()
    path_stats = collections.Counter()
    distinct = set()
    samples = []
    disagreements = []
    known_hits = collections.Counter()
    expected_mismatch = []
    known_matches = []
    for key, (c, (ast, real, ev, st)) in results.items():
        kind, origin, src, exp = c
        cat = classify(real, ev)
        per_origin[kind][cat] += 1
        if cat == "unsupported":
            unsupported[ev] += 1
        if cat in ("agree", "agree-error", "DISAGREE", "both-diverge"):
            for m in NODE.finditer(ast):
                node_hist[m.group(1)] += 1
            for m in BARE.finditer(ast):
                node_hist[m.group(1)] += 1
        if cat == "agree":
            if st:
                names = ["fallthrough", "commit", "short_circuit", "match_fail", "mid_chain_match_fail", "closure_call", "tail_call"]
                for nme, v in zip(names, st):
                    if v:
                        path_stats["programs_with_" + nme] += 1
                nontrivial = sum(1 for v in st if v) >= 1 and len(src) > 12
                if nontrivial:
                    distinct.add(hashlib.sha1(src.encode()).hexdigest())
            if len(samples) < 12 and kind in ("gen", "suite") and len(src) < 400:
                samples.append({"origin": origin, "source": src, "value": ev})
        # third oracle: the documented / expected printed value
        if exp is not None and cat in ("agree", "agree-error", "DISAGREE"):
            pr, pe = printed(real), printed(ev)
            if pr is None and pe is None:
                third["not-plain"] += 1
            else:
                okr = pr == exp
                oke = pe == exp
                third["real==expected" if okr else "real!=expected"] += 1
                third["evaluator==expected" if oke else "evaluator!=expected"] += 1
                if okr and oke:
                    third["all-three-agree"] += 1
                elif cat == "agree" and kind != "corpus":
                    # both sides agree with each other but not with the suite's expectation: only a
                    # formatting difference of the harness is possible; recorded, not a violation
                    third["both-differ-from-expected"] += 1
                    expected_mismatch.append({"origin": origin, "expected": exp, "printed": pr})
                elif cat == "agree":
                    # a corpus probe (documented spec result / regression probe of a repaired
                    # finding) is MUST-PASS on both sides
                    disagreements.append((c, real, ev, "corpus probe: expected %r; real prints %r, evaluator prints %r" % (exp, pr, pe)))
                if (not okr or not oke) and cat != "DISAGREE" and cat != "agree":
                    disagreements.append((c, real, ev, "expected %r; real prints %r, evaluator prints %r" % (exp, pr, pe)))
        if cat in ("DISAGREE", "real-panic"):
            why = "evaluator and real VM differ" if cat == "DISAGREE" else "the real compiler/VM panicked"
            fid = known_finding_of(ast, real, ev, st)
            if fid is not None:
                # table-driven by known_findings.json: a `known` entry turns this into a
                # KNOWN-FINDING line, a `fixed` (or missing) one leaves it a violation
                path = ctx.violation({"kind": "impl-violation", "finding": fid, "what": why, "origin": origin,
                                      "source": src, "real": real, "evaluator": ev}, finding_key=fid)
                known_hits[fid] += 1
                if kind != "corpus" and len(known_matches) < 10:
                    known_matches.append({"finding": fid, "origin": origin, "source": src, "real": real, "evaluator": ev})
                if path is None:
                    continue
            else:
                disagreements.append((c, real, ev, why))

    # ---------------------------------------------------------------- triage of disagreements
    for c, real, ev, why in disagreements[:6]:
        kind, origin, src, exp = c
        fuel = FUEL_GEN if kind == "gen" else FUEL_SUITE

        def holds(cands, fuel=fuel):
            rs = R.both(cands, fuel, shards=8)
            return [classify(r, e) in ("DISAGREE", "real-panic") for (_, r, e, _) in rs]
        small = src
        if classify(real, ev) in ("DISAGREE", "real-panic"):
            try:
                small = shrink(src, holds)
            except Exception:
                small = src
        (_, r2, e2, _), = R.both([small], fuel, shards=1)
        ctx.violation({"kind": "correspondence-broken" if exp is None else "impl-violation-or-evaluator-bug",
                       "what": why, "origin": origin, "source": src, "shrunk": small,
                       "real": r2, "evaluator": e2, "expected": exp,
                       "triage": "re-read docs/spec.md for the shrunk program: if the evaluator is wrong fix Lang.v; if the compiler/VM is wrong this is an impl-violation of C02",
                       "replay": "printf '%s\\n' " + repr(q(small)) + " | .cache/cargo-target/debug/qv_ast --eval"})
    for c, real, ev, why in disagreements[6:]:
        ctx.violation({"kind": "correspondence-broken", "what": why, "origin": c[1], "source": c[2],
                       "real": real, "evaluator": ev, "expected": c[3]})

    # ---------------------------------------------------------------- evidence
    tot = collections.Counter()
    for k in per_origin:
        tot.update(per_origin[k])
    compared = tot["agree"] + tot["agree-error"] + tot["DISAGREE"] + tot["both-diverge"]
    cov = ctx.cov
    cov["evaluations"] = len(results)
    cov["programs"] = len(results)
    cov["programs_per_origin"] = {k: sum(v.values()) for k, v in per_origin.items()}
    cov["outcome_per_origin"] = {k: dict(v) for k, v in per_origin.items()}
    cov["suite_sources_total"] = n_suite_total
    cov["supported_vs_unsupported"] = {"compared": compared, "unsupported": tot["unsupported"],
                                       "rejected_by_real_compiler_or_parser": tot["rejected-by-compiler"] + tot["parse-error"],
                                       "no_executable_code": tot["no-executable-code"]}
    cov["unsupported_by_reason"] = dict(unsupported.most_common())
    cov["traces_validated_against_impl"] = compared + norm_cnt["(norm ok)"] + code_cnt["same-code"]
    cov["disagreements_checked"] = compared
    cov["disagreements"] = tot["DISAGREE"]
    cov["disagreements_matching_a_known_finding"] = dict(known_hits)
    cov["known_finding_matches_outside_corpus"] = known_matches
    cov["three_way_with_expected_values"] = dict(third)
    cov["agreeing_but_printed_differently_from_expected"] = expected_mismatch[:10]
    cov["ast_node_kinds_exercised"] = dict(node_hist.most_common())
    cov["agreeing_programs_by_path"] = dict(path_stats)
    cov["generator_features"] = dict(sorted(gstats.items()))
    cov["generator_accepted_by_real_compiler"] = sum(per_origin["gen"].values()) - per_origin["gen"]["rejected-by-compiler"] - per_origin["gen"]["parse-error"]
    cov["distinct_nontrivial"] = len(distinct)
    cov["rule"] = "distinct = sha1 of the source text; non-trivial = the evaluator and the real VM agree on a value AND the evaluation took at least one of: branch fall-through, consequence commit, sequence short-circuit, failed match, closure call, tail call"
    cov["samples"] = samples
    cov["fragment_note"] = "generator avoids: variables whose static type mixes callable/non-callable, context-inferred #{} parameters, F13/F27 typing defects (bare binders of possibly-nil values; observing failed-match binders other than by embedding them in a tuple), star binders after a failed match; resolved ambiguity: spec.md l.323 and l.336 examples vs spec text/tests (exact tuple name/labels in full tuple patterns)"
    ctx.assumptions.append("docs/spec.md is the reference; where it is silent the readings R1-R14 listed at the top of coq/theories/lang/Lang.v were chosen")
    ctx.assumptions.append("no theorem relates compiler.rs to Lang.eval: agreement is established per program by differential execution")
