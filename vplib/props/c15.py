"""C15 — failures are contained; workers never crash (exploration level).

exploration  : generated systems with a failing member F (failure sites: builtin domain error
               (division by zero), effect error from the instrumented backend on use and on open,
               resource-ownership violation, send / spawn / select inside a receive filter) with
               awaiters of F registered before / during / after the failure, bystander processes
               exchanging messages, and extra sends aimed at the failed process; plus double awaits
               of one finished process. Run on the REAL Environment + Workers + Repl in the
               deterministic simulator qv_sim (synchronous and deferred effect completions) under
               seeded adversarial schedules x worker counts {1,2,3,5} x quanta {1,2,3,7,1000}.
impl oracles : non-awaiters reach their normal results; F is failed; every awaiter of F is failed with
               the same error (class and digit-sanitised message) as F; `no-internal-error`: no panic
               and no Err from Worker::step / Environment::step; no hang; check_refcounts.
The Coq theorems of DESIGN §5 C15 (failure_local, awaiters_get_same_error, step_never_errs) are
pending; nothing is claimed as proved here."""
import re
from vplib import simlib
from vplib.simlib import SimRunner, basic_problems, err_class

MANIFEST = dict(
    category="proof",
    text="Coq theorems on the protocol model M-Sys (coq/theories/sys/Proto.v), for every oracle: failure_local (a process-level error changes only the failed process and the processes that have it in `awaiting`; run queue and parked sets untouched), the error reaches an awaiter unchanged on every hop (check_completed_processes -> Environment -> Worker::notify_result; an awaiter registered after the failure is registered and answered in the same step; a failure of a process that is no longer awaited leaves the former awaiter untouched), Worker::handle_command fails only on a client's ResumeProcess/GetResult misuse and Environment::handle_event never fails on routed process ids. step_errs_only (phase 3), for every state, action and oracle, the complete list of ways a step returns Err: Worker.step only when a ResumeProcess/GetResult command (client calls) is among the handled commands — every other Fault of the model's worker step is BadOracle, i.e. an oracle that describes no possible slice; Environment.step only when a queued event names an unrouted process id; client calls and time never. Global invariants over every schedule and oracle (phase 4, per micro-step): step_never_errs — under the single premise pid_honest_run (a boolean on the schedule: the Send/Await action of every Worker::step's oracle names process ids below next_process_id) no run from init ever fails with an environment error (invariant: every queued event incl. the awaiter of an AwaitAction, the awaiter of every queued QueryAndAwait and every awaiter in awaiters_for_target is routed); step_faults_only_bad_oracle — if in addition the client never calls resume_process, every Fault of the model is BadOracle, i.e. neither Worker::step nor Environment::step returns Err (request_result never fails), and when the client does resume, honestly (resume_honest_run: at the call the process is sleeping on its worker or its StartProcess(sleeping) is queued there and no ResumeProcess for it is queued), likewise (step_faults_only_bad_oracle_resume; a sleeping process stays sleeping under every worker operation but its own resume); errors_originate (no premise) — every error anywhere in a reachable state (process results, awaiting values, ProcessResults/ResultResponse events, UpdateAwaitResults commands, pending_awaits) is the error some time slice of the schedule finished with, hence (single_failure_same_error) when all failing slices fail with the same error every failed process on every worker has exactly that error; with several distinct failures an awaiter keeps the last one written (schedule-dependent), which is why the per-awaiter statement of DESIGN is not an invariant. The same statements are checked on the real code by schedule exploration (failing member at 8 kinds of site incl. out-of-domain builtin calls at boundary magnitudes, a stale failure reaching a former awaiter that is spawning, awaiters before/during/after, no panic / Err from Worker::step and Environment::step). The model is tied to the code by replaying qv_sim traces through the extracted model with the state compared after every scheduler action. During the replay the extracted boolean forms of the oracle premises of the global theorems (pid_honest, await_honest, park_honest, time_honest, resume_honest; sys/ProtoPremises.v) are evaluated on every action of every real trace; a violated premise is a correspondence-broken violation (evidence key premise_checks; a synthetic Send to an unallocated pid is the negative control).",
    design_ref="§4, §5 C15",
    note="Trusted: Coq kernel, extraction (ExtrOcamlBasic), OCaml driver, the simulator and its backend (harness/src/bin/qv_sim), the trace-to-oracle conversion (vplib/simlib.py), the schedule abstraction of DESIGN §4. Debug build (debug assertions are outcomes). Effects/resources and the heap are outside M-Sys (C14, C06).",
    technique="Coq proof on a protocol model + model/code correspondence by trace replay + schedule exploration of the real runtime with implementation-level oracles",
)


def judge(tp, s):
    out = [(p.split(" ")[0], p) for p in basic_problems(s)]
    if s.ok and not out and "check" in tp:
        return [("containment", p) for p in tp["check"](s)]
    if not s.ok or tp["name"] != "failing_member":
        return out
    if out:
        return out
    fst, fres = s.procs.get(tp["f_path"], ("missing", "-"))
    e = err_class(fres)
    if fst != "failed" or e is None:
        out.append(("containment", "the failing member %s is %s %s, expected failed" % (tp["f_path"], fst, simlib.unparse(fres))))
        return out
    for p in tp["aw_paths"]:
        st, r = s.procs.get(p, ("missing", "-"))
        if st != "failed" or err_class(r) != e:
            out.append(("awaiter", "awaiter %s of the failed process is %s %s, expected failed with %s" % (p, st, simlib.unparse(r), simlib.unparse(fres))))
    for p, (st_want, r_want) in tp["by_paths"].items():
        st, r = s.procs.get(p, ("missing", "-"))
        if st != st_want or r != r_want:
            out.append(("bystander", "non-awaiter %s is %s %s, expected %s %s" % (p, st, simlib.unparse(r), st_want, simlib.unparse(r_want))))
    if s.result != [tp["main_result"]]:
        out.append(("bystander", "main result %s, expected %s" % (simlib.unparse(s.result), simlib.unparse(tp["main_result"]))))
    return out


def route(tp, kind, s):
    """NARROW match for F9 (recorded for C06; here "F9c15"): a double await of one process with a binary result, the debug panic at
    the refcount check on process completion, and the leak visible to check_refcounts."""
    if simlib.f71_shape(s):
        return "F71c15"
    double = tp["name"] == "double_await" or re.search(r"!(\w+)( =\w+)?, !\1\b", str(tp["src"]))
    if double and "0x" in str(tp["src"]) and s.ok and kind in ("panic", "hang", "refcounts"):
        if all("executor.rs:1287" in p for p in s.panics) and s.panics:
            return "F9c15"
        if kind == "refcounts" and all("reachable=false" in simlib.unparse(f) for f in s.oracle_failures("refcounts")):
            return "F9c15"
    return None


def opts_for(tp, rng):
    return "(effects async)" if rng.random() < 0.3 else ""


def run(ctx):
    ctx.level = "proof"
    exe = ctx.harness("qv_sim")
    if not exe:
        return
    runner = SimRunner(ctx, exe)
    if getattr(ctx, "replay_path", None):
        def kinds_of(obj, s):
            kinds = [k for k, _ in judge(dict(name="replay"), s)]
            if not kinds and obj.get("what") in ("awaiter", "bystander", "containment") and "(err StackUnderflow" in s.line:
                kinds.append(obj["what"])
            return kinds
        simlib.replay(ctx, runner, kinds_of)
        return
    nscen = ctx.n(200, 600)
    nsched = ctx.n(50, 150)
    scenarios = []
    sites = simlib.FAIL_SITES
    whens = ["before", "during", "after"]
    k = 0
    while len(scenarios) < nscen:
        if len(scenarios) % 10 == 9:
            scenarios.append(simlib.t_double_await(ctx.rng))
        elif len(scenarios) % 10 == 4:
            scenarios.append(simlib.t_stale_failure_then_spawn(ctx.rng))
        else:
            scenarios.append(simlib.t_failing_member(ctx.rng, site=sites[k % len(sites)], when=whens[(k // len(sites)) % 3]))
            k += 1
    ok, drv = simlib.proof_layer(ctx)
    res, meta, failures = simlib.explore(ctx, runner, scenarios, nsched, judge, route=route, opts_for=opts_for)
    if drv:
        # effects are outside M-Sys: replay the scenarios without effect sites
        idx = [i for i in range(len(meta)) if meta[i][2] != "corpus" and "__test_" not in str(scenarios[meta[i][0]]["src"])]
        step = max(1, len(idx) // ctx.n(36, 600))
        # besides the stride: more runs of the template with tick schedules, and the timed-select corpus traces of
        # C04 (corpus/sim_c04.txt, (template timed_select)) for the premise checks
        timed = [i for i in idx if scenarios[meta[i][0]]["name"] == "stale_failure_then_spawn"]
        pick = sorted(set(idx[::step] + timed[::max(1, len(timed) // ctx.n(12, 150))]))
        sample = [simlib.case_line(scenarios[meta[i][0]]["src"], meta[i][1][0], meta[i][1][1], meta[i][2] if meta[i][2] != "fair" else "")
                  for i in pick] + [l for l in simlib.corpus_lines("sim_c04.txt") if "(template timed_select)" in l]
        simlib.correspondence(ctx, exe, drv, sample, lambda s: basic_problems(s))
    if not ok:
        simlib.theorem_broken(ctx, sum(len(v) for k, v in failures.items() if k[2] is None))
