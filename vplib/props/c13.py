"""C13 — equality is structural and construction-independent; refs are unique.

theorem layer : coq/theories/props/C13.v  (model Equal.v: values_equal, compute_canonical, handle_equal
                + the Not/JumpIf verdict of a pin, create_ref / a system of minting executors)
correspondence: (a) random value pairs over random tuple/constant/heap tables -> real
                    `Executor::verif_values_equal` + real `compute_canonical_tuples` (harness qv_equal)
                    vs the extracted model vs erase-equality vs structural equality computed here;
                    every case is evaluated again after an appending `update_program`
                (a') Equal(n) through real bytecode vs the model's handle_equal
                (b) real programs (qv_eval, and qv_equal --run W: real Environment + W real Workers):
                    two values built along different construction paths compared with pins /
                    repeated binders / literal patterns; expected verdict = structural equality
                (c) refs minted on executors with different worker ids (direct hook) and by real
                    programs whose processes are placed on 1..3 workers: all distinct, = model
impl oracle   : a real verdict that differs from structural equality on well-formed values, or two
                equal refs from distinct mintings, is a violation on its own (replay = the case)."""
import hashlib, json, os, re
from vplib import sexpr

MANIFEST = dict(
    category="proof",
    text="Coq theorems on a line-by-line model of executor.rs values_equal / canonical_tuple / handle_equal, compatibility.rs compute_canonical_tuples and create_ref: canonical ids coincide exactly for tuple ids with equal name and field labels; values_equal is true exactly when the two values erase to the same structure (ints, bytes, ref, (name, labels, fields), (function index, captures), builtin id, process id, resource id), hence reflexive, symmetric, transitive, independent of representation (constant vs heap binary, tuple ids of the same shape) and stable under appending program updates; a pin / repeated binder (Equal(2); Not; JumpIf) matches exactly when values_equal holds; create_ref is injective on (worker_id < 2^16, counter < 2^48) and a system of executors with distinct worker ids never mints a ref twice. Validated, not proved: that the model is the code (differential execution of the extracted model against the real functions and against real programs along different construction paths, on 1-3 workers).",
    design_ref="§5 C13",
    note="Reading of 'functions compare by identity of definition': the code compares function-table indices (Program::register_function dedups structurally identical definitions) and captured values. The 2^48 mint bound per executor is a hypothesis the code does not enforce (2.8e14 mints on one worker; recorded as a bound, not a finding). Trusted: Coq kernel, extraction (ExtrOcamlBasic), OCaml driver, Rust harness (incl. its in-memory Environment/Worker runner), Python generators.",
    technique="Coq proof (model of values_equal/compute_canonical_tuples/create_ref) + model/code correspondence by differential execution + end-to-end structural-equality oracle on real programs",
)

OK_LINE = "(ok (t Ok ()))"
NIL_LINE = "(ok (t - ()))"


# ----------------------------------------------------------------------------------------------
# (a) direct cases
# ----------------------------------------------------------------------------------------------
NAMES = [None, "A", "B", "Cons", "Nil", "Str", "P"]
LABELS = [None, "x", "y", "z"]
BOUNDARY_INTS = [0, 1, -1, 2, 255, 256, 2**31, 2**32, 2**63 - 1, 2**63, 2**64 - 1, 2**64, 2**64 + 1, -2**63, -2**64, 10**30]
IDS = [0, 1, 2, 3, 7, 2**32, 2**63]  # function / builtin / process / resource ids


def gen_bytes(rng, n):
    if rng.random() < 0.2:
        return bytes([rng.choice([0, 0xff, 0x80, 0x01])] * n)
    return bytes(rng.getrandbits(8) for _ in range(n))


def rope_expr(rng, content, depth=0):
    """A rope expression (real BinaryData constructors in the harness) denoting exactly `content`."""
    n = len(content)
    k = rng.random()
    if n == 0:
        return rng.choice(["(own)", "(zero 0)", "(slice (own 0102) 1 0)", "(tile (own 01) 0)"])
    if depth > 3 or k < 0.3:
        return "(own %s)" % content.hex()
    if k < 0.55 and n >= 2:
        c = rng.randint(1, n - 1)
        return "(cat %s %s)" % (rope_expr(rng, content[:c], depth + 1), rope_expr(rng, content[c:], depth + 1))
    if k < 0.75:
        pre, post = gen_bytes(rng, rng.randint(0, 3)), gen_bytes(rng, rng.randint(0, 3))
        if pre or post:
            return "(slice %s %d %d)" % (rope_expr(rng, pre + content + post, depth + 1), len(pre), n)
    if all(b == 0 for b in content):
        return "(zero %d)" % n
    for p in (1, 2, 3):
        if n % p == 0 and n // p >= 2 and content == content[:p] * (n // p):
            return "(tile %s %d)" % (rope_expr(rng, content[:p], depth + 1), n // p)
    return "(own %s)" % content.hex()


def near_misses(rng, sh):
    name, labels = sh
    out = [(rng.choice([n for n in NAMES if n != name]), labels), (None if name else "A", labels)]
    if labels:
        i = rng.randrange(len(labels))
        out.append((name, labels[:i] + (rng.choice([l for l in LABELS if l != labels[i]]),) + labels[i + 1:]))
        out.append((name, labels[:-1]))
        out.append((name, tuple(reversed(labels))))
    out.append((name, labels + (rng.choice(LABELS),)))
    return out


class Tables:
    def __init__(self, rng):
        self.rng = rng
        base = [(rng.choice(NAMES), tuple(rng.choice(LABELS) for _ in range(rng.choice([0, 1, 1, 2, 2, 3]))))
                for _ in range(rng.randint(2, 4))]
        pool = list(base)
        for sh in base:
            pool += rng.sample(near_misses(rng, sh), 2)
        self.pool = pool
        self.tuples = [(None, ()), ("Ok", ())] + [rng.choice(pool) for _ in range(rng.randint(3, 12))]
        self.consts = []
        self.heap = []
        # a few integer constants so that (bc k) can point at a non-binary constant
        for _ in range(rng.randint(0, 2)):
            self.consts.append(("i", rng.choice(BOUNDARY_INTS)))

    def shapes(self):
        return sorted(set(self.tuples), key=repr)

    def ids_of(self, sh):
        return [i for i, s in enumerate(self.tuples) if s == sh]

    def bin_ref(self, content):
        rng = self.rng
        if rng.random() < 0.5:
            have = [i for i, c in enumerate(self.consts) if c == ("b", content)]
            if have and rng.random() < 0.6:
                return "(bc %d)" % rng.choice(have)
            self.consts.append(("b", content))
            return "(bc %d)" % (len(self.consts) - 1)
        have = [i for i, (c, _) in enumerate(self.heap) if c == content]
        if have and rng.random() < 0.4:
            return "(bh %d)" % rng.choice(have)
        self.heap.append((content, rope_expr(rng, content)))
        return "(bh %d)" % (len(self.heap) - 1)

    @staticmethod
    def fmt_consts(cs):
        return " ".join("(i %d)" % c[1] if c[0] == "i" else "(b x%s)" % c[1].hex() for c in cs)

    @staticmethod
    def fmt_heap(hs):
        return " ".join("(h x%s %s)" % (c.hex(), r) for c, r in hs)

    @staticmethod
    def fmt_tuples(ts):
        return " ".join("(tup %s (%s))" % (n or "-", " ".join(l or "-" for l in ls)) for n, ls in ts)

    def render(self):
        return "(consts %s) (heap %s) (tuples %s)" % (self.fmt_consts(self.consts), self.fmt_heap(self.heap), self.fmt_tuples(self.tuples))


def gen_value(rng, T, depth):
    k = rng.random()
    if depth <= 0:
        k *= 0.55
    if k < 0.2:
        return ("i", rng.choice(BOUNDARY_INTS) if rng.random() < 0.4 else rng.randint(-5, 5))
    if k < 0.4:
        return ("b", gen_bytes(rng, rng.choice([0, 0, 1, 2, 3, 4, 8, 9])))
    if k < 0.45:
        return ("r", rng.choice([0, 1, 2**48, 2**48 + 1, 2**64 - 1, 3 << 48]))
    if k < 0.48:
        return ("bi", rng.choice(IDS))
    if k < 0.52:
        return ("p", rng.choice(IDS))
    if k < 0.55:
        return ("res", rng.choice(IDS))
    if k < 0.65:
        return ("f", rng.choice(IDS), tuple(gen_value(rng, T, depth - 1) for _ in range(rng.choice([0, 1, 2]))))
    name, labels = rng.choice(T.shapes())
    n = len(labels) if rng.random() < 0.93 else rng.randint(0, 3)
    return ("t", name, labels, tuple(gen_value(rng, T, depth - 1) for _ in range(n)))


def mutate(rng, T, v):
    """A value differing from v at one (random, preferably deep) position."""
    kind = v[0]
    if kind == "i":
        return ("i", v[1] + rng.choice([1, -1]))
    if kind == "b":
        b = v[1]
        if not b or rng.random() < 0.3:
            return ("b", b + bytes([rng.getrandbits(8)]))
        if rng.random() < 0.2:
            return ("b", b[:-1])
        i = rng.randrange(len(b))
        return ("b", b[:i] + bytes([b[i] ^ (1 << rng.randrange(8))]) + b[i + 1:])
    if kind == "r":
        return ("r", v[1] - 1 if v[1] >= 2**64 - 1 else v[1] + 1)
    if kind in ("bi", "p", "res"):
        return (kind, v[1] + 1)
    if kind == "f":
        if v[2] and rng.random() < 0.7:
            i = rng.randrange(len(v[2]))
            return ("f", v[1], v[2][:i] + (mutate(rng, T, v[2][i]),) + v[2][i + 1:])
        if v[2] and rng.random() < 0.3:
            return ("f", v[1], v[2][:-1])
        return ("f", v[1] + 1, v[2])
    name, labels, fs = v[1], v[2], v[3]
    if fs and rng.random() < 0.85:
        i = rng.randrange(len(fs))
        return ("t", name, labels, fs[:i] + (mutate(rng, T, fs[i]),) + fs[i + 1:])
    others = [s for s in T.shapes() if s != (name, labels)]
    same_arity = [s for s in others if len(s[1]) == len(labels)]
    if rng.random() < 0.15 and fs:
        return ("t", name, labels, fs[:-1])
    if not others:
        return ("i", 0)
    n2, l2 = rng.choice(same_arity or others)
    return ("t", n2, l2, fs)


def realize(rng, T, v):
    kind = v[0]
    if kind == "i":
        return "(i %d)" % v[1]
    if kind == "b":
        return T.bin_ref(v[1])
    if kind == "r":
        return "(r %d)" % v[1]
    if kind == "bi":
        return "(bi %d)" % v[1]
    if kind == "p":
        return "(p %d %d)" % (v[1], rng.choice(IDS))      # the function index only types the handle
    if kind == "res":
        return "(res %d %d)" % (v[1], rng.choice(IDS))
    if kind == "f":
        return "(f %d%s)" % (v[1], "".join(" " + realize(rng, T, c) for c in v[2]))
    if kind == "raw":
        return v[1]
    return "(t %d%s)" % (rng.choice(T.ids_of((v[1], v[2]))), "".join(" " + realize(rng, T, f) for f in v[3]))


def diff_depth(a, b):
    """Depth of the shallowest position where a and b differ (None when equal)."""
    if a == b:
        return None
    if a[0] != b[0]:
        return 0
    if a[0] == "t":
        if (a[1], a[2]) != (b[1], b[2]) or len(a[3]) != len(b[3]):
            return 0
        return 1 + min(d for d in (diff_depth(x, y) for x, y in zip(a[3], b[3])) if d is not None)
    if a[0] == "f":
        if a[1] != b[1] or len(a[2]) != len(b[2]):
            return 0
        return 1 + min(d for d in (diff_depth(x, y) for x, y in zip(a[2], b[2])) if d is not None)
    return 0


def kinds_of(v, acc):
    acc[v[0]] = acc.get(v[0], 0) + 1
    for c in (v[3] if v[0] == "t" else v[2] if v[0] == "f" else ()):
        kinds_of(c, acc)


def corrupt(rng, T, s):
    """Make one id in a realized value ill-formed (out of range / not a binary constant)."""
    ints = [i for i, c in enumerate(T.consts) if c[0] == "i"]
    choices = []
    for m in re.finditer(r"\((bc|bh|t) (\d+)", s):
        choices.append(m)
    if not choices:
        return "(t %d)" % (len(T.tuples) + rng.randint(0, 3))
    m = rng.choice(choices)
    if m.group(1) == "bc":
        new = rng.choice(ints) if ints and rng.random() < 0.5 else len(T.consts) + rng.randint(0, 2)
    elif m.group(1) == "bh":
        new = len(T.heap) + rng.randint(0, 2)
    else:
        new = len(T.tuples) + rng.randint(0, 3)
    return s[:m.start(2)] + str(new) + s[m.end(2):]


def gen_direct(rng):
    """-> (case line, meta dict)"""
    T = Tables(rng)
    mode = rng.random()
    v = gen_value(rng, T, rng.choice([1, 2, 2, 3, 4]) if mode < 0.4 or mode >= 0.8 else rng.choice([2, 3, 4, 5]))
    if mode < 0.4:
        w, m = v, "same-structure"
    elif mode < 0.8:
        w, m = mutate(rng, T, v), "mutated"
    else:
        w, m = gen_value(rng, T, rng.choice([0, 1, 2, 3])), "independent"
    sv, sw = realize(rng, T, v), realize(rng, T, w)
    wf = True
    if rng.random() < 0.06:
        wf = False
        if rng.random() < 0.5:
            sv = corrupt(rng, T, sv)
        else:
            sw = corrupt(rng, T, sw)
        if rng.random() < 0.3:     # the same ill-formed value on both sides
            sw = sv
    # the appending update
    ext_consts = [("b", gen_bytes(rng, rng.randint(0, 3))) for _ in range(rng.choice([0, 0, 1, 2]))]
    ext_heap = []
    for _ in range(rng.choice([0, 0, 1])):
        c = gen_bytes(rng, rng.randint(0, 4))
        ext_heap.append((c, rope_expr(rng, c)))
    ext_tuples = [rng.choice(T.pool + T.tuples) for _ in range(rng.choice([0, 1, 2, 4]))]
    line = "(eq %s (ext (consts %s) (heap %s) (tuples %s)) %s %s)" % (
        T.render(), T.fmt_consts(ext_consts), T.fmt_heap(ext_heap), T.fmt_tuples(ext_tuples), sv, sw)
    expect = (v == w) if wf else None
    dd = diff_depth(v, w)
    nontrivial = wf and ((v == w and sv != sw) or (dd is not None and dd >= 2))
    return line, dict(mode=m, wf=wf, expect=expect, nontrivial=nontrivial, v=v, w=w, diff_depth=dd,
                      repr_differs=(sv != sw))


def expected_canon(tuples):
    first = {}
    return [first.setdefault(sh, i) for i, sh in enumerate(tuples)]


def parse_tuples_of_case(line):
    """(full tuple table, table after ext) of an `eq` case line, as shape lists."""
    s = sexpr.parse(line)
    def tl(items):
        for it in items:
            if isinstance(it, list) and it and it[0] == "tuples":
                return [(None if t[1] == "-" else t[1], tuple(None if l == "-" else l for l in t[2])) for t in it[1:]]
        return []
    base = tl(s[1:])
    ext = [it for it in s[1:] if isinstance(it, list) and it and it[0] == "ext"]
    return base, base + (tl(ext[0][1:]) if ext else [])


# ----------------------------------------------------------------------------------------------
# (a') Equal(n) through bytecode
# ----------------------------------------------------------------------------------------------
def gen_equal_case(rng):
    T = Tables(rng)
    T.consts = [c for c in T.consts if c[0] == "b"]

    def val(depth):
        k = rng.random()
        if depth <= 0 or k < 0.35:
            return ("i", rng.randint(0, 3))
        if k < 0.55:
            return ("b", gen_bytes(rng, rng.choice([0, 1, 2])))
        name, labels = rng.choice(T.shapes())
        return ("t", name, labels, tuple(val(depth - 1) for _ in range(len(labels))))

    def real(v):
        if v[0] == "i":
            return "(i %d)" % v[1]
        if v[0] == "b":
            have = [i for i, c in enumerate(T.consts) if c == ("b", v[1])]
            if have and rng.random() < 0.5:
                return "(bc %d)" % rng.choice(have)
            T.consts.append(("b", v[1]))
            return "(bc %d)" % (len(T.consts) - 1)
        return "(t %d%s)" % (rng.choice(T.ids_of((v[1], v[2]))), "".join(" " + real(f) for f in v[3]))

    def mut(v):
        # arity-preserving: Tuple(tid) pops exactly the table arity
        if v[0] == "i":
            return ("i", v[1] + 1)
        if v[0] == "b":
            return ("b", v[1] + b"\x01")
        if v[3] and rng.random() < 0.7:
            i = rng.randrange(len(v[3]))
            return ("t", v[1], v[2], v[3][:i] + (mut(v[3][i]),) + v[3][i + 1:])
        same = [s for s in T.shapes() if s != (v[1], v[2]) and len(s[1]) == len(v[2])]
        if same:
            n2, l2 = rng.choice(same)
            return ("t", n2, l2, v[3])
        return ("i", 0)

    n = rng.choice([1, 2, 2, 2, 3, 4])
    first = val(2)
    vals = [first] + [first if rng.random() < 0.6 else (mut(first) if rng.random() < 0.7 else val(2)) for _ in range(n - 1)]
    extra = [val(1) for _ in range(rng.choice([0, 0, 1]))]          # deeper in the stack, not compared
    count = n if rng.random() < 0.92 else n + len(extra) + 1        # sometimes more than the stack holds
    body = " ".join(real(v) for v in extra + vals)
    return "(%s (consts %s) (heap) (tuples %s) %d %s)" % (rng.choice(["equal", "equal-not"]), T.fmt_consts(T.consts), T.fmt_tuples(T.tuples), count, body)


# ----------------------------------------------------------------------------------------------
# (b) programs
# ----------------------------------------------------------------------------------------------
PNAMES = [None, "A", "B", "Cons", "Nil", "P"]
PLABELS = [None, "x", "y"]


def pgen_value(rng, depth):
    k = rng.random()
    if depth <= 0:
        k *= 0.6
    if k < 0.3:
        return ("i", rng.choice([0, 1, 2, 3, 7, -1, -3, 255, 2**64 + 1, -2**63]) if rng.random() < 0.7 else rng.randint(-100, 100))
    if k < 0.55:
        return ("b", gen_bytes(rng, rng.choice([0, 1, 2, 2, 3, 4])))
    if k < 0.6:
        return ("t", "Str", (None,), (("b", bytes(rng.choice(b"abcxyz019") for _ in range(rng.randint(1, 4)))),))
    if k < 0.66:
        return ("t", None, (), ())      # nil
    labels = plabels(rng, rng.choice([0, 1, 1, 2, 2, 3]))
    name = rng.choice(PNAMES)
    return ("t", name, labels, tuple(pgen_value(rng, depth - 1) for _ in labels))


def plabels(rng, n):
    """n field labels; a label may be absent, but named labels are distinct (the compiler rejects duplicates)."""
    out = []
    for _ in range(n):
        l = rng.choice(PLABELS + ["z"])
        out.append(None if l in out else l)
    return tuple(out)


def pmutate(rng, v):
    kind = v[0]
    if kind == "i":
        return ("i", v[1] + rng.choice([1, -1]))
    if kind == "b":
        b = v[1]
        if not b or rng.random() < 0.3:
            return ("b", b + bytes([rng.getrandbits(8)]))
        i = rng.randrange(len(b))
        return ("b", b[:i] + bytes([b[i] ^ (1 << rng.randrange(8))]) + b[i + 1:])
    name, labels, fs = v[1], v[2], v[3]
    if fs and rng.random() < 0.8:
        i = rng.randrange(len(fs))
        return ("t", name, labels, fs[:i] + (pmutate(rng, fs[i]),) + fs[i + 1:])
    k = rng.random()
    if k < 0.4 or not labels:
        return ("t", rng.choice([n for n in PNAMES if n != name and not (n is None and not labels)] or ["A"]), labels, fs)
    i = rng.randrange(len(labels))
    new = rng.choice([l for l in PLABELS + ["z", "w"] if l != labels[i] and (l is None or l not in labels)])
    return ("t", name, labels[:i] + (new,) + labels[i + 1:], fs)


def is_nil(v):
    return v[0] == "t" and v[1] is None and not v[3]


def type_of(v):
    if v[0] == "i":
        return "'int"
    if v[0] == "b":
        return "'bin"
    if is_nil(v):
        return "[]"
    inner = ", ".join((l + ": " if l else "") + type_of(f) for l, f in zip(v[2], v[3]))
    return "%s%s" % (v[1] or "", "[%s]" % inner if v[3] else ("" if v[1] else "[]"))


def lit(v):
    """Literal source text (also valid as a literal pattern)."""
    if v[0] == "i":
        return str(v[1])
    if v[0] == "b":
        return "0x" + v[1].hex()
    if is_nil(v):
        return "[]"
    inner = ", ".join((l + ": " if l else "") + lit(f) for l, f in zip(v[2], v[3]))
    return "%s%s" % (v[1] or "", "[%s]" % inner if v[3] else "")


class ProgGen:
    """Builds a Quiver source in which values are produced along randomly chosen construction paths."""

    def __init__(self, rng, multi, prefix="v"):
        self.rng, self.multi, self.prefix = rng, multi, prefix
        self.pre, self.mods, self.n, self.paths = [], {}, 0, {}
        self.have_idf = False

    def fresh(self, p=None):
        self.n += 1
        return "%s%d" % (p or self.prefix, self.n)

    def used(self, p):
        self.paths[p] = self.paths.get(p, 0) + 1

    def core(self, v, depth):
        rng = self.rng
        if v[0] == "i":
            if rng.random() < 0.4:
                a = rng.randint(-50, 50)
                self.used("computed-int")
                return "[%d, %d] __integer_add__" % (a, v[1] - a)
            self.used("literal")
            return str(v[1])
        if v[0] == "b":
            b = v[1]
            k = rng.random()
            if k < 0.4:
                c = rng.randint(0, len(b))
                self.used("computed-bin")
                return "[0x%s, 0x%s] __binary_concat__" % (b[:c].hex(), b[c:].hex())
            if k < 0.55:
                pre, post = gen_bytes(rng, rng.randint(0, 2)), gen_bytes(rng, rng.randint(0, 2))
                self.used("sliced-bin")
                return "[0x%s, %d, %d] __binary_slice__" % ((pre + b + post).hex(), len(pre), len(pre) + len(b))
            self.used("literal")
            return "0x" + b.hex()
        if is_nil(v):
            self.used("literal")
            return "[]"
        name, labels, fs = v[1], v[2], v[3]
        if name == "Str" and labels == (None,) and len(fs) == 1 and fs[0][0] == "b" and fs[0][1] and all(c in b"abcxyz019" for c in fs[0][1]) and rng.random() < 0.7:
            self.used("string-literal")
            return '"%s"' % fs[0][1].decode()
        k = rng.random()
        if fs and k < 0.3:
            # a generic constructor: the tuple id it builds is instantiated from type variables
            f = self.fresh("mk")
            tv = ["'t%d" % i for i in range(len(fs))]
            body = "%s[%s]" % (name or "", ", ".join((l + ": " if l else "") + "$%d" % i for i, l in enumerate(labels)))
            if len(fs) == 1:
                body = "%s[%s$]" % (name or "", (labels[0] + ": ") if labels[0] else "")
                self.pre.append("%s = #<%s>%s { %s }" % (f, tv[0], tv[0], body))
                self.used("generic-constructor")
                return "%s %s" % (self.build(fs[0], depth + 1, atom=True), f)
            self.pre.append("%s = #<%s>[%s] { %s }" % (f, ", ".join(tv), ", ".join(tv), body))
            self.used("generic-constructor")
            return "[%s] %s" % (", ".join(self.build(x, depth + 1) for x in fs), f)
        if fs and all(labels) and len(set(labels)) == len(labels) and k < 0.5:
            # Spread bases are bound first and built without the union-typed `via-branch` wrapper
            # (spreading a union-typed base drops the tuple name); added fields are bound first too
            # (a callable in a spread field is not called, unlike in a plain tuple).
            base = self.fresh("s")
            if rng.random() < 0.5:
                # spread + add the last field
                self.pre.append("%s = %s" % (base, self.build(("t", name, labels[:-1], fs[:-1]), depth + 1, plain=True)))
                last = self.fresh("x")
                self.pre.append("%s = %s" % (last, self.build(fs[-1], depth + 1)))
                self.used("spread-extend")
                return "%s[..., %s: %s]" % (base, labels[-1], last)
            # spread under another name
            other = rng.choice([n for n in ("Q", "R") if n != name])
            self.pre.append("%s = %s" % (base, self.build(("t", other, labels, fs), depth + 1, plain=True)))
            self.used("spread-rename")
            return "%s[...%s]" % (name or "", base)
        self.used("literal-tuple")
        inner = ", ".join((l + ": " if l else "") + self.build(f, depth + 1) for l, f in zip(labels, fs))
        return "%s%s" % (name or "", "[%s]" % inner if fs else "")

    def build(self, v, depth=0, atom=False, plain=False):
        """An expression evaluating to v (may add prelude statements). `atom`: must be usable as the
        first term of a longer chain without changing meaning (always true for what we emit)."""
        rng = self.rng
        e = self.core(v, depth)
        if depth > 3:
            return e
        k = rng.random()
        if k < 0.12:
            if not self.have_idf:
                self.pre.append("idf = #<'t>'t { $ }")
                self.have_idf = True
            self.used("via-generic-identity")
            return "%s idf" % e
        if k < 0.2:
            self.used("via-field-access")
            return "[%s, 0] .0" % e
        if k < 0.28:
            f = self.fresh("k")
            self.pre.append("%s = #{ %s }" % (f, e))
            self.used("via-function-result")
            return f
        if k < 0.34 and not plain and not is_nil(v):
            # (a nil consequence falls through to the next branch, and a binding of a `T | []` value
            # is typed without the nil -- a typing defect reported separately -- so nil is not built
            # along this path)
            self.used("via-branch")
            return "1 { | =1 => %s | 0 }" % e
        if k < 0.42 and depth <= 1:
            m = self.fresh("m" + self.prefix)
            sub = ProgGen(rng, False, prefix=self.prefix + "m")
            se = sub.core(v, 2)
            self.mods[m] = ", ".join(sub.pre + [se])
            self.mods.update(sub.mods)
            self.used("via-module")
            return "%%%s" % m
        if self.multi and k < 0.52:
            p, r = self.fresh("p"), self.fresh("r")
            self.pre.append("%s = @#{ %s }" % (p, e))
            self.pre.append("!%s =%s" % (p, r))
            self.used("via-process-result")
            return r
        if self.multi and k < 0.62:
            p, r = self.fresh("e"), self.fresh("r")
            self.pre.append("%s = @#{ !#%s }" % (p, "(%s)" % type_of(v) if v[0] == "t" and not is_nil(v) else type_of(v)))
            self.pre.append("%s %s" % (e, p))
            self.pre.append("!%s =%s" % (p, r))
            self.used("via-message")
            return r
        return e


FORMS = ["pin", "repeat", "nested-pin", "labelled-pin", "literal", "branch-pin"]


def gen_program(rng, multi):
    g = ProgGen(rng, multi)
    va = pgen_value(rng, rng.choice([0, 1, 2, 2, 3]))
    mode = rng.random()
    if mode < 0.5:
        vb, m = va, "same-structure"
    elif mode < 0.85:
        vb, m = pmutate(rng, va), "mutated"
    else:
        vb, m = pgen_value(rng, rng.choice([0, 1, 2])), "independent"
    ea = g.build(va)
    g.pre.append("a = %s" % ea)
    form = rng.choice(FORMS)
    if form == "literal":
        g.used("literal-pattern")
        g.pre.append("b = %s" % lit(vb))
        test = "a =%s" % lit(vb)
    else:
        eb = g.build(vb)
        g.pre.append("b = %s" % eb)
        test = {"pin": "b =&a", "repeat": "[a, b] =[x, x]", "nested-pin": "W[a, 7] =W[&b, 7]",
                "labelled-pin": "[k: a] =[k: &b]", "branch-pin": "b { =&a => Ok | [] }"}[form]
    # the program yields both values it actually built and the verdict of the pattern
    src = ", ".join(g.pre + ["[a, b, %s]" % test])
    line = sexpr.quote(src) + "".join(" (mod %s %s)" % (sexpr.quote(k), sexpr.quote(s)) for k, s in sorted(g.mods.items()))
    equal = va == vb
    paths = dict(g.paths)
    nontrivial = (equal and len([p for p in paths if p not in ("literal", "literal-tuple")]) >= 1) or \
                 (not equal and (diff_depth(va, vb) or 0) >= 2)
    return line, dict(mode=m, form=form, paths=paths, nontrivial=nontrivial, multi=multi, va=va, vb=vb,
                      nil_pair=equal and is_nil(va))


def pdump(v):
    """The parsed form of qvh::dump_value's output for an intended value."""
    if v[0] == "i":
        return ["i", str(v[1])]
    if v[0] == "b":
        return ["b", v[1].hex()] if v[1] else ["b"]
    return ["t", v[1] or "-", [l or "-" for l in v[2]]] + [pdump(f) for f in v[3]]


def gen_ref_program(rng):
    """Processes (placed on workers by the real environment) each mint refs; all must be distinct."""
    k = rng.randint(1, 4)       # refs per mint call
    procs = rng.randint(1, 5)
    pre = ["r = &%ref", "mk = #{ [%s] }" % ", ".join("r" for _ in range(k))]
    outs = []
    for i in range(procs):
        pre.append("p%d = @mk" % i)
    for i in range(procs):
        pre.append("!p%d =a%d" % (i, i))
        outs.append("a%d" % i)
    pre.append("c = mk")
    outs.append("c")
    if rng.random() < 0.5:      # a second round on the same processes' workers
        pre.append("q = @mk")
        pre.append("!q =d")
        outs.append("d")
    return sexpr.quote(", ".join(pre + ["[%s]" % ", ".join(outs)])), (procs + len(outs) - procs) * k


# ----------------------------------------------------------------------------------------------
def corpus(name):
    from vplib.common import VERIF
    p = os.path.join(VERIF, "corpus", name)
    if not os.path.exists(p):
        return []
    return [l.rstrip("\n") for l in open(p) if l.strip() and not l.startswith("#")]


def norm_panic(s):
    return re.sub(r'\(panic "[^"]*"\)', "(panic)", s)


def run(ctx):
    ok = ctx.coq_props()
    qe = ctx.harness("qv_equal")
    qv = ctx.harness("qv_eval")
    drv = ctx.driver("equal")
    if not qe or not qv or not drv:
        return
    if getattr(ctx, "replay_path", None):
        return replay(ctx, qe, qv, drv)
    rng = ctx.rng
    disagreements = 0
    evaluations = 0
    samples = []

    # ------------------------------------------------------------------ (a) direct pairs
    n_direct = ctx.n(12000, 1500000)
    cases, metas = [], []
    for line in corpus("c13_direct.txt"):
        cases.append(line)
        metas.append(None)
    for _ in range(n_direct):
        line, meta = gen_direct(rng)
        cases.append(line)
        metas.append(meta)
    _, real = ctx.run_sharded(qe, cases)
    _, model = ctx.run_sharded(drv, cases)
    evaluations += 2 * len(cases)
    kinds, modes, verdicts = {}, {}, {"equal": 0, "unequal": 0}
    nontrivial_hashes = set()
    stats = dict(equal_with_different_representation=0, differ_only_at_depth_ge_2=0, ill_formed=0,
                 canonical_entries_compared=0, stable_under_update_checked=0)
    for c, meta, r, m in zip(cases, metas, real, model):
        rm = re.match(r"\(eq (true|false) (true|false)\) \(canon([ \d]*)\) \(canon2([ \d]*)\)$", r)
        mm = re.match(r"\(eq (true|false) (true|false)\) \(erase (true|false) (true|false)\) \(wf (true|false)\) \(canon([ \d]*)\) \(canon2([ \d]*)\)$", m)
        problem = None
        if not rm or not mm:
            problem = ("correspondence-broken", "unparsable output")
        else:
            wf = mm.group(5) == "true"
            t1, t2 = parse_tuples_of_case(c)
            stats["canonical_entries_compared"] += len(t1) + len(t2)
            if rm.group(3).split() != [str(x) for x in expected_canon(t1)] or rm.group(4).split() != [str(x) for x in expected_canon(t2)]:
                problem = ("impl-violation", "compute_canonical_tuples is not 'lowest id with equal name and labels'")
            elif (rm.group(3), rm.group(4)) != (mm.group(6), mm.group(7)):
                problem = ("correspondence-broken", "canonical table: model differs from compute_canonical_tuples")
            elif (rm.group(1), rm.group(2)) != (mm.group(1), mm.group(2)):
                problem = ("correspondence-broken", "values_equal verdict: model differs from the real code")
            elif wf and (mm.group(1), mm.group(2)) != (mm.group(3), mm.group(4)):
                problem = ("theorem-instance-failed", "values_equal_structural fails on this instance (model verdict != erase equality)")
            elif wf and rm.group(1) != rm.group(2):
                problem = ("impl-violation", "verdict on existing values changed after an appending update_program")
            elif meta and meta["wf"] and meta["expect"] is not None and (rm.group(1) == "true") != meta["expect"]:
                problem = ("impl-violation", "values_equal verdict differs from structural equality")
            if wf:
                stats["stable_under_update_checked"] += 1
            verdicts["equal" if rm.group(1) == "true" else "unequal"] += 1
        if meta:
            kinds_of(meta["v"], kinds)
            kinds_of(meta["w"], kinds)
            modes[meta["mode"]] = modes.get(meta["mode"], 0) + 1
            if not meta["wf"]:
                stats["ill_formed"] += 1
            if meta["nontrivial"]:
                nontrivial_hashes.add(hashlib.sha1(c.encode()).hexdigest())
                if meta["v"] == meta["w"]:
                    stats["equal_with_different_representation"] += 1
                else:
                    stats["differ_only_at_depth_ge_2"] += 1
        if problem:
            disagreements += 1
            if disagreements <= 5:
                kind, what = problem
                ctx.violation({"kind": "impl-violation" if kind == "impl-violation" else "correspondence-broken",
                               "correspondence": "Equal.v values_equal/compute_canonical vs executor.rs values_equal / compatibility.rs compute_canonical_tuples",
                               "what": what, "case": c, "impl": r, "model": m},
                              no_input=(kind != "impl-violation"))
    samples += [{"case": cases[-1], "impl": real[-1], "model": model[-1]}]

    # ------------------------------------------------------------------ (a') Equal(n) through bytecode
    ecases = corpus("c13_equal.txt") + [gen_equal_case(rng) for _ in range(ctx.n(1500, 100000))]
    _, ereal = ctx.run_sharded(qe, ecases)
    _, emodel = ctx.run_sharded(drv, ecases)
    evaluations += 2 * len(ecases)
    equal_outcomes = {}
    for c, r, m in zip(ecases, ereal, emodel):
        key = r.split(" ")[0].strip("()")
        equal_outcomes[key] = equal_outcomes.get(key, 0) + 1
        if norm_panic(r) != m:
            disagreements += 1
            if disagreements <= 5:
                ctx.violation({"kind": "correspondence-broken", "correspondence": "Equal.v handle_equal vs executor.rs handle_equal (Equal(n) run as bytecode)",
                               "case": c, "impl": r, "model": m}, no_input=True)
    samples += [{"case": ecases[-1], "impl": ereal[-1], "model": emodel[-1]}]

    # ------------------------------------------------------------------ (b) programs
    progs, pmetas = [], []
    for line in corpus("c13_programs.txt"):
        exp, src = line.split(" ", 1)
        progs.append(src)
        pmetas.append(dict(expect={"Ok": OK_LINE, "Nil": NIL_LINE}.get(exp, exp), form="corpus", mode="corpus",
                           paths={}, nontrivial=True, multi="@" in src or "__file_open__" in src, corpus=True))
    for _ in range(ctx.n(5000, 500000)):
        line, meta = gen_program(rng, multi=False)
        progs.append(line)
        pmetas.append(meta)
    for _ in range(ctx.n(2500, 200000)):
        line, meta = gen_program(rng, multi=True)
        progs.append(line)
        pmetas.append(meta)
    outs = [None] * len(progs)
    single = [i for i, m in enumerate(pmetas) if not m["multi"]]
    multi = [i for i, m in enumerate(pmetas) if m["multi"]]
    _, o = ctx.run_sharded(qv, [progs[i] for i in single])
    for i, x in zip(single, o):
        outs[i] = [x]
    worker_counts = [1, 2, 3]
    for i in multi:
        outs[i] = []
    for w in worker_counts:
        _, o = ctx.run_sharded(qe, [progs[i] for i in multi], args=["--run", str(w)])
        for i, x in zip(multi, o):
            outs[i].append(x)
    # single-process programs also run on the real environment (2 workers): same verdict expected
    _, o = ctx.run_sharded(qe, [progs[i] for i in single], args=["--run", "2"])
    for i, x in zip(single, o):
        outs[i].append(x)
    pstats = dict(programs=len(progs), executions=0, verdict_ok=0, verdict_nil=0, skipped_compile_error=0,
                  equal_via_different_paths=0, equal_nil_pairs=0, built_value_differs_from_intended=0,
                  non_verdict_outcomes=0)
    forms, paths, pmodes = {}, {}, {}
    prog_nontrivial = set()
    odd_samples = []
    OKV, NILV = ["t", "Ok", []], ["t", "-", []]
    for src, meta, res in zip(progs, pmetas, outs):
        pstats["executions"] += len(res)
        evaluations += len(res)
        forms[meta["form"]] = forms.get(meta["form"], 0) + 1
        pmodes[meta["mode"]] = pmodes.get(meta["mode"], 0) + 1
        for p, k in meta["paths"].items():
            paths[p] = paths.get(p, 0) + k
        if meta.get("corpus"):
            # corpus probes state their expected outcome line
            pstats["verdict_ok" if res[0] == OK_LINE else "verdict_nil"] += 1
            if any(x != meta["expect"] for x in res):
                disagreements += 1
                ctx.violation({"kind": "impl-violation", "what": "corpus probe: pattern verdict differs from structural equality of the two values (regression)",
                               "source": src, "expected": meta["expect"], "impl": res})
            continue
        if any(x.startswith("(compile-error") or x == "(parse-error)" for x in res):
            # the generator produced something the front end rejects: not a verdict; counted
            pstats["skipped_compile_error"] += 1
            continue
        parsed = []
        for x in res:
            try:
                t = sexpr.parse(x)
                assert t[0] == "ok" and t[1][:3] == ["t", "-", ["-", "-", "-"]] and len(t[1]) == 6 and t[1][5] in (OKV, NILV)
                parsed.append(t[1][3:])
            except Exception:
                parsed.append(None)
        if any(q is None for q in parsed):
            # a run-time error / panic / timeout of a generated program is not an equality verdict
            pstats["non_verdict_outcomes"] += 1
            if len(odd_samples) < 5:
                odd_samples.append({"source": src, "impl": res})
            continue
        if meta["nontrivial"]:
            prog_nontrivial.add(hashlib.sha1(src.encode()).hexdigest())
        if meta["nil_pair"]:
            pstats["equal_nil_pairs"] += 1
        a0, b0, v0 = parsed[0]
        pstats["verdict_ok" if v0 == OKV else "verdict_nil"] += 1
        if v0 == OKV and meta["nontrivial"]:
            pstats["equal_via_different_paths"] += 1
        if any((a, b) != (pdump(meta["va"]), pdump(meta["vb"])) for a, b, _ in parsed):
            # the construction path did not build the intended value (e.g. a defect outside equality):
            # the verdict is still judged, against the values actually built
            pstats["built_value_differs_from_intended"] += 1
            if len(odd_samples) < 5:
                odd_samples.append({"source": src, "intended": [repr(meta["va"]), repr(meta["vb"])], "impl": res})
        wrong = [x for x, (a, b, v) in zip(res, parsed) if (v == OKV) != (a == b)]
        if wrong:
            disagreements += 1
            if disagreements <= 8:
                ctx.violation({"kind": "impl-violation", "what": "pattern verdict (3rd component) differs from structural equality of the two values the program built (1st, 2nd component)",
                               "source": src, "impl": res, "form": meta["form"]})
    samples += [{"source": progs[-1], "impl": outs[-1]}]

    # ------------------------------------------------------------------ (c) refs
    rcases = corpus("c13_refs.txt")
    for _ in range(ctx.n(300, 10000)):
        nw = rng.randint(1, 6)
        ws = rng.sample([0, 1, 2, 3, 255, 256, 32767, 32768, 65534, 65535], nw)
        sched = [rng.randrange(nw) for _ in range(rng.choice([1, 5, 40, 200]))]
        rcases.append("(refs (workers %s) (sched %s))" % (" ".join(map(str, ws)), " ".join(map(str, sched))))
    _, rreal = ctx.run_sharded(qe, rcases)
    _, rmodel = ctx.run_sharded(drv, rcases)
    evaluations += 2 * len(rcases)
    refs_minted = 0
    for c, r, m in zip(rcases, rreal, rmodel):
        rs = r.strip("()").split()[1:]
        refs_minted += len(rs)
        if len(set(rs)) != len(rs):
            disagreements += 1
            ctx.violation({"kind": "impl-violation", "what": "two distinct mintings produced the same ref", "case": c, "impl": r})
        elif r != m:
            disagreements += 1
            if disagreements <= 5:
                ctx.violation({"kind": "correspondence-broken", "correspondence": "Equal.v run_mints/create_ref vs executor.rs create_ref",
                               "case": c, "impl": r, "model": m}, no_input=True)
    rprogs = [gen_ref_program(rng) for _ in range(ctx.n(120, 6000))]
    ref_prog_runs = 0
    for w in worker_counts:
        _, o = ctx.run_sharded(qe, [p for p, _ in rprogs], args=["--run", str(w)])
        for (p, n), x in zip(rprogs, o):
            ref_prog_runs += 1
            evaluations += 1
            rs = re.findall(r"\(r (\d+)\)", x)
            refs_minted += len(rs)
            if not x.startswith("(ok") or len(rs) != n or len(set(rs)) != len(rs):
                disagreements += 1
                ctx.violation({"kind": "impl-violation" if x.startswith("(ok") else "correspondence-broken",
                               "what": "refs minted by processes on %d worker(s) are not all distinct (or the program did not run)" % w,
                               "source": p, "workers": w, "impl": x}, no_input=not x.startswith("(ok"))
    samples += [{"case": rcases[-1], "impl": rreal[-1], "model": rmodel[-1]}]

    ctx.cov.update({
        "evaluations": evaluations,
        "distinct_nontrivial": len(nontrivial_hashes) + len(prog_nontrivial),
        "rule": "generators: (a) random tables with several ids per (name, labels) shape and near-miss shapes, values of all 8 variants, binaries as constants and as heap ropes (own/cat/slice/zero/tile), 6% ill-formed ids; (b) int/bin/tuple/string/nil values built by literal, computed, sliced, spread, generic constructor/identity, field access, function result, branch, in-memory module, process result, message; NOT generated: a nil value at the top of a branch bound to a variable (typing defect F27, property C01). direct pair non-trivial = well-formed and (structurally equal but the two representations differ: other tuple ids of the same shape, constant vs heap binary, other rope shape / slot) or (unequal with the shallowest difference at depth >= 2); program non-trivial = equal values of which at least one is built along a non-literal path, or unequal values differing only at depth >= 2; distinct by SHA-1 of the case line / source",
        "samples": samples,
        "traces_validated_against_impl": len(cases) + len(ecases) + len(rcases),
        "disagreements_checked": disagreements,
        "direct_pairs": dict(cases=len(cases), modes=modes, value_kinds=kinds, verdicts=verdicts, **stats),
        "equal_instruction_cases": dict(cases=len(ecases), outcomes=equal_outcomes),
        "programs": dict(pstats, unusual_outcome_samples=odd_samples, forms=forms, construction_paths=paths, modes=pmodes, worker_counts=worker_counts,
                         distinct_nontrivial=len(prog_nontrivial)),
        "refs": dict(direct_cases=len(rcases), program_runs=ref_prog_runs, refs_minted_and_checked_distinct=refs_minted,
                     bound="create_ref is injective only while an executor's counter stays below 2^48 (hypothesis of C13_refs_unique; the code does not check it; 2^48 mints on one worker are out of reach)"),
        "function_identity_reading": "values_equal compares Value::Function by function-table index and captured values; Program::register_function dedups structurally identical definitions",
    })
    if not ok:
        ctx.violation({"kind": "theorem-broken", "theorem": getattr(ctx, "broken_theorem", "?"),
                       "searched": "%d evaluations on the real code, %d disagreements" % (evaluations, disagreements)},
                      no_input=(disagreements == 0))


def replay(ctx, qe, qv, drv):
    obj = json.load(open(ctx.replay_path))
    if "source" in obj:
        src = obj["source"]
        outs = ctx.run_bin(qe, [src], args=["--run", str(obj.get("workers", 2))])[1]
        exp = obj.get("expected")
        print("replay: %s -> %s%s" % (src, outs, " (expected %s)" % exp if exp else ""))
        if exp:
            if any(x != exp for x in outs):
                ctx.violation(dict(obj, impl=outs))
        else:
            # generated program: [a, b, verdict] -- the verdict must be structural equality of a and b
            for x in outs:
                try:
                    t = sexpr.parse(x)[1]
                    a, b, v = t[3], t[4], t[5]
                    if (v == ["t", "Ok", []]) != (a == b):
                        ctx.violation(dict(obj, impl=outs))
                        break
                except Exception:
                    ctx.violation(dict(obj, impl=outs), no_input=True)
                    break
    elif "case" in obj:
        c = obj["case"]
        r = ctx.run_bin(qe, [c])[1]
        m = ctx.run_bin(drv, [c])[1]
        print("replay: %s\n  impl  %s\n  model %s" % (c, r, m))
        rr, mm = norm_panic(r[0]) if r else "", m[0] if m else ""
        if c.startswith("(eq"):
            mm = re.sub(r" \(erase [a-z ]*\) \(wf [a-z]*\)", "", mm)
        if rr != mm:
            ctx.violation(dict(obj, impl=r, model=m), no_input=obj.get("kind") != "impl-violation")
    ctx.cov.update({"evaluations": 1, "distinct_nontrivial": 0, "rule": "replay", "samples": [], "traces_validated_against_impl": 1, "disagreements_checked": len(ctx.violations)})
