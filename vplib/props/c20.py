"""C20 — the num module computes exactly and propagates absence.

theorem layer : coq/theories/props/C20.v over the model coq/theories/Num.v (std/num.qv clause by clause)
correspondence: operand tuples {small, huge (> 2^64), negative, zero, nil} x {integer, rational, surd}
                (plus a share of type-correct but non-canonical operands) for every exported operation,
                run through the REAL `%num` module (harness qv_eval: compile + run Quiver source) and
                through the extracted model; canonical value dumps compared exactly.
impl oracle   : on the real outputs alone, exact arithmetic with fractions.Fraction over Q(sqrt n):
                exact value, canonical form, kind rules, nil propagation, never (err ..)/(panic ..),
                plus algebraic laws evaluated by composing real calls (commutativity, associativity,
                distributivity, x/x = 1, sub/add inverse, order trichotomy/antisymmetry).  A failing
                oracle is an impl-violation with the operands as replay, whatever the model says.
literals      : decimal / fraction literal desugaring (parser.rs reduce_rational) vs Num.lit_reduce.
"""
import hashlib, json, math, os, re
from fractions import Fraction
from vplib import sexpr
from vplib.common import VERIF

MANIFEST = dict(
    category="proof",
    text="Coq theorems (47, coq/theories/props/C20.v) over a clause-by-clause model of std/num.qv in which the integer builtins carry their error outcomes: reduce yields the canonical form (positive denominator, gcd 1) and preserves the value in Q, canonical forms are unique; add/sub/mul/div/neg/abs/numer/denom/compare/sign/eq?..ge?/min/max/clamp on integer and rational operands of any magnitude are exact w.r.t. QArith and keep the documented kind (int op int = int, any rational operand gives a canonical Rational, div always a canonical Rational and nil exactly when the divisor is 0); to_int/floor/ceil/round are exact on rationals (ties away from zero); commutativity, associativity, distributivity, x/x = 1, sub/add and div/mul inverses, totality/antisymmetry/transitivity of the order; nil in => nil out for every exported operation; NO exported operation on nil or well-formed integer/rational/surd operands returns an error (no integer_divide/modulo by 0, no sqrt of a negative, no fuel exhaustion: C20_never_errs); the square-free search terminates within its fuel with n = k^2 m, m square-free, and sqrt is the exact canonical root; surd add/sub/mul/div are exact in Q(sqrt n) (pairs, (a,b)(c,d) = (ac+bdn, ad+bc); division is the ring inverse, the norm of a non-zero element is non-zero by irrationality of sqrt n) with results in canonical build form; different radicals give nil for add/sub/mul/div/compare/predicates; the surd sign equals the squares-comparison function of the values (axiom-free) and that function is the sign of a + b sqrt n in Coq's Reals (2 theorems using the standard Reals axioms). REFUTED for the code as written: min/max/clamp on incompatible radicals return the first operand (known finding F14; the nil-propagating _fixed variants are proved). Validated, not proved: that the model equals the real module (differential execution of every exported operation through the real compiler+VM), literal desugaring, exact-Fraction oracles and algebraic laws on the real outputs; exactness of to_int/floor/ceil/round on SURD operands is only validated (their totality is proved).",
    design_ref="§5 C20",
    note="Trusted: Coq kernel, extraction (ExtrOcamlBasic), OCaml driver, Rust harness qv_eval, Python generators/oracles. The model follows the documented language semantics for blocks/patterns; the compiler itself is not modelled (finding F13 is a compiler defect surfacing through %num).",
    technique="Coq proof on a clause-by-clause model + model/code correspondence by differential execution + exact-arithmetic oracles on the real outputs",
)

UNARY = ["neg", "abs", "sign", "sqrt", "numer", "denom", "to_int", "floor", "ceil", "round"]
BINARY = ["add", "sub", "mul", "div", "min", "max", "eq?", "lt?", "le?", "gt?", "ge?"]
TERNARY = ["clamp"]
ARITY = dict([(o, 1) for o in UNARY] + [(o, 2) for o in BINARY] + [(o, 3) for o in TERNARY])
F13_OPS = {"neg", "abs", "sqrt", "to_int", "floor", "ceil"}
F14_OPS = {"min", "max", "clamp"}
NIL_DUMP = "(t - ())"
SQFREE_CAP = 4000          # max trial-division steps we let %num.sqrt perform (it is O(sqrt n))

SMALL_SQFREE = [2, 3, 5, 6, 7, 10, 11, 13, 14, 15, 17, 19, 21, 22, 23, 26, 29, 30, 31, 33, 34, 35, 37, 38, 39, 41, 42, 43, 46, 47]
# huge square-free radicals: primes (checked by Miller-Rabin below) and products of distinct primes
HUGE_PRIMES = [2**64 + 13, 2**89 - 1, 2**127 - 1, 2**61 - 1]


def is_probable_prime(n):
    if n < 2:
        return False
    for p in (2, 3, 5, 7, 11, 13, 17, 19, 23, 29, 31, 37):
        if n % p == 0:
            return n == p
    d, s = n - 1, 0
    while d % 2 == 0:
        d //= 2; s += 1
    for a in (2, 3, 5, 7, 11, 13, 17, 19, 23, 29, 31, 37):
        x = pow(a, d, n)
        if x in (1, n - 1):
            continue
        for _ in range(s - 1):
            x = x * x % n
            if x == n - 1:
                break
        else:
            return False
    return True


HUGE_SQFREE = [p for p in HUGE_PRIMES if is_probable_prime(p)]
HUGE_SQFREE += [HUGE_SQFREE[0] * 3, HUGE_SQFREE[-1] * 2 * 5]
KNOWN_SQFREE = set(SMALL_SQFREE) | set(HUGE_SQFREE)


def squarefree(n):
    if n in KNOWN_SQFREE:
        return True
    if n < 1 or n > 10**12:
        return False
    d = 2
    while d * d <= n:
        if n % (d * d) == 0:
            return False
        d += 1
    return True


# ------------------------------------------------------------------ operands
# None | ('i', n) | ('r', n, d) | ('s', coeff, coeff, n)

def gen_mag(rng, cls):
    """a positive magnitude of the given class"""
    if cls == "small":
        return rng.randint(1, 60) if rng.random() < 0.8 else rng.randint(61, 10**6)
    r = rng.random()
    if r < 0.3:
        return rng.choice([2**64, 2**64 + 1, 2**64 - 1, 2**63, 2**128, 10**30, 2**127 - 1, 2**96 + 7]) + rng.choice([0, 0, 1, 2])
    if r < 0.6:
        return 2**64 + rng.getrandbits(rng.choice([10, 64, 70, 130]))
    # smooth huge numbers (also the ones %num.sqrt can factor quickly)
    return 2**rng.randint(30, 70) * 3**rng.randint(0, 30) * 5**rng.randint(0, 12) * rng.choice([1, 1, 7, 11, 13]) + (2**65 if rng.random() < 0.1 else 0)


def gen_int_z(rng, cls):
    if cls == "zero":
        return 0
    if cls == "negative":
        return -gen_mag(rng, "huge" if rng.random() < 0.35 else "small")
    return gen_mag(rng, cls)


def gen_coeff(rng, kind, cls):
    """canonical int or rational of the class"""
    if kind == "int":
        return ("i", gen_int_z(rng, cls))
    if cls == "zero":
        return ("r", 0, 1)
    n = gen_int_z(rng, cls)
    r = rng.random()
    if r < 0.15:
        d = 1
    elif cls == "huge" and r < 0.6:
        d = gen_mag(rng, "huge")
    else:
        d = rng.randint(2, 40) if rng.random() < 0.8 else gen_mag(rng, "small")
    if cls == "huge" and rng.random() < 0.3:
        n = rng.randint(1, 50)
        d = gen_mag(rng, "huge")
    g = math.gcd(n, d)
    return ("r", n // g, d // g)


def lower(c):
    return ("i", c[1]) if c[0] == "r" and c[2] == 1 else c


def gen_surd(rng, cls, radical):
    acls = cls if rng.random() < 0.6 else rng.choice(["small", "negative", "zero", "huge"])
    bcls = cls if cls != "zero" else rng.choice(["small", "negative"])
    a = lower(gen_coeff(rng, rng.choice(["int", "rat"]), acls))
    b = lower(gen_coeff(rng, rng.choice(["int", "rat"]), bcls))
    return ("s", a, b, radical)


def gen_illformed(rng):
    """type-correct but non-canonical operands: model/code correspondence only (no oracle)."""
    r = rng.random()
    if r < 0.35:
        n = rng.choice([0, 1, -1, 2, 4, 6, -6, 10, 2**65, -2**66])
        d = rng.choice([0, -1, -2, 2, 4, 6, -4, 1, 2**65, -2**65])
        return ("r", n, d)
    a = rng.choice([("i", 0), ("i", 1), ("i", -3), ("r", 2, 1), ("r", 2, 4), ("r", 1, -2), ("r", 1, 2)])
    b = rng.choice([("i", 0), ("i", 1), ("i", -1), ("r", 4, 2), ("r", -1, 3), ("r", 0, 1), ("r", 3, -6)])
    n = rng.choice([0, 1, 4, 8, 9, 12, -2, -1, 2, 3, 18])
    return ("s", a, b, n)


CLASSES = ["small", "huge", "negative", "zero", "nil"]
KINDS = ["int", "rat", "surd"]


def gen_operand(rng, radical, hist, pos):
    cls = rng.choices(CLASSES, weights=[30, 27, 20, 11, 12])[0]
    if cls == "nil":
        hist["%s:nil" % pos] = hist.get("%s:nil" % pos, 0) + 1
        return None
    if rng.random() < 0.07:
        hist["%s:illformed" % pos] = hist.get("%s:illformed" % pos, 0) + 1
        return gen_illformed(rng)
    kind = rng.choices(KINDS, weights=[30, 35, 35])[0]
    if kind == "surd" and cls == "zero":
        cls_key = "zero-a"      # a surd is never zero; "zero" means its rational part is 0
    else:
        cls_key = cls
    key = "%s:%s/%s" % (pos, kind, cls_key)
    hist[key] = hist.get(key, 0) + 1
    if kind == "surd":
        if cls == "zero":
            s = gen_surd(rng, "small", radical)
            return ("s", ("i", 0), s[2], s[3])
        return gen_surd(rng, cls, radical)
    return gen_coeff(rng, kind, cls)


def gen_tuple(rng, hist):
    base = rng.choice(SMALL_SQFREE[:8]) if rng.random() < 0.7 else rng.choice(SMALL_SQFREE + HUGE_SQFREE)
    ops = []
    for pos in "xyz":
        rad = base if rng.random() < 0.8 else rng.choice(SMALL_SQFREE[:6] + HUGE_SQFREE[:2])
        ops.append(gen_operand(rng, rad, hist, pos))
    return ops


def gen_sqrt_operand(rng):
    """operands whose square-free factorisation %num.sqrt finds quickly: smooth numbers, perfect
    squares (small and huge), small numbers, and rationals of those"""
    def smooth():
        r = rng.random()
        if r < 0.3:
            return rng.randint(0, 3000)
        if r < 0.5:
            k = rng.choice([rng.randint(1, 2000), 2**rng.randint(20, 50), 2**33 * 3**20 + 0])
            return k * k * rng.choice([1, 1, 2, 3, 5, 6, 7, 30])
        return 2**rng.randint(0, 90) * 3**rng.randint(0, 40) * 5**rng.randint(0, 10) * rng.choice([1, 1, 7, 11, 13, 101])
    if rng.random() < 0.5:
        z = smooth()
        return ("i", -z if rng.random() < 0.1 else z)
    n, d = smooth(), max(1, smooth() if rng.random() < 0.7 else rng.randint(1, 50))
    g = math.gcd(n, d)
    if rng.random() < 0.1:
        n = -n
    return ("r", n // g, d // g)


# ------------------------------------------------------------------ syntax conversions

def model_arg(o):
    if o is None:
        return "nil"
    if o[0] == "i":
        return "(i %d)" % o[1]
    if o[0] == "r":
        return "(r %d %d)" % (o[1], o[2])
    return "(s %s %s %d)" % (model_arg(o[1]), model_arg(o[2]), o[3])


def qv_arg(o):
    if o is None:
        return "[]"
    if o[0] == "i":
        return "%d" % o[1]
    if o[0] == "r":
        return "Rational[%d, %d]" % (o[1], o[2])
    return "Surd[%s, %s, %d]" % (qv_arg(o[1]), qv_arg(o[2]), o[3])


def dump_arg(o):
    """the harness' value dump of an operand (what min/max/clamp return)"""
    if o is None:
        return NIL_DUMP
    if o == "Ok":
        return "(t Ok ())"
    if o[0] == "i":
        return "(i %d)" % o[1]
    if o[0] == "r":
        return "(t Rational (- -) (i %d) (i %d))" % (o[1], o[2])
    return "(t Surd (- - -) %s %s (i %d))" % (dump_arg(o[1]), dump_arg(o[2]), o[3])


def case_line(op, args):
    return "(%s %s)" % (op, " ".join(model_arg(a) for a in args))


def parse_case(line):
    s = sexpr.parse(line)
    def conv(x):
        if x == "nil":
            return None
        if x[0] == "i":
            return ("i", int(x[1]))
        if x[0] == "r":
            return ("r", int(x[1]), int(x[2]))
        return ("s", conv(x[1]), conv(x[2]), int(x[3]))
    return s[0], [conv(a) for a in s[1:]]


def qv_call(op, args):
    if len(args) == 1:
        return "%s %%num.%s" % (qv_arg(args[0]), op)
    return "[%s] %%num.%s" % (", ".join(qv_arg(a) for a in args), op)


def ser(x):
    return x if isinstance(x, str) else "(" + " ".join(ser(i) for i in x) + ")"


def value_of_dump(s):
    """parsed value dump -> operand repr | 'Ok' | ('?', text)"""
    try:
        if s[0] == "i":
            return ("i", int(s[1]))
        if s[0] == "t" and s[1] == "-" and len(s) == 3 and s[2] == []:
            return None
        if s[0] == "t" and s[1] == "Ok" and len(s) == 3:
            return "Ok"
        if s[0] == "t" and s[1] == "Rational" and len(s) == 5:
            return ("r", int(s[3][1]), int(s[4][1]))
        if s[0] == "t" and s[1] == "Surd" and len(s) == 6:
            return ("s", value_of_dump(s[3]), value_of_dump(s[4]), int(s[5][1]))
    except Exception:
        pass
    return ("?", ser(s))


# ------------------------------------------------------------------ exact arithmetic (oracle side)

def wf_coeff(c):
    return c is not None and (c[0] == "i" or (c[0] == "r" and c[2] > 0 and math.gcd(c[1], c[2]) == 1))


def wf(o):
    """well-formed number of the module's documentation (canonical rational; surd with lowered
    canonical coefficients, b != 0, square-free n > 1)"""
    if o is None:
        return True
    if o[0] in "ir":
        return wf_coeff(o)
    if o[0] == "s":
        a, b, n = o[1], o[2], o[3]
        return (wf_coeff(a) and wf_coeff(b) and lower(a) == a and lower(b) == b and cval(b) != 0
                and n > 1 and squarefree(n))
    return False


def cval(c):
    return Fraction(c[1]) if c[0] == "i" else Fraction(c[1], c[2])


def fval(o):
    """(a, b, n): the value a + b sqrt n"""
    if o[0] == "s":
        return (cval(o[1]), cval(o[2]), o[3])
    return (cval(o), Fraction(0), 1)


def coeff_of(fr, keep_rational=False):
    if fr.denominator == 1 and not keep_rational:
        return ("i", fr.numerator)
    return ("r", fr.numerator, fr.denominator)


def build(a, b, n):
    if b == 0:
        return coeff_of(a)
    return ("s", coeff_of(a), coeff_of(b), n)


def shared(x, y):
    """radical shared by two values, 0 when incompatible"""
    if x[1] == 0:
        return y[2]
    if y[1] == 0:
        return x[2]
    return x[2] if x[2] == y[2] else 0


def sgn_fr(f):
    return (f > 0) - (f < 0)


def fsign(a, b, n):
    """sign of a + b sqrt n (n not a perfect square when b != 0), by integer square roots"""
    if b == 0:
        return sgn_fr(a)
    D = a.denominator * b.denominator
    P = a.numerator * b.denominator
    Q = b.numerator * a.denominator
    s = math.isqrt(Q * Q * n)             # sqrt(Q^2 n) lies strictly between s and s+1
    lo = P + s if Q > 0 else P - s - 1    # floor(P + Q sqrt n)
    return 1 if lo >= 0 else -1


def ffloor(a, b, n):
    if b == 0:
        return math.floor(a)
    D = a.denominator * b.denominator
    P = a.numerator * b.denominator
    Q = b.numerator * a.denominator
    s = math.isqrt(Q * Q * n)
    lo = P + s if Q > 0 else P - s - 1
    return lo // D


def fcompare(x, y):
    n = shared(x, y)
    if n == 0:
        return None
    return fsign(x[0] - y[0], x[1] - y[1], n)


def involved_radicals(args):
    return {a[3] for a in args if a is not None and a[0] == "s"}


def sqfree_steps(n, cap):
    """number of clause evaluations of num.qv's sqfree on [1, n, 2], or None beyond cap"""
    k, m, d, steps = 1, n, 2, 0
    while True:
        steps += 1
        if steps > cap:
            return None
        if d * d > m:
            return steps
        if m % (d * d) == 0:
            k, m = k * d, m // (d * d)
        else:
            d += 1


def sqrt_safe(o):
    if o is None or o[0] == "s":
        return True
    n, d = (o[1], 1) if o[0] == "i" else (o[1], o[2])
    if n <= 0 or d <= 0:
        return True
    return sqfree_steps(n * d, SQFREE_CAP) is not None


def expect(op, args):
    """Set of acceptable result dumps demanded by the property for well-formed operands, or a
    predicate (callable on the parsed result).  All computed with Fractions, independent of the model."""
    if any(a is None for a in args):
        return {NIL_DUMP}
    v = [fval(a) for a in args]
    x = v[0]
    surd_in = any(a[0] == "s" for a in args)
    if op in ("add", "sub", "mul", "div"):
        y = v[1]
        if not surd_in:
            if op == "div":
                return {NIL_DUMP} if y[0] == 0 else {dump_arg(coeff_of(x[0] / y[0], True))}
            r = {"add": x[0] + y[0], "sub": x[0] - y[0], "mul": x[0] * y[0]}[op]
            both_int = args[0][0] == "i" and args[1][0] == "i"
            return {dump_arg(coeff_of(r, not both_int))}
        n = shared(x, y)
        if n == 0:
            return {NIL_DUMP}
        if op == "add":
            return {dump_arg(build(x[0] + y[0], x[1] + y[1], n))}
        if op == "sub":
            return {dump_arg(build(x[0] - y[0], x[1] - y[1], n))}
        if op == "mul":
            return {dump_arg(build(x[0] * y[0] + x[1] * y[1] * n, x[0] * y[1] + x[1] * y[0], n))}
        norm = y[0] * y[0] - y[1] * y[1] * n
        if norm == 0:
            return {NIL_DUMP}
        return {dump_arg(build((x[0] * y[0] - x[1] * y[1] * n) / norm, (x[1] * y[0] - x[0] * y[1]) / norm, n))}
    if op == "neg":
        if args[0][0] == "i":
            return {dump_arg(("i", -args[0][1]))}
        if args[0][0] == "r":
            return {dump_arg(("r", -args[0][1], args[0][2]))}
        return {dump_arg(build(-x[0], -x[1], x[2]))}
    if op == "abs":
        s = fsign(*x)
        if s >= 0:
            return {dump_arg(args[0])}
        return expect("neg", args)
    if op == "sign":
        return {dump_arg(("i", fsign(*x)))}
    if op in ("eq?", "lt?", "le?", "gt?", "ge?"):
        c = fcompare(v[0], v[1])
        if c is None:
            return {NIL_DUMP}
        ok = {"eq?": c == 0, "lt?": c < 0, "le?": c <= 0, "gt?": c > 0, "ge?": c >= 0}[op]
        return {dump_arg("Ok")} if ok else {NIL_DUMP}
    if op in ("min", "max"):
        c = fcompare(v[0], v[1])
        if c is None:
            return {NIL_DUMP}
        if op == "min":
            return {dump_arg(args[1] if c == 1 else args[0])}
        return {dump_arg(args[1] if c == -1 else args[0])}
    if op == "clamp":
        c1 = fcompare(v[0], v[1])
        c2 = fcompare(v[0], v[2])
        mixed = len(involved_radicals(args)) > 1
        acc = set()
        if mixed:
            acc.add(NIL_DUMP)     # "mixing incompatible radicals yields nil"
        if c1 is None:
            return acc or {NIL_DUMP}
        if c1 == -1:
            acc.add(dump_arg(args[1]))      # decided without the second comparison
            return acc
        if c2 is None:
            return acc or {NIL_DUMP}
        acc.add(dump_arg(args[2] if c2 == 1 else args[0]))
        return acc
    if op in ("to_int", "floor", "ceil", "round"):
        fl = ffloor(*x)
        integral = x[1] == 0 and x[0].denominator == 1
        ce = fl if integral else fl + 1
        if op == "floor":
            r = fl
        elif op == "ceil":
            r = ce
        elif op == "to_int":
            r = fl if fsign(*x) >= 0 else ce
        else:
            # nearest, halves away from zero
            if x[1] == 0:
                a = abs(x[0])
                r = sgn_fr(x[0]) * math.floor(a + Fraction(1, 2))
            else:
                r = ffloor(x[0] + Fraction(1, 2), x[1], x[2])
        return {dump_arg(("i", r))}
    if op in ("numer", "denom"):
        if args[0][0] == "s":
            return {NIL_DUMP}
        if args[0][0] == "i":
            return {dump_arg(("i", args[0][1] if op == "numer" else 1))}
        return {dump_arg(("i", args[0][1] if op == "numer" else args[0][2]))}
    if op == "sqrt":
        if args[0][0] == "s" or x[0] < 0:
            return {NIL_DUMP}
        if x[0] == 0:
            return {dump_arg(("i", 0))}
        target = x[0]

        def check(res):
            if res is None or res == "Ok" or res[0] == "?" or not wf(res):
                return False
            r = fval(res)
            if res[0] == "s":
                return r[0] == 0 and r[1] > 0 and r[1] * r[1] * r[2] == target
            return res == lower(res) and r[0] > 0 and r[0] * r[0] == target
        return check
    raise KeyError(op)


# ------------------------------------------------------------------ running both sides

def split_batch_output(line, n):
    """(ok (t - (- ...) v1 .. vn)) -> ['(ok v1)', ...] or None"""
    if not line.startswith("(ok "):
        return None
    try:
        s = sexpr.parse(line)
    except Exception:
        return None
    t = s[1]
    if not (isinstance(t, list) and len(t) == n + 3 and t[0] == "t" and t[1] == "-"):
        return None
    return ["(ok %s)" % ser(v) for v in t[3:]]


def run_impl(ctx, qe, cases, model_out, batch=24):
    """Evaluate every case on the real module.  Cases the model expects to succeed are batched into
    one program (a tuple of calls); expected failures and the F13 class run alone; a batch that does
    not yield a tuple of the right size is re-run case by case."""
    progs, slots = [], []        # slots[i] = (program index, position in batch or None)
    cur = []
    def flush():
        nonlocal cur
        if cur:
            progs.append(sexpr.quote("[" + ", ".join(qv_call(*parse_case(cases[i])) for i in cur) + "]"))
            for k, i in enumerate(cur):
                slots[i] = (len(progs) - 1, k, len(cur))
            cur = []
    slots = [None] * len(cases)
    for i, c in enumerate(cases):
        op, args = parse_case(c)
        alone = (not model_out[i].startswith("(ok")) or (op in F13_OPS and args[0] is None)
        if alone:
            progs.append(sexpr.quote(qv_call(op, args)))
            slots[i] = (len(progs) - 1, None, 1)
        else:
            cur.append(i)
            if len(cur) >= batch:
                flush()
    flush()
    rc, out = ctx.run_sharded(qe, progs, timeout=1500)
    res = [None] * len(cases)
    retry = []
    for i, (p, k, n) in enumerate(slots):
        if k is None:
            res[i] = out[p]
        else:
            parts = split_batch_output(out[p], n)
            if parts is None:
                retry.append(i)
            else:
                res[i] = parts[k]
    if retry:
        progs2 = [sexpr.quote(qv_call(*parse_case(cases[i]))) for i in retry]
        rc, out2 = ctx.run_sharded(qe, progs2, timeout=1500)
        for i, o in zip(retry, out2):
            res[i] = o
    return res, len(progs) + len(retry)


def canon_impl(line):
    return re.sub(r'\(panic "[^"]*"\)', "(panic)", line)


def classify_tuple(args):
    huge = any(abs(z) > 2**64 for z in ints_of(args))
    return huge or any(a is None for a in args) or any(a is not None and a[0] == "s" for a in args)


def ints_of(args):
    out = []
    for a in args:
        if a is None:
            continue
        if a[0] == "i":
            out.append(a[1])
        elif a[0] == "r":
            out += [a[1], a[2]]
        else:
            out += ints_of([a[1], a[2]]) + [a[3]]
    return out


# ------------------------------------------------------------------ algebraic laws on the real module

def law_programs(args):
    """Quiver expressions composing real %num calls; each entry (name, source, checker(list of parsed
    values) -> bool).  Only for well-formed non-nil operands."""
    X, Y, Z = (qv_arg(a) for a in args)
    def c(op, a, b):
        return "[%s, %s] %%num.%s" % (a, b, op)
    exprs = [
        ("add-comm", [c("add", X, Y), c("add", Y, X)]),
        ("mul-comm", [c("mul", X, Y), c("mul", Y, X)]),
        ("add-assoc", [c("add", c("add", X, Y), Z), c("add", X, c("add", Y, Z))]),
        ("mul-assoc", [c("mul", c("mul", X, Y), Z), c("mul", X, c("mul", Y, Z))]),
        ("distrib", [c("mul", X, c("add", Y, Z)), c("add", c("mul", X, Y), c("mul", X, Z))]),
        ("sub-add", [c("add", c("sub", X, Y), Y), X]),
        ("div-self", [c("div", X, X)]),
        ("div-mul", [c("mul", c("div", X, Y), Y), X]),
        ("trichotomy", [c("lt?", X, Y), c("eq?", X, Y), c("gt?", X, Y), c("le?", X, Y), c("ge?", X, Y)]),
        ("antisym", ["%s %%num.sign" % c("sub", X, Y), "%s %%num.sign" % c("sub", Y, X), c("lt?", X, Y), c("gt?", Y, X)]),
        ("trans", [c("le?", X, Y), c("le?", Y, Z), c("le?", X, Z)]),
    ]
    return exprs


def same_value(a, b):
    """two parsed real results denote the same number (or are both nil)"""
    if a is None or b is None:
        return a is None and b is None
    if a == "Ok" or b == "Ok" or a[0] == "?" or b[0] == "?":
        return a == b
    x, y = fval(a), fval(b)
    if x[1] == 0 and y[1] == 0:
        return x[0] == y[0]
    return x == y


def check_law(name, vals, args):
    """vals: parsed real results.  Returns None when the law holds, else a message."""
    rads = involved_radicals(args)
    v = [fval(a) for a in args]
    if any(isinstance(r, tuple) and r[0] == "?" for r in vals):
        return "unparsable result"
    for r in vals:
        if r is not None and r != "Ok" and not wf(r):
            return "non-canonical result %r" % (r,)
    if name in ("add-comm", "mul-comm", "add-assoc", "mul-assoc", "distrib"):
        if not same_value(vals[0], vals[1]):
            # with mixed radicals one association may cancel a radical before the clash; only a
            # nil/non-nil difference is then acceptable
            if len(rads) > 1 and (vals[0] is None or vals[1] is None):
                return None
            return "sides differ"
        if len(rads) <= 1 and vals[0] is None:
            return "nil on a single-radical tuple"
        return None
    if name == "sub-add":
        if len(rads) > 1:
            return None
        return None if same_value(vals[0], vals[1]) else "(x-y)+y != x"
    if name == "div-self":
        if fsign(*v[0]) == 0:
            return None if vals[0] is None else "0/0 is not nil"
        if vals[0] is None or vals[0] == "Ok" or fval(vals[0]) != (Fraction(1), Fraction(0), 1):
            return "x/x != 1"
        if args[0][0] != "s" and vals[0] != ("r", 1, 1):
            return "x/x of rationals is not Rational[1, 1]"
        return None
    if name == "div-mul":
        if len(rads) > 1:
            return None
        if fsign(*v[1]) == 0:
            return None if vals[0] is None else "x/0*0 is not nil"
        return None if same_value(vals[0], vals[1]) else "(x/y)*y != x"
    if name == "trichotomy":
        lt, eq, gt, le, ge = [r == "Ok" for r in vals]
        if shared(v[0], v[1]) == 0:
            return None if not (lt or eq or gt or le or ge) else "predicate true on incomparable radicals"
        if [lt, eq, gt].count(True) != 1:
            return "not exactly one of lt/eq/gt"
        if le != (lt or eq) or ge != (gt or eq):
            return "le/ge inconsistent"
        return None
    if name == "antisym":
        if shared(v[0], v[1]) == 0:
            return None
        if vals[0] is None or vals[1] is None or vals[0][0] != "i" or vals[0][1] != -vals[1][1]:
            return "sign(x-y) != -sign(y-x)"
        if (vals[2] == "Ok") != (vals[3] == "Ok") or (vals[2] == "Ok") != (vals[0][1] == -1):
            return "lt?(x,y) / gt?(y,x) / sign(x-y) inconsistent"
        return None
    if name == "trans":
        if vals[0] == "Ok" and vals[1] == "Ok" and shared(v[0], v[2]) != 0 and vals[2] != "Ok":
            return "x<=y, y<=z but not x<=z"
        return None
    return None


# ------------------------------------------------------------------ literals

def gen_literal(rng):
    """(source text, N, D) of a decimal or fraction literal as decimal_parts/fraction_parts build it"""
    neg = rng.random() < 0.35
    r = rng.random()
    def digits(k, lead_zero_ok=True):
        s = "".join(rng.choice("0123456789") for _ in range(k))
        return s
    if r < 0.5:
        ip = digits(rng.choice([1, 1, 2, 3, 20, 25]))
        fp = digits(rng.choice([1, 1, 2, 2, 3, 5, 22])) if rng.random() < 0.8 else "0" * rng.randint(1, 4) + rng.choice(["", "5", "50", "25"])
        if fp == "":
            fp = "0"
        text = ("-" if neg else "") + ip + "." + fp
        n = int(ip + fp)
        return text, (-n if neg else n), 10 ** len(fp)
    num = digits(rng.choice([1, 1, 2, 3, 21]))
    den = digits(rng.choice([1, 1, 2, 3, 21]))
    if int(den) == 0:
        den = "7"
    if rng.random() < 0.3:      # integer-valued and common-factor cases
        k = rng.randint(1, 12)
        den = str(rng.randint(1, 30))
        num = str(int(den) * k * rng.choice([1, 1, 2, 2**64 + 1]))
    text = ("-" if neg else "") + num + "/" + den
    n = int(num)
    return text, (-n if neg else n), int(den)


# ------------------------------------------------------------------ the check

def corpus_lines(name):
    p = os.path.join(VERIF, "corpus", name)
    if not os.path.exists(p):
        return []
    return [l.strip() for l in open(p) if l.strip() and not l.startswith("#")]


def run(ctx):
    ok = ctx.coq_props()
    qe = ctx.harness("qv_eval")
    drv = ctx.driver("num")
    if not qe or not drv:
        return
    rng = ctx.rng
    state = dict(viol=0, f13=0, f14=0)

    reported = set()

    def report(obj, finding_key=None, no_input=False):
        sig = json.dumps(obj, sort_keys=True, default=str)
        if sig in reported:
            return
        reported.add(sig)
        state["viol"] += 1
        if finding_key == "F13":
            state["f13"] += 1
        if finding_key == "F14":
            state["f14"] += 1
        if state["viol"] - state["f13"] - state["f14"] <= 8 or finding_key:
            ctx.violation(obj, no_input=no_input, finding_key=finding_key)

    # --- model-coverage guard: the record exported by the real module vs the modelled operations
    fields_src = "%num"
    _, out = ctx.run_bin(qe, [sexpr.quote(fields_src)])
    exported = []
    try:
        s = sexpr.parse(out[0])
        exported = list(s[1][2])
    except Exception:
        pass
    _, names = ctx.run_bin(drv, [], args=["--names"])
    modelled = set(names)
    ctx.cov["exported_operations"] = exported
    ctx.cov["exported_unmodelled"] = sorted(set(exported) - modelled)
    if exported and set(exported) - modelled:
        report({"kind": "correspondence-broken", "correspondence": "Num.v exported record vs %num",
                "unmodelled_operations": sorted(set(exported) - modelled)}, no_input=True)

    # --- which min/max/clamp does the real module implement (F14 fixed or not)?
    probe = ['"[Surd[0, 1, 2], Surd[0, 1, 3]] %num.min"', '"[Surd[0, 1, 2], Surd[0, 1, 3]] %num.max"',
             '"[Surd[0, 1, 2], 1, Surd[0, 1, 3]] %num.clamp"']
    _, pout = ctx.run_bin(qe, probe)
    fixed_variant = all(o == "(ok %s)" % NIL_DUMP for o in pout)
    ctx.cov["minmax_variant"] = "fixed (nil on incomparable radicals)" if fixed_variant else "as coded (F14: first operand on incomparable radicals)"

    # --- cases
    cases, origin = [], []
    hist_operand, hist_op = {}, {}
    if getattr(ctx, "replay_path", None):
        obj = json.load(open(ctx.replay_path))
        cases = [obj["case"]] if "case" in obj else []
        origin = ["replay"] * len(cases)
        tuples = []
    else:
        for l in corpus_lines("c20_cases.txt"):
            cases.append(l); origin.append("corpus")
        ntuples = ctx.n(3000, 36000)
        tuples = [gen_tuple(rng, hist_operand) for _ in range(ntuples)]
        for t in tuples:
            for op in UNARY:
                for a in (t[0], t[1]) if op not in ("sqrt",) else ():
                    cases.append(case_line(op, [a])); origin.append("gen")
                if op == "sqrt":
                    for a in (t[0], t[1]):
                        if sqrt_safe(a):
                            cases.append(case_line(op, [a])); origin.append("gen")
            for op in BINARY:
                cases.append(case_line(op, t[:2])); origin.append("gen")
            # a second pairing so that z takes part in binary operations too
            op2 = rng.choice(BINARY)
            cases.append(case_line(op2, [t[2], t[0]])); origin.append("gen")
            cases.append(case_line("clamp", t)); origin.append("gen")
        for _ in range(ctx.n(2000, 24000)):
            a = gen_sqrt_operand(rng)
            if sqrt_safe(a):
                cases.append(case_line("sqrt", [a])); origin.append("gen-sqrt")

    # model side (min/max/clamp under the variant the real module implements)
    def model_line(c):
        if fixed_variant:
            return re.sub(r"^\((min|max|clamp) ", r"(\1_fixed ", c)
        return c
    _, model = ctx.run_sharded(drv, [model_line(c) for c in cases])
    impl, nprogs = run_impl(ctx, qe, cases, model)

    seen, nontrivial, disagreements, oracle_checked, oracle_failed = set(), 0, 0, 0, 0
    agree, known_cases = 0, {"F13": 0, "F14": 0}
    res_hist = {"nil": 0, "int": 0, "rational": 0, "surd": 0, "Ok": 0, "err": 0}
    samples = []
    for i, c in enumerate(cases):
        op, args = parse_case(c)
        hist_op[op] = hist_op.get(op, 0) + 1
        h = hashlib.sha1(c.encode()).hexdigest()
        if h not in seen:
            seen.add(h)
            if classify_tuple(args):
                nontrivial += 1
        got = canon_impl(impl[i] or "(missing-output)")
        well = all(wf(a) for a in args)
        parsed = None
        if got.startswith("(ok "):
            parsed = value_of_dump(sexpr.parse(got)[1])
            k = "nil" if parsed is None else "Ok" if parsed == "Ok" else {"i": "int", "r": "rational", "s": "surd"}.get(parsed[0], "err")
            res_hist[k] += 1
        else:
            res_hist["err"] += 1
        if len(samples) < 6 and origin[i] == "gen" and i % 97 == 0:
            samples.append({"case": c, "source": qv_call(op, args), "impl": got, "model": model[i]})
        # ---- F13: narrow match
        # (same compiler defect: in `denom`, nil passes the last clause `='int => 1`)
        f13 = args[0] is None and ((op in F13_OPS and got == "(err TypeMismatch)") or (op == "denom" and got == "(ok (i 1))"))
        # ---- impl-level oracle (well-formed operands only)
        oracle_bad = None
        if well:
            oracle_checked += 1
            if not got.startswith("(ok "):
                oracle_bad = "runtime error / panic on well-formed operands: %s" % got
            else:
                exp = expect(op, args)
                if callable(exp):
                    if not exp(parsed):
                        oracle_bad = "sqrt result is not the exact canonical square root"
                elif isinstance(parsed, tuple) and parsed[0] == "?":
                    oracle_bad = "unrecognised value"
                elif dump_arg(parsed) not in exp:
                    oracle_bad = "expected %s" % sorted(exp)
                if oracle_bad is None and parsed is not None and parsed != "Ok" and not wf(parsed):
                    oracle_bad = "non-canonical result"
        if got == model[i]:
            agree += 1
        if oracle_bad:
            oracle_failed += 1
            key = None
            if f13:
                key = "F13"
            elif op in F14_OPS and len(involved_radicals(args)) > 1 and got.startswith("(ok ") and parsed is not None:
                key = "F14"
            if key:
                known_cases[key] += 1
            report({"kind": "impl-violation", "oracle": "exact Fraction arithmetic over Q(sqrt n): " + oracle_bad,
                    "case": c, "source": qv_call(op, args), "impl": got, "model": model[i]}, finding_key=key)
            continue
        # ---- model vs code
        if got != model[i]:
            if f13:
                report({"kind": "impl-violation", "case": c, "source": qv_call(op, args), "impl": got, "model": model[i]}, finding_key="F13")
                continue
            if fixed_variant and op == "clamp" and len(involved_radicals(args)) > 1 and got == "(ok %s)" % NIL_DUMP:
                continue        # an eager fix of F14 is as acceptable as the lazy `clamp_fixed`
            disagreements += 1
            report({"kind": "correspondence-broken", "correspondence": "Num.v %s vs %%num.%s" % (op, op),
                    "case": c, "source": qv_call(op, args), "impl": got, "model": model[i],
                    "well_formed_operands": well}, no_input=True)

    # --- algebraic laws on the real module (composition of real calls), well-formed non-nil tuples
    law_src, law_meta = [], []
    nlaw = ctx.n(1000, 8000)
    for t in tuples:
        if len(law_meta) >= nlaw * 11:
            break
        if any(a is None for a in t) or not all(wf(a) for a in t):
            continue
        groups = law_programs(t)
        flat = [e for _, es in groups for e in es]
        law_src.append(sexpr.quote("[" + ", ".join(flat) + "]"))
        law_meta.append((t, groups, len(flat)))
    law_evals, law_fail, law_hist = 0, 0, {}
    if law_src:
        _, lout = ctx.run_sharded(qe, law_src, timeout=1500)
        for (t, groups, n), line, src in zip(law_meta, lout, law_src):
            parts = split_batch_output(canon_impl(line), n)
            if parts is None:
                law_fail += 1
                report({"kind": "impl-violation", "oracle": "law program did not evaluate to a tuple (runtime error on well-formed operands)",
                        "operands": [model_arg(a) for a in t], "source": sexpr.parse(src), "impl": line})
                continue
            vals = [value_of_dump(sexpr.parse(p)[1]) for p in parts]
            pos = 0
            for name, es in groups:
                vs = vals[pos:pos + len(es)]
                pos += len(es)
                law_evals += 1
                law_hist[name] = law_hist.get(name, 0) + 1
                msg = check_law(name, vs, t)
                if msg:
                    law_fail += 1
                    report({"kind": "impl-violation", "oracle": "algebraic law %s: %s" % (name, msg),
                            "operands": [model_arg(a) for a in t], "source": "[" + ", ".join(es) + "]",
                            "impl": [dump_arg(v) if not (isinstance(v, tuple) and v and v[0] == "?") else v[1] for v in vs]})

    # --- literal desugaring: parser.rs reduce_rational vs Num.lit_reduce vs Fraction
    lits = [("1.50", 150, 100), ("6/4", 6, 4), ("-3/9", -3, 9), ("4/2", 4, 2), ("0.0", 0, 10), ("-0.0", 0, 10),
            ("0/5", 0, 5), ("1.0", 10, 10), ("-9/3", -9, 3), ("0.30", 30, 100), ("18446744073709551617/3", 2**64 + 1, 3)]
    lits += [gen_literal(rng) for _ in range(ctx.n(1000, 15000))]
    lit_src = []
    for k in range(0, len(lits), 20):
        chunk = lits[k:k + 20]
        lit_src.append(sexpr.quote("[" + ", ".join(t for t, _, _ in chunk) + "]"))
    _, lit_out = ctx.run_sharded(qe, lit_src)
    _, lit_model = ctx.run_sharded(drv, ["(lit %d %d)" % (n, d) for _, n, d in lits])
    lit_bad = 0
    for k, line in zip(range(0, len(lits), 20), lit_out):
        chunk = lits[k:k + 20]
        parts = split_batch_output(line, len(chunk))
        for j, (text, n, d) in enumerate(chunk):
            got = parts[j] if parts else line
            fr = Fraction(n, d)
            want = "(ok %s)" % dump_arg(("r", fr.numerator, fr.denominator))
            if got != want:
                lit_bad += 1
                report({"kind": "impl-violation", "oracle": "literal %s must desugar to the canonical Rational %s" % (text, want),
                        "source": text, "impl": got, "model": lit_model[k + j]})
            elif lit_model[k + j] != got:
                lit_bad += 1
                report({"kind": "correspondence-broken", "correspondence": "Num.lit_reduce vs parser.rs reduce_rational",
                        "source": text, "impl": got, "model": lit_model[k + j]}, no_input=True)

    ctx.cov.update({
        "evaluations": len(cases) + law_evals + len(lits),
        "operation_evaluations": len(cases),
        "operand_tuples": len(tuples),
        "distinct_nontrivial": nontrivial,
        "rule": "operand tuples (x, y, z) drawn per position from {small, huge > 2^64, negative, zero, nil} x {integer, canonical rational, single-radical surd (radical shared with prob. 0.8; small and > 2^64 square-free radicals)} plus 7% type-correct non-canonical operands (model/code comparison only); every exported operation is applied to each tuple; non-trivial = some operand is nil, a surd, or contains an integer beyond 2^64; distinct by SHA-1 of the case line",
        "samples": samples,
        "programs_run_on_real_module": nprogs + len(law_src) + len(lit_src) + 4,
        "traces_validated_against_impl": agree,
        "disagreements_checked": disagreements,
        "oracle_checked_on_real_outputs": oracle_checked,
        "oracle_failures_total": oracle_failed,
        "oracle_failures_matching_known_findings": dict(known_cases),
        "oracle_failures_unexplained": oracle_failed - known_cases["F13"] - known_cases["F14"],
        "law_evaluations": law_evals, "law_failures": law_fail, "per_law": law_hist,
        "literal_cases": len(lits), "literal_failures": lit_bad,
        "per_operation_cases": hist_op,
        "operand_class_histogram": dict(sorted(hist_operand.items())),
        "real_result_kinds": res_hist,
        "known_finding_distinct_cases": {"F13": state["f13"], "F14": state["f14"]},
    })
    if not ok:
        ctx.violation({"kind": "theorem-broken", "theorem": getattr(ctx, "broken_theorem", "?"),
                       "searched": "%d differential cases, %d law evaluations on the real module: %d disagreements, %d oracle failures"
                                   % (len(cases), law_evals, disagreements, oracle_failed)},
                      no_input=(disagreements == 0 and oracle_failed - known_cases["F13"] - known_cases["F14"] <= 0))
