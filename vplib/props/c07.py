"""C07 — every function the compiler emits is well-formed bytecode.

theorem layer : coq/theories/props/C07.v (verifier soundness: any program `check_program`
                accepts never reaches a structural fault on any execution; each frame leaves one value)
translation validation : the EXTRACTED verifier runs on every function the real compiler emits for
                the standard library, every source string of the test suite, the spec's examples,
                and generated programs — as compiled, after tree-shaking, and as found in a running
                environment after merging behind earlier programs
correspondence: value-level lock-step (H7): the extracted vm/Vm.v `step` reproduces every state of real
                single-instruction executions (stack, locals, frames, values, final value, error class);
                hook H6 traces of real executions vs the verifier's annotation (stack height above
                the frame base and locals count at every executed instruction), which ties the
                model's stack/locals/frame discipline (vm/Vm.v) to executor.rs
search        : a rejected function is run on the real VM (the trace outcome): a structural runtime
                error there is the failing input; otherwise `no-failing-input-found`."""
import hashlib, re
from vplib import sexpr, testsrc

MANIFEST = dict(
    category="proof",
    text="Coq theorem wf_sound: any program accepted by the (extracted) bytecode verifier is safe on every execution of every function with every argument and every outside input — no stack/frame underflow, no undefined local/constant/function/builtin/tuple, no jump out of the function, one consistent height at each join, exactly one result per frame. The verifier then runs on every function the real compiler emits (std, all test-suite sources, spec examples, generated programs), as compiled, tree-shaken and merged (translation validation), and its annotation is compared with instruction-level traces of real executions; the machine model itself (vm/Vm.v `step`) is run in lock step with the real executor, one instruction at a time, on the same programs: every intermediate state (operand stack, locals, frames, all values), the final value and the error class must agree.",
    design_ref="§5 C07",
    note="Trusted: Coq kernel; extraction (ExtrOcamlBasic) and the OCaml driver; the dump of Bytecode by the Rust harness; vm/Vm.v is a hand-written model of executor.rs's stack/locals/frame discipline, tied to the code by the value-level lock-step run (quantum-1 hook; builtin results, IsType/Equal verdicts, pids and select results are outside inputs taken from the real run; the comparison stops at Spawn/Select) and by the H6 trace comparison. 'For every program the compiler accepts' is decided per program: proof for the verifier, translation validation for the compiler.",
    technique="Coq-verified bytecode verifier (soundness proof) + translation validation of compiler output + lock-step model/code correspondence of the VM model + trace correspondence",
)

STRUCTURAL = ("StackUnderflow", "FrameUnderflow", "VariableUndefined", "ConstantUndefined", "FunctionUndefined",
              "BuiltinUndefined", "ScopeUnderflow", "ScopeCountInvalid")
IO_BUILTINS = re.compile(r"__(file|tcp|dns|directory|filesystem)_")


def generated_sources(ctx, base, n):
    """Mutations of corpus programs: wrap in a function and call it, put in a block, sequence two
    programs, wrap as a tuple field — new nesting contexts for the same constructs."""
    out = []
    rng = ctx.rng
    pool = [s for _, s in base if "\n" not in s.strip() and len(s) < 200 and "%" not in s]
    for _ in range(n):
        a = rng.choice(pool)
        kind = rng.randrange(6)
        if kind == 0:
            out.append(("gen:fn", "f = #{ %s }, [] f" % a))
        elif kind == 1:
            out.append(("gen:block", "{ %s }" % a))
        elif kind == 2:
            out.append(("gen:seq", "%s, %s" % (a, rng.choice(pool))))
        elif kind == 3:
            out.append(("gen:field", "[{ %s }, 1]" % a))
        elif kind == 4:
            out.append(("gen:branch", "1 { | =0 => 2 | { %s } }" % a))
        else:
            out.append(("gen:nested-fn", "g = #{ f = #{ %s }, [] f }, [] g" % a))
    return out


def process_sources(ctx, n):
    """Concurrent program shapes (spawn / send / select with several receive types / await):
    their functions carry receive types, process types and closures that the sequential corpus
    hardly has; they matter for tree-shaking and merging."""
    out = []
    rng = ctx.rng
    try:
        from vplib import simlib
        tmpl = [getattr(simlib, t) for t in dir(simlib) if t.startswith("t_") and t != "t_resource_handoff"]
    except Exception:
        tmpl = []
    for i in range(n):
        k = rng.randrange(5)
        if k == 4:
            # a nilary loop driven by messages: the received value flows into the self tail call
            msgs = rng.sample(["Tick", "Tock", "Add", "Nop"], rng.randint(1, 2))
            arms = " ".join("| =%s[_] => ^" % m if rng.random() < 0.5 else "| =%s[x] => x ^" % m for m in msgs)
            decl = " | ".join("%s['int]" % m for m in msgs)
            out.append(("gen:proc-nilary-loop", "'m = Stop | %s, loop = #{ !#'m { | =Stop => Ok %s } }, p = @loop, %s, Stop p, !p" % (
                decl, arms, ", ".join("%s[%d] p" % (m, j) for j, m in enumerate(msgs)))))
            continue
        if k == 0 or not tmpl:
            # a server with several differently-typed receives in separate selects
            names = rng.sample(["Ping", "Pong", "Put", "Get", "Tick", "Stop"], rng.randint(2, 3))
            tys = [rng.choice(["'int", "'bin", "['int, 'int]", "[]"]) for _ in names]
            recvs = ", ".join("%s = !#%s[%s]" % (chr(97 + j), nm, ty) for j, (nm, ty) in enumerate(zip(names, tys)))
            vals = {"'int": "3", "'bin": "0x01", "['int, 'int]": "[1, 2]", "[]": "[]"}
            sends = ", ".join("%s[%s] p" % (nm, vals[ty]) for nm, ty in zip(names, tys))
            imp = rng.choice(["three = [1, 2] %num.add, ", "l = %list.new, ", ""])
            out.append(("gen:proc-server", "%sserver = #{ %s, [%s] }, p = @server, %s, !p" % (
                imp, recvs, ", ".join(chr(97 + j) for j in range(len(names))), sends)))
        else:
            try:
                t = rng.choice(tmpl)(rng)
                out.append(("gen:proc-%s" % t.get("name", "t"), t["src"]))
            except Exception:
                continue
    return out


def run(ctx):
    ok = ctx.coq_props()
    qc = ctx.harness("qv_compile")
    drv = ctx.driver("wf")
    if not qc or not drv:
        return
    base = testsrc.all_sources()
    base += [("std:%s" % m, "%" + m) for m in ("bin", "dict", "int", "iter", "list", "num", "path", "range", "ref", "str", "vec")]
    gen = generated_sources(ctx, base, ctx.n(600, 20000))   # mutations of repository sources only
    gen += process_sources(ctx, ctx.n(120, 3000))
    import os
    from vplib.common import VERIF
    cp = os.path.join(VERIF, "corpus", "c07_sources.txt")
    if os.path.exists(cp):
        for i, l in enumerate(open(cp)):
            if l.strip() and not l.startswith("#"):
                key, src = l.split(" ", 1)
                base.append(("corpus:%s:%d" % (key, i), sexpr.parse(src)))
    srcs = base + gen
    srcs = [(o, s) for o, s in srcs if not IO_BUILTINS.search(s)]
    lines = [sexpr.quote(s) for _, s in srcs]
    # shard: compile (+merge, +trace) then verify, per shard, preserving order
    import concurrent.futures as cf
    from vplib.common import NCPU
    # corpus sources last, in a chunk of their own
    order = [i for i in range(len(srcs)) if not srcs[i][0].startswith("corpus:")] + [i for i in range(len(srcs)) if srcs[i][0].startswith("corpus:")]
    srcs = [srcs[i] for i in order]
    lines = [sexpr.quote(s) for _, s in srcs]
    ncorp = sum(1 for o, _ in srcs if o.startswith("corpus:"))
    main_lines = lines[:len(lines) - ncorp]
    shards = min(NCPU, max(1, len(main_lines) // 40))
    size = (len(main_lines) + shards - 1) // shards
    chunks = [main_lines[i:i + size] for i in range(0, len(main_lines), size)]
    if ncorp:
        chunks.append(lines[len(lines) - ncorp:])

    # sources carrying a known finding are compiled without merging (a rejected function would
    # otherwise also sit in the merged programs of its neighbours)
    def work(chunk):
        margs = [] if (ncorp and chunk is chunks[-1]) else ["--merge", "4"]
        rc, comp = ctx.run_bin(qc, chunk, args=margs + ["--trace", str(ctx.n(1500, 6000))], timeout=1500)
        rc2, ver = ctx.run_bin(drv, comp, timeout=1500)
        return comp, ver

    with cf.ThreadPoolExecutor(max_workers=shards) as ex:
        results = list(ex.map(work, chunks))
    comp, ver = [], []
    for c, v in results:
        comp += c
        ver += v
    if len(comp) != 2 * len(lines) or len(ver) != len(comp):
        ctx.violation({"kind": "correspondence-broken", "what": "harness/driver output misaligned",
                       "cases": len(lines), "compiled_lines": len(comp), "verifier_lines": len(ver)}, no_input=True)
        return
    programs = variants = functions = instrs = rejected = traces = trace_points = mismatches = 0
    not_compiled = 0
    kinds = {}
    seen = set()
    distinct = 0
    samples = []
    known_hits = {}
    for i, (origin, src) in enumerate(srcs):
        c, t = comp[2 * i], comp[2 * i + 1]
        v, tv = ver[2 * i], ver[2 * i + 1]
        k = origin.split(":")[0] if origin.startswith(("gen:", "std:")) else ("spec" if origin.startswith("spec") else ("qv-file" if origin.endswith(".qv") else "test-suite"))
        if not c.startswith("(compiled"):
            not_compiled += 1
            continue
        programs += 1
        kinds[k] = kinds.get(k, 0) + 1
        h = hashlib.sha1(c.encode()).hexdigest()
        if h not in seen:
            seen.add(h)
            # non-trivial: more than one function, or a jump (a join), or a tail call
            if c.count("(fn ") > 3 or "(jmpif" in c or "(tailcall" in c:
                distinct += 1
        for m in re.finditer(r"\((as-compiled|tree-shaken|merged-behind-\d+) (ok|reject|driver-error)([^()]*(?:\([^()]*\)[^()]*)*)\)", v):
            variants += 1
            if m.group(2) == "ok":
                nums = m.group(3).split()
                functions += int(nums[0]); instrs += int(nums[1])
            else:
                rejected += 1
                real = re.match(r"\(trace (\S+)", t)
                outcome = real.group(1) if real else "?"
                structural = any(outcome == "err-" + e for e in STRUCTURAL) or outcome == "panic"
                # F64: unnamed star pattern on a union of tuples with different label sets
                key = "F64" if ("load rejected" in m.group(0) and re.search(r"=\*(?![A-Za-z])", src)) else None
                if origin.startswith("corpus:") and origin.split(":")[1] != "-":
                    key = origin.split(":")[1]
                known_hits[key] = known_hits.get(key, 0) + 1
                if key and known_hits[key] > 1 and ctx.findings.get(key, {}).get("status") == "known":
                    continue
                ctx.violation({"kind": "impl-violation" if structural else "translation-validation-rejection",
                               "what": "the verified bytecode checker rejects a function the compiler emitted",
                               "variant": m.group(1), "verdict": m.group(0), "source": src, "origin": origin,
                               "real_run_outcome": outcome}, no_input=not structural, finding_key=key)
        if "merge-error" in c or "(panic" in c:
            rejected += 1
            ctx.violation({"kind": "impl-violation", "what": "tree-shake/merge failed on an accepted program",
                           "source": src, "compiled": c[-300:]})
        if tv.startswith("(trace-ok"):
            traces += 1
            trace_points += int(tv[len("(trace-ok "):-1])
        elif tv.startswith("(trace-mismatch"):
            mismatches += 1
            real = re.match(r"\(trace (\S+)", t)
            outcome = real.group(1) if real else "?"
            structural = any(outcome == "err-" + e for e in STRUCTURAL)
            ctx.violation({"kind": "impl-violation" if structural else "correspondence-broken",
                           "correspondence": "vm/Vm.v stack/locals discipline vs executor.rs (H6 trace vs verifier annotation)",
                           "mismatch": tv, "source": src, "origin": origin, "real_run_outcome": outcome},
                          no_input=not structural)
        if len(samples) < 4 and k != "test-suite":
            samples.append({"origin": origin, "source": src[:200], "verdict": v[:200], "trace": tv})
    ctx.cov.update({
        "programs": programs, "program_variants_verified": variants, "functions_verified": functions,
        "instructions_verified": instrs, "rejected": rejected, "sources_not_compiling_standalone": not_compiled,
        "traces_validated_against_impl": traces, "trace_points_checked": trace_points,
        "disagreements_checked": rejected + mismatches,
        "evaluations": variants, "distinct_nontrivial": distinct,
        "rule": "every source string of quiver-tests, std/*.qv via %imports, examples, spec.md code blocks, plus seeded mutations (wrap in function/block/branch/tuple field, sequence two programs); each compiled program is verified as-compiled, tree-shaken and merged behind 0-3 earlier programs; non-trivial = has a join, a tail call or > 3 functions; distinct by SHA-1 of the dumped bytecode",
        "samples": samples or [{"origin": srcs[0][0], "source": srcs[0][1][:200]}],
        "by_origin": kinds, "rejections_matched_to_known_findings": {str(k): v for k, v in known_hits.items()},
    })
    lockstep(ctx, [(o, s) for o, s in srcs if not o.startswith("corpus:")])
    if not ok:
        ctx.violation({"kind": "theorem-broken", "theorem": getattr(ctx, "broken_theorem", "?"),
                       "searched": "%d program variants verified, %d rejected, %d trace mismatches" % (variants, rejected, mismatches)},
                      no_input=True)


def lockstep(ctx, srcs):
    """H7: value-level lock-step correspondence of vm/Vm.v `step` with executor.rs. The real executor
    runs process 0 one instruction at a time (verif quantum 1); the full state (operand stack, locals,
    frames with pcs - all VALUES included) is dumped before every instruction; the extracted `step`,
    fed the outside inputs read off the next real state, must reproduce every next state exactly, the
    final value, and the error class of a failing instruction. This ties the VALUE semantics of the
    model (used by C10's simulation theorem and C02's compile slice, and by C16) to the code."""
    qs = ctx.harness("qv_step")
    drv = ctx.driver("vmstep")
    if not qs or not drv:
        return
    n = ctx.n(700, 8000)
    rng = ctx.rng
    pool = list(srcs)
    rng.shuffle(pool)
    pick = pool[:n]
    # targeted shapes the repository sources exercise thinly: every tail-call form (C16's shapes, few
    # iterations), sends to oneself, process handles
    from vplib.props import c16
    pick += [("shape:" + name, tmpl % k) for name, tmpl in c16.SHAPES for k in (0, 1, 3)]
    pick += [("shape:send-self", "&. =me, 7 me, 8 me, !#'int"),
             ("shape:send-self-tuple", "&. =me, [1, 0x02] me, x = [3, 4], x me, !#['int, ('int | 'bin)]")]
    lines = [sexpr.quote(s) for _, s in pick]
    rc, real = ctx.run_sharded(qs, lines, args=["--limit", str(ctx.n(400, 1500))], timeout=1500)
    rc2, ver = ctx.run_sharded(drv, real, timeout=1500)
    if len(real) != len(lines) or len(ver) != len(lines):
        ctx.violation({"kind": "correspondence-broken", "correspondence": "vm/Vm.v step vs executor.rs (lock-step)",
                       "what": "harness/driver output misaligned", "cases": len(lines), "real": len(real), "model": len(ver)}, no_input=True)
        return
    runs = pairs = skipped = bad = 0
    hist = {}
    fins = {}
    for (origin, src), r, v in zip(pick, real, ver):
        if not r.startswith("(steps"):
            skipped += 1
            continue
        m = re.search(r"\(fin (\w+)", r)
        fins[m.group(1) if m else "?"] = fins.get(m.group(1) if m else "?", 0) + 1
        if v.startswith("(lockstep ok"):
            runs += 1
            pairs += int(v.split()[2])
            for k, c in re.findall(r"\(([\w/-]+) (\d+)\)", v):
                hist[k] = hist.get(k, 0) + int(c)
        else:
            bad += 1
            if bad <= 3:
                ctx.violation({"kind": "correspondence-broken", "correspondence": "vm/Vm.v step vs executor.rs (value-level lock-step, hook quantum=1)",
                               "verdict": v[:600], "source": src, "origin": origin,
                               "note": "the model of the per-process machine and the executor disagree on one instruction; every theorem stated over vm/Vm.v (C07 wf_sound, C16, C10 renaming_simulation, C02 compile slice) rests on this correspondence"},
                              no_input=True)
    # negative controls: a real trace with ONE program counter altered must be refused
    tampered = []
    for r in real:
        ms = list(re.finditer(r"\((\d+) (\d+) (\d+) (\d+)\)\)\) \(st", r)) if r.startswith("(steps") else []
        if len(ms) >= 4:
            m = ms[2]
            tampered.append(r[:m.start(4)] + str(int(m.group(4)) + 1) + r[m.end(4):])
        if len(tampered) >= 40:
            break
    neg_caught = 0
    if tampered:
        rc3, tv = ctx.run_bin(drv, tampered, timeout=600)
        neg_caught = sum(1 for v in tv if v.startswith("(lockstep mismatch"))
        if neg_caught != len(tampered):
            ctx.violation({"kind": "correspondence-broken", "correspondence": "vm/Vm.v step vs executor.rs (lock-step)",
                           "what": "the lock-step comparison accepted a trace with an altered program counter (negative control)",
                           "accepted": len(tampered) - neg_caught, "of": len(tampered)}, no_input=True)
    ctx.cov.update({"lockstep_negative_controls": len(tampered), "lockstep_negative_controls_refused": neg_caught})
    ctx.cov.update({"lockstep_runs": runs, "lockstep_state_pairs_checked": pairs, "lockstep_not_compiled": skipped,
                    "lockstep_mismatches": bad, "lockstep_by_instruction": hist, "lockstep_final_outcomes": fins})
    ctx.cov["traces_validated_against_impl"] = ctx.cov.get("traces_validated_against_impl", 0) + runs
