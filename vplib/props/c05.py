"""C05 — select follows its documented semantics: priority, filters, timeouts.

theorem layer : coq/theories/props/C05.v  (select machine Select.v refines SelectSpec.v at every
                completing / parking entry for every history of arrivals; cursor, mailbox-order,
                verdict-independence and timeout lemmas; the await protocol of the environment (F8))
correspondence: a REAL `Executor<TestEffect>` (harness qv_select; no Worker/Environment) runs one
                generated select under a generated history of steps / message deliveries / result
                deliveries / failures / clock advances; after every operation its select state, mailbox,
                awaiting map, scheduling flags, result and next_timeout_ms are compared with the extracted
                Coq machine fed the same history.
impl oracles  : on the REAL outcomes alone (no model): select_spec (python re-implementation AND the
                extracted Coq spec) evaluated on the real state before every completing / parking
                entry; mailbox conservation; timeout-not-early; verdict-payload independence (twin
                runs); a process killed by the failure of a process it no longer awaits (F45); the premises
                of the protocol cone (park_honest / time_honest / await_honest) on every real slice."""
import hashlib, json, os, random
from vplib import sexpr
from vplib.common import VERIF

MANIFEST = dict(
    category="proof",
    text="Coq theorems (28, all closed under the global context) about a re-entrant model of the executor's select machine (initialize_select, handle_select_continuation, ensure_select_start_time, process_select_sources, handle_select_timeout/process/receive, scan_mailbox_for_message, call_receive_function, handle_receive_result, complete_select, check_expired_timeouts, the notify_message/notify_result/mark_active wake-ups, the failure paths of Worker::notify_result and Executor::step, the Action a slice returns; a filter is an oracle consulted through the same two-entry protocol as the code). For EVERY history of entries and arrivals (messages, results, failures, wake-ups; arbitrary clock values) and every filter oracle: (1) select_refines_spec: an entry that completes the select completes with select_spec evaluated on the state AT THAT ENTRY - the first source in written order that is ready: a delivered awaited result, the earliest mailbox message of a receive source's type that its filter accepts, nil for a timeout whose duration has elapsed since the select started waiting - and the mailbox afterwards is that entry's mailbox minus exactly the taken message, order preserved (untaken_preserved_in_order); (2) an entry parks the process only when select_spec says Wait; it fails the process only when select_spec says Fail, and a failing filter is only ever called at an entry whose select_spec is Fail; (3) cursor_skips_only_rejected; (4) verdict_is_only_a_verdict (runs and spec); (5) timeout_not_early (monotone clock; durations outside i64 are clamped to 2^63-1 ms as in the code); (6) the machine never reaches an index panic; (7) the premises the protocol cone (sys/*.v, C04/C15) assumes of a VM time slice, proved of the machine: parks_only_after_full_scan / never_parks_with_acceptable_message (park_honest: a slice parks only with every receive cursor at the end of the mailbox), await_slice_has_not_started (the slice returning Action::Await has its start time unset and parks), never_parks_with_due_timeout / parked_not_expired_at_same_clock (time_honest, for the slice that parks; the unconditional reading is shown false by an Example and on the real code), dead_process_runs_no_entry (await_honest a), reparks_until_all_reported / completes_only_after_all_reported / parked_started_select_is_fully_scanned (code since 8388832, F72: Process.unreported_awaits - a select woken before the await has reported every process source parks again without evaluating anything, so park_honest clause 1 is conditional on the start time being set), and for the code since 09625d4: awaiting_keys_subset_of_current_sources (invariant), complete_select_clears_process_sources, completed_select_awaits_nothing, await_slice_leaves_only_its_targets (await_honest b). The failure of an awaited process is an asynchronous kill in the code (it pre-empts even a ready higher-priority source) and a failing filter cannot be pre-empted by a source that became ready while it ran: both are stated explicitly in props/C05.v, not as priority. Await protocol of the environment (pending_awaits): await_protocol_delivers_all proved for the merging code in /repo (F8 fixed, 5c787ac), refutation kept for the replacing code. F45 (a completed select kept awaiting; a later failure killed the process; fixed, 09625d4): completed_select_survives proved for the repaired code, refutation kept for the code before it. The model is tied to the code by differential execution against a real Executor after every operation of generated histories (select state, cursors, start time, mailbox, awaiting map, unreported-awaits set, scheduling flags, next_timeout_ms, result, and the Action returned by each slice); select_spec (python reading AND the extracted Coq function) and every protocol-cone premise are additionally evaluated on the REAL executor's states, with no model involved; the reproducers of F72 and F45 are must-pass probes on the real Environment with 1, 2 and 3 workers.",
    design_ref="§5 C05",
    note="Trusted: Coq kernel, extraction, OCaml driver, Rust harness qv_select (plays the worker through the executor's public API; the failure of an awaited process is applied as worker.rs does; --env drives the real Environment with fake worker handles), generators. Not modelled: the frame/instruction check against nested selects, refcounts (C06), the operand stack beyond the pushed value, the rest of the program around the select (one select per run: 'a process that finished normally is never queued again' and 'the next select starts from the awaiting map the previous one left' are the glue to multi-select programs; the latter is completed_select_awaits_nothing). Readiness of a process source means 'its result has been delivered to the awaiter' (awaiting[p] = Some): how and when results get delivered is the await protocol (F8 here; F72 under C03/C04). The model keeps a switch fix45 (code before/after 09625d4) and the check probes which behaviour the real code has; the protocol-cone premise theorems about `awaiting` are for fix45 = true. sys's time_honest is stated unconditionally there; it is proved (and true of the real code) only for the slice that parks, which is all its use needs - see the header of props/C05.v.",
    technique="Coq proof (refinement of a spec by a re-entrant machine via an invariant over all histories) + model/code correspondence by differential execution + spec-as-oracle on real outcomes + metamorphic twin runs + exhaustive small scope (thorough)",
)

ALL_T = "('int | 'bin | T['int])"
CLS_T = {0: "'int", 1: "'bin", 2: "T['int]"}
TRUTHY = ["Ok", "77", "0", "[1, 2]", "0x00", "T[9]", "W[3]"]
TIMEOUTS = [0, 0, 1, 2, 5, 5, 10, 50, -1, -5, 10 ** 6, 2 ** 63 - 1, 2 ** 63, 2 ** 64 + 3, -2 ** 63, -2 ** 63 - 1, -2 ** 70]
I64MAX = 2 ** 63 - 1
U64MAX = 2 ** 64 - 1


# ------------------------------------------------------------------ reference (python) spec
def eff_timeout(d):
    d2 = d if -2 ** 63 <= d < 2 ** 63 else I64MAX
    return max(d2, 0)


def timeout_ready(d, start, now):
    return max(now - start, 0) >= eff_timeout(d)


def py_spec(case, mb, aw, start, now):
    """select_spec re-implemented from the documentation. mb: list of (id, cls); aw: dict k -> value|None.
    Returns ('complete', value, mb') | ('fail',) | ('wait',)."""
    r = 0
    for s in case["srcs"]:
        if s["kind"] == "proc":
            v = aw.get(s["k"])
            if v is not None:
                return ("complete", v, list(mb))
        elif s["kind"] == "timeout":
            if timeout_ready(s["d"], start, now):
                return ("complete", ("nil",), list(mb))
        else:
            for i, m in enumerate(mb):
                if m[1] not in s["classes"]:
                    continue
                vd = ("t", 0) if s["type_only"] else case["verdicts"].get((r, m[0], m[1]), ("nil",))
                if vd[0] == "t":
                    return ("complete", ("m", m[0], m[1]), list(mb[:i]) + list(mb[i + 1:]))
                if vd[0] == "e":
                    return ("fail",)
            r += 1
    return ("wait",)


# ------------------------------------------------------------------ rendering
def msg_lit(m):
    return {0: "%d" % m[0], 1: "0x%02x" % m[0], 2: "T[%d]" % m[0]}[m[1]]


def msg_val(m):
    return {0: "(i %d)" % m[0], 1: "(b %02x)" % m[0], 2: "(t %d)" % m[0]}[m[1]]


def type_of(classes):
    ts = [CLS_T[c] for c in classes]
    return ts[0] if len(ts) == 1 else "(" + " | ".join(ts) + ")"


def render_source(case):
    lines = ["tt = T[0]"]                      # the tuple type T always exists in the program
    for k in sorted({s["k"] for s in case["srcs"] if s["kind"] == "proc"}):
        if case["local"]:
            lines.append("p%d = @{ !'int { | =0 => [1, 0] __integer_divide__ | =x => [x, 1000] __integer_add__ } }" % k)
        else:
            lines.append("p%d = @{ !'int }" % k)
    r = 0
    items = []
    for s in case["srcs"]:
        if s["kind"] == "proc":
            items.append("p%d" % s["k"])
        elif s["kind"] == "timeout":
            items.append("%d" % s["d"])
        else:
            if s["type_only"]:
                if s.get("builtin"):
                    items.append("&" + s["builtin"])
                else:
                    items.append("#" + type_of(s["classes"]))
            else:
                if not s.get("dup"):
                    branches = []
                    for (rr, mid, cls), vd in sorted(case["verdicts"].items()):
                        if rr != r:
                            continue
                        body = {"t": TRUTHY[vd[1] % len(TRUTHY)] if vd[0] == "t" else None, "nil": "[]",
                                "e": "[1, 0] __integer_divide__"}[vd[0]]
                        branches.append("| =%s => %s" % (msg_lit((mid, cls)), body))
                    if not branches:
                        # a body-less function would be a type-only receiver: keep a body
                        branches.append("| =%s => Ok" % msg_lit((250, s["classes"][0])))
                    lines.append("f%d = #%s { %s }" % (r, type_of(s["classes"]), " ".join(branches)))
                    items.append("&f%d" % r)
                else:
                    items.append("&f%d" % s["dup_of"])
            r += 1
    sel = "! [%s]" % ", ".join(items)
    if case["drain"]:
        ds = ["! [#%s, 0] =d%d" % (ALL_T, i) for i in range(case["drain"])]
        body = "%s =r, %s, R[r, %s]" % (sel, ", ".join(ds), ", ".join("d%d" % i for i in range(case["drain"])))
    else:
        body = sel
    return ", ".join(lines + [body])


def render_op(op, fixed45):
    k = op[0]
    if k == "msg":
        return "(msg 0 %s)" % msg_val(op[1])
    if k == "hmsg":
        return "(msg %d (i %d))" % (op[1] + 1, op[2])
    if k == "res":
        return "(res %d %s)" % (op[1], "nil" if op[2] is None else "(i %d)" % op[2])
    if k == "fail":
        return "(%s %d)" % ("failc" if fixed45 else "fail", op[1])
    if k in ("active", "local"):
        return "(%s)" % k
    if k == "report":
        return "(report %s)" % " ".join(str(x) for x in op[1])
    return "(" + " ".join(str(x) for x in op) + ")"


def harness_line(case, fixed45):
    return "%s (ops %s)" % (sexpr.quote(render_source(case)), " ".join(render_op(o, fixed45) for o in case["ops"]))


def model_srcs(case):
    out = []
    for s in case["srcs"]:
        if s["kind"] == "proc":
            out.append("(proc %d)" % s["k"])
        elif s["kind"] == "timeout":
            out.append("(timeout %d)" % s["d"])
        else:
            out.append("(recv (%s) %d)" % (" ".join(str(c) for c in s["classes"]), 1 if s["type_only"] else 0))
    return "(srcs %s)" % " ".join(out)


def model_verdicts(case):
    out = []
    for (r, mid, cls), vd in sorted(case["verdicts"].items()):
        v = {"t": "(t %d)" % (vd[1] if vd[0] == "t" else 0), "nil": "nil", "e": "(e InvalidArgument)"}[vd[0]]
        out.append("(%d %d %d %s)" % (r, mid, cls, v))
    return "(verdicts %s)" % " ".join(out)


def mval(v):
    if v is None:
        return "-"
    return {"m": lambda: "(m %d %d)" % (v[1], v[2]), "nil": lambda: "nil", "v": lambda: "(v %d)" % v[1]}[v[0]]()


# ------------------------------------------------------------------ parsing real dumps
def real_value(x):
    """canonical dump of a real value -> model value tuple"""
    if isinstance(x, list):
        if x[0] == "i":
            n = int(x[1])
            return ("v", n) if n >= 1000 else ("m", n, 0)
        if x[0] == "b":
            return ("m", int(x[1], 16), 1)
        if x[0] == "t":
            if x[1] == "-" and len(x) == 3:
                return ("nil",)
            if x[1] == "T" and len(x) == 4 and x[3][0] == "i":
                return ("m", int(x[3][1]), 2)
            return ("other", json.dumps(x))
    return ("other", json.dumps(x))


def real_msg(x):
    v = real_value(x)
    return (v[1], v[2]) if v[0] == "m" else ("?", json.dumps(x))


def field(d, name):
    for it in d:
        if isinstance(it, list) and it and it[0] == name:
            return it
    return None


def parse_real_dump(d):
    """(d (q n) (s b) SEL (mb ..) (aw ..) (res ..) (nt ..) (fr n) (st n)) -> dict"""
    sel = None
    for it in d[1:]:
        if isinstance(it, list) and it and it[0] == "sel":
            recv = field(it, "recv")[1]
            start = field(it, "start")[1]
            sel = dict(cur=tuple(int(c) for c in field(it, "cur")[1:]),
                       recv=None if recv == "-" else (int(recv[0]), real_msg(recv[1])),
                       start=None if start == "-" else int(start),
                       nsrc=int(field(it, "nsrc")[1]))
    res = field(d, "res")[1]
    err = None
    ok = None
    if res != "-":
        if res[0] == "err":
            err = ("aw", int(res[2])) if res[2] != "-" else ("e", res[1])
        else:
            ok = res[1]
    nt = field(d, "nt")[1]
    return dict(q=int(field(d, "q")[1]), s=int(field(d, "s")[1]), sel=sel,
                mb=tuple(real_msg(m) for m in field(d, "mb")[1:]),
                aw=tuple(sorted((int(k) - 100, None if v == "-" else real_value(v)) for k, v in field(d, "aw")[1:])),
                un=tuple(int(k) - 100 for k in field(d, "un")[1:]),
                err=err, ok=ok, nt=None if nt == "-" else int(nt))


def parse_model_value(x):
    if x == "nil":
        return ("nil",)
    if x[0] == "m":
        return ("m", int(x[1]), int(x[2]))
    return ("v", int(x[1]))


def parse_model_dump(d):
    if d[0] != "d":
        return dict(panic=d)
    sel = None
    for it in d[1:]:
        if isinstance(it, list) and it and it[0] == "sel":
            recv = field(it, "recv")[1]
            start = field(it, "start")[1]
            sel = dict(cur=tuple(int(c) for c in field(it, "cur")[1:]),
                       recv=None if recv == "-" else (int(recv[0]), (int(recv[1][0]), int(recv[1][1]))),
                       start=None if start == "-" else int(start),
                       nsrc=int(field(it, "nsrc")[1]))
    err = field(d, "err")[1]
    val = field(d, "val")[1]
    nt = field(d, "nt")[1]
    act = field(d, "act")
    return dict(q=int(field(d, "q")[1]), s=int(field(d, "s")[1]), sel=sel,
                mb=tuple((int(m[0]), int(m[1])) for m in field(d, "mb")[1:]),
                aw=tuple(sorted((int(k), None if v == "-" else parse_model_value(v)) for k, v in field(d, "aw")[1:])),
                err=None if err == "-" else (err[0], err[1] if err[0] == "e" else int(err[1])),
                un=tuple(int(k) for k in field(d, "un")[1:]),
                val=None if val == "-" else parse_model_value(val), nt=None if nt == "-" else int(nt),
                act=None if act is None or act[1:] == ["-"] else tuple(int(x) for x in act[1:]))


def split_records(parsed):
    """(case (op i) rec rec (op j) rec ... (refcounts x)) -> list of (op index, rec), refcounts"""
    out, cur, rc = [], None, None
    for it in parsed[1:]:
        if it[0] == "op":
            cur = int(it[1])
        elif it[0] == "refcounts":
            rc = it[1]
        else:
            out.append((cur, it))
    return out, rc


# ------------------------------------------------------------------ generation
def gen_case(rng, max_src=4, max_msgs=6, local_p=0.2):
    nsrc = rng.choice([1, 2, 2, 3, 3, 3, 4, 4][:max(1, 2 * max_src)]) if max_src >= 4 else rng.randint(1, max_src)
    nuni = rng.randint(0, max_msgs + 2)
    ids = rng.sample(range(1, 200), nuni)
    cls_bias = rng.choice([None, None, 0, 1])
    universe = [(i, cls_bias if cls_bias is not None and rng.random() < 0.6 else rng.randrange(3)) for i in ids]
    srcs, verdicts = [], {}
    r = 0
    nproc = 0
    local = rng.random() < local_p
    recv_defs = []
    for _ in range(nsrc):
        kind = rng.choice(["proc", "recv", "recv", "timeout"])
        if kind == "proc":
            if nproc and rng.random() < 0.15:
                k = rng.randrange(nproc)
            else:
                k = nproc
                nproc += 1
            srcs.append(dict(kind="proc", k=k))
        elif kind == "timeout":
            srcs.append(dict(kind="timeout", d=rng.choice(TIMEOUTS)))
        else:
            if recv_defs and rng.random() < 0.1:
                j = rng.choice(recv_defs)               # the same filter function twice: two cursors
                src = dict(srcs[j[0]])
                src["dup"], src["dup_of"] = True, j[1]
                for (rr, mid, cls), vd in list(verdicts.items()):
                    if rr == j[1]:
                        verdicts[(r, mid, cls)] = vd
                srcs.append(src)
                r += 1
                continue
            classes = tuple(sorted(rng.sample([0, 1, 2], rng.choice([1, 1, 2, 3]))))
            type_only = rng.random() < 0.35
            src = dict(kind="recv", classes=classes, type_only=type_only)
            if type_only and rng.random() < 0.25:
                if classes == (0,):
                    src["builtin"] = "__integer_abs__"
                elif classes == (1,):
                    src["builtin"] = "__binary_length__"
            if not type_only:
                mode = rng.choice(["mixed", "mixed", "reject", "accept"])
                for m in universe:
                    if m[1] in classes:
                        x = rng.random()
                        if mode == "reject":
                            vd = ("nil",) if x < 0.85 else ("t", rng.randrange(len(TRUTHY)))
                        elif mode == "accept":
                            vd = ("t", rng.randrange(len(TRUTHY))) if x < 0.85 else ("nil",)
                        else:
                            vd = ("t", rng.randrange(len(TRUTHY))) if x < 0.45 else (("e",) if x > 0.95 else ("nil",))
                        if vd[0] != "nil" or rng.random() < 0.3:
                            verdicts[(r, m[0], m[1])] = vd
                recv_defs.append((len(srcs), r))
            srcs.append(src)
            r += 1
    case = dict(srcs=srcs, verdicts=verdicts, local=local and nproc > 0, drain=0)
    # ---- history
    t = rng.choice([0, 0, 0, 3, 1000, 2 ** 40])
    pending = list(universe)
    ops = []
    if case["local"]:
        ops.append(("local",))
    for _ in range(rng.randint(0, min(4, len(pending)))):
        ops.append(("msg", pending.pop(0)))
    ops.append(("to-select", t))
    proc_fate = {}
    for k in range(nproc):
        proc_fate[k] = rng.choice(["res", "res", "res", "fail", "never", "nilres"])
    done_procs = set()
    state = dict(active_left=1 if nproc else 0, inited=False, reported_all=not nproc)
    allk = sorted({s_["k"] for s_ in srcs if s_["kind"] == "proc"})

    def snapshot(full_p=0.8):
        # the answer to the Await (Worker::update_await_results): report the state of the targets it
        # names (all of them in one merged answer; a subset models an overtaking later answer), wake
        ks = allk if rng.random() < full_p else rng.sample(allk, rng.randint(0, len(allk)))
        if set(ks) >= set(allk):
            state["reported_all"] = True
        ops.append(("report", tuple(ks)))
        ops.append(("active",))
    timeouts = [eff_timeout(s["d"]) for s in srcs if s["kind"] == "timeout" and eff_timeout(s["d"]) < 10 ** 7]

    def arrivals(n, allow_fail=True):
        for _ in range(n):
            choices = []
            if pending:
                choices += ["msg"] * 3
            if state["inited"]:
                live = [k for k in range(nproc) if k not in done_procs and proc_fate[k] != "never"]
                if live:
                    choices += ["proc"] * 2
                if state["active_left"] or not state["reported_all"]:
                    choices += ["active"] * 5
            if not choices:
                return
            c = rng.choice(choices)
            if c == "msg":
                ops.append(("msg", pending.pop(0)))
            elif c == "active":
                state["active_left"] = 0
                snapshot()
            else:
                k = rng.choice(live)
                done_procs.add(k)
                fate = proc_fate[k]
                if case["local"]:
                    ops.append(("hmsg", k, 0 if fate == "fail" else 1 + k))
                elif fate == "fail":
                    if allow_fail:
                        ops.append(("report", (k,)))
                        ops.append(("fail", k))
                elif fate == "nilres":
                    ops.append(("res", k, None))
                else:
                    ops.append(("res", k, 1000 + 7 * k + rng.randrange(5)))

    def advance():
        nonlocal t
        x = rng.random()
        if x < 0.4:
            return
        if x < 0.6:
            t += 1
        elif x < 0.8 and timeouts:
            t += max(0, rng.choice(timeouts) + rng.choice([-1, 0, 0, 1]))
        elif x < 0.97:
            t += rng.choice([2, 5, 10, 49, 50, 51])
        else:
            t = max(0, t - rng.choice([1, 5]))      # a clock that steps back (saturating_sub)

    for _ in range(rng.randint(1, 6)):
        arrivals(rng.choice([0, 0, 1, 1, 2]))
        advance()
        ops.append(("step", rng.choice([1, 1, 1, 1, 1, 2, 3, 1000]), t))
        state["inited"] = True
        if rng.random() < 0.5:
            for _ in range(rng.randint(1, 4)):
                ops.append(("step", 1, t))
        arrivals(rng.choice([0, 0, 0, 1]))
        if rng.random() < 0.7:
            ops.append(("ff", t))
    if rng.random() < 0.85:
        arrivals(rng.choice([0, 0, 1]))
        if nproc and not state["reported_all"] and rng.random() < 0.8:
            snapshot(1.0)
        advance()
        ops.append(("drive", t, 14))
    if rng.random() < 0.35:
        arrivals(rng.choice([1, 2]))                  # after the select is over (or parked)
        if case["local"]:
            ops.append(("ff", t))
    if rng.random() < 0.35:
        case["drain"] = len(universe) + 1
    ops.append(("finish", t, 600))
    case["ops"] = ops
    case["universe"] = universe
    return case


def features(case):
    kinds = sorted({s["kind"] for s in case["srcs"]})
    return "+".join(kinds)


# ------------------------------------------------------------------ running and comparing
class Runner:
    def __init__(self, ctx, qs, drv, fixed45):
        self.ctx, self.qs, self.drv, self.fixed45 = ctx, qs, drv, fixed45
        self.n = 0
        self.nontrivial = set()
        self.disagreements = 0
        self.oracle_failures = 0
        self.f45_hits = 0
        self.samples = []
        self.hist = dict(source_kinds={}, nsrc={}, completed_by={}, outcome={}, quantum={}, msgs_in_mailbox={})
        self.counts = dict(ops=0, entries=0, filter_calls=0, arrival_between_reentries=0, arrival_in_filter=0,
                           arrival_after_parking=0, arrival_before_select=0, spec_evals_on_real=0,
                           spec_evals_complete=0, spec_evals_wait=0, spec_evals_fail=0, model_states_compared=0,
                           local_cases=0, drained=0, twins=0, refcount_violations_seen=0, failures_delivered=0,
                           timeouts_checked_not_early=0, clock_back_steps=0, multi_entry_steps=0,
                           reparks_before_all_reported=0, premise_repark_start_unset=0, f72_probe=0,
                           actions_compared=0, await_actions=0, premise_park_full_scan=0, premise_park_no_due_timeout=0,
                           premise_await_start_unset=0, premise_await_keys_in_targets=0,
                           premise_no_slice_for_dead_process=0, premise_completion_clears_sources=0)
        self.reported = 0

    def bump(self, h, k):
        self.hist[h][str(k)] = self.hist[h].get(str(k), 0) + 1

    # ---- one batch: real run, derive events, model run, spec run, compare
    def batch(self, cases):
        ctx = self.ctx
        lines = [harness_line(c, self.fixed45) for c in cases]
        rc, real = ctx.run_sharded(self.qs, lines)
        analyses = []
        model_lines, spec_lines, spec_refs = [], [], []
        for ci, (case, out) in enumerate(zip(cases, real)):
            a = self.analyse_real(case, out)
            analyses.append(a)
            if a.get("fatal"):
                continue
            model_lines.append("(sel (fix %d) %s %s (mb %s) (aw) (evs %s))" % (
                1 if self.fixed45 else 0, model_srcs(case), model_verdicts(case),
                " ".join("(%d %d)" % m for m in a["mb0"]), " ".join(a["events"])))
            for q in a["spec_queries"]:
                spec_lines.append("(spec %s %s (mb %s) (aw %s) (start %d) (now %d))" % (
                    model_srcs(case), model_verdicts(case), " ".join("(%d %d)" % m for m in q["mb"]),
                    " ".join("(%d %s)" % (k, mval(v)) for k, v in q["aw"]), q["start"], q["now"]))
                spec_refs.append((ci, q))
        _, mout = ctx.run_sharded(self.drv, model_lines) if model_lines else (0, [])
        _, sout = ctx.run_sharded(self.drv, spec_lines) if spec_lines else (0, [])
        # extracted spec vs python spec vs real
        for (ci, q), line in zip(spec_refs, sout):
            self.check_spec(cases[ci], q, line)
        mi = 0
        for ci, (case, a) in enumerate(zip(cases, analyses)):
            self.n += 1
            if a.get("fatal"):
                self.report(case, "impl-violation" if a["fatal"].startswith("panic") else "correspondence-broken",
                            dict(what=a["fatal"], real=a.get("raw", "")[:2000]))
                continue
            self.compare_model(case, a, mout[mi] if mi < len(mout) else "(missing)")
            mi += 1
            self.account(case, a)

    def report(self, case, kind, extra, finding_key=None, no_input=False):
        if kind in ("impl-violation",):
            self.oracle_failures += 1
        obj = dict(kind=kind, correspondence="Select.v machine vs quiver-core executor (qv_select)",
                   source=render_source(case), ops=[render_op(o, self.fixed45) for o in case["ops"]],
                   harness_line=harness_line(case, self.fixed45), case=_jsonable(case))
        obj.update(extra)
        if finding_key is None and self.reported >= 8:
            return
        if finding_key is None:
            self.reported += 1
            obj = self.shrink(case, obj, kind, extra)
        self.ctx.violation(obj, finding_key=finding_key, no_input=no_input)

    def shrink(self, case, obj, kind, extra):
        """ddmin over ops: keep removing single ops while the same kind of failure is reproduced."""
        if kind != "impl-violation" or "oracle" not in extra:
            return obj
        ops = list(case["ops"])
        changed = True
        rounds = 0
        while changed and rounds < 4:
            changed = False
            rounds += 1
            for i in range(len(ops) - 1, -1, -1):
                if ops[i][0] in ("to-select", "local"):
                    continue
                trial = dict(case)
                trial["ops"] = ops[:i] + ops[i + 1:]
                rc, out = self.ctx.run_bin(self.qs, [harness_line(trial, self.fixed45)])
                a = self.analyse_real(trial, out[0] if out else "")
                if any(f["oracle"] == extra["oracle"] for f in a.get("oracle_failures", [])):
                    ops = trial["ops"]
                    changed = True
        small = dict(case)
        small["ops"] = ops
        obj["shrunk_ops"] = [render_op(o, self.fixed45) for o in ops]
        obj["shrunk_harness_line"] = harness_line(small, self.fixed45)
        return obj

    # ---- walk the real records: derive the model's events, the spec queries, the real-only oracles
    def analyse_real(self, case, out):
        a = dict(raw=out, events=[], checkpoints=[], spec_queries=[], oracle_failures=[], stats={})
        if not out.startswith("(case"):
            a["fatal"] = ("panic " + out) if out.startswith("(panic") else ("harness output: " + out[:300])
            return a
        try:
            recs, rc = split_records(sexpr.parse(out))
        except Exception as e:                        # noqa
            a["fatal"] = "unparsable harness output: %s" % e
            return a
        a["refcounts"] = rc
        ops = case["ops"]
        st = a["stats"]
        for k in ("entries", "filter_calls", "arr_between", "arr_in_filter", "arr_parked", "arr_before", "clock_back",
                  "multi_entry", "failures"):
            st[k] = 0
        prev = None            # previous real dump
        selected = False       # to-select passed
        completed = False      # the select under test is over (real)
        comp_value = None
        comp_by = None
        init_time = None
        last_now = None
        delivered = []         # every message delivered to pid 0, in order
        killed_after = None
        mb0 = None
        nev = 0
        for opi, rec in recs:
            name = rec[0]
            if name == "panic":
                # the real code panicked inside this op.  The debug-build refcount audit at a process's
                # completion fires when a stale await overwrites the Ok result of a finished process
                # (F45 + the missing release): recognised narrowly, everything else is a violation.
                helper_failing = case["local"] and any(o[0] == "hmsg" and o[2] == 0 for o in ops[:opi + 1])
                if "refcount invariant violated" in rec[2] and completed and helper_failing:
                    killed_after = dict(k=-1, how="Executor::step awaiters loop (then the debug refcount audit panics: the finished process's Ok result is overwritten without release)", value=comp_value)
                    a["panic_f45"] = True
                else:
                    a["fatal"] = "panic %s %s" % (rec[1], rec[2])
                    return a
                break
            d = parse_real_dump(field(rec, "d"))
            op = ops[opi]
            evs = []
            act_at = real_act = None
            if name == "to-select":
                if field(rec, "reached")[1] != "1":
                    a["fatal"] = "process never reached its select"
                    return a
                selected = True
                mb0 = d["mb"]
            elif name == "msg":
                if op[0] == "msg":
                    delivered.append(op[1])
                    if selected:
                        evs.append("(msg %d %d)" % op[1])
                        self.classify_arrival(st, prev, completed)
                    else:
                        st["arr_before"] += 1
            elif name == "res":
                evs.append("(res %d %s)" % (op[1], "nil" if op[2] is None else "(v %d)" % op[2]))
                self.classify_arrival(st, prev, completed)
            elif name in ("fail", "failc"):
                evs.append("(fail %d)" % op[1])
                st["failures"] += 1
                self.classify_arrival(st, prev, completed)
                if d["err"] is not None and (prev is None or prev["err"] is None):
                    if completed or prev is None or prev["sel"] is None:
                        killed_after = dict(k=op[1], how="worker notify_result Err arm", value=comp_value)
            elif name == "active":
                evs.append("(active)")
            elif name == "report":
                evs.append("(report %s)" % " ".join(str(x) for x in op[1]))
            elif name == "step":
                now = int(field(rec, "now")[1])
                q = int(field(rec, "q")[1])
                did = field(rec, "did")[1] == "1"
                ran = field(rec, "ran")[1]
                entries = int(field(rec, "entries")[1])
                val = field(rec, "val")[1]
                helpers = field(rec, "helpers")[1:]
                if last_now is not None and now < last_now:
                    st["clock_back"] += 1
                    a["clock_went_back"] = True
                last_now = now
                ra = field(rec, "act")[1]
                real_act = None
                if isinstance(ra, list) and ra[0] == "await" and ra[1] == "0":
                    real_act = tuple(int(x) - 100 for x in ra[2:])
                act_at = None
                # sys premise await_honest (a), on the real executor: no instruction is executed for a
                # process whose result is already set
                if prev is not None and (prev["err"] is not None or prev["ok"] is not None):
                    self.counts["premise_no_slice_for_dead_process"] += 1
                    if ran == "0" and int(field(rec, "n")[1]) > 0:
                        a["oracle_failures"].append(dict(oracle="premise:no-slice-for-a-finished-process", record=_jsonable(rec[:9])))
                if ran not in ("0", "-"):
                    # another process ran: only this step's check_expired_timeouts concerns pid 0
                    evs.append("(tick %d)" % now)
                for h in helpers:
                    k = int(h[1])
                    if h[2][0] == "ok":
                        evs.append("(local %d %s)" % (k, mval(real_value(h[2][1]))))
                    else:
                        evs.append("(local %d -)" % k)
                        st["failures"] += 1
                        if d["err"] is not None and prev is not None and prev["err"] is None and (completed or prev["sel"] is None):
                            killed_after = dict(k=k, how="Executor::step awaiters loop", value=comp_value)
                if not completed:
                    if ran in ("0", "-"):
                        n_steps = 0
                        new_err = d["err"] is not None and (prev is None or prev["err"] is None) and not helpers
                        if entries >= 1:
                            # (+1: a filter called in this slice failed inside its frame in the same slice)
                            n_steps = entries + (1 if new_err else 0)
                        elif not did:
                            n_steps = 1
                        elif prev is not None and prev["err"] is not None:
                            n_steps = 1               # a dead process leaves the queue
                        elif new_err:
                            n_steps = 1               # the filter failed inside its frame
                        evs += ["(step %d)" % now] * n_steps
                        if n_steps:
                            act_at = nev + len(evs) - 1     # index of the last entry fed to the model
                        self.real_premises(case, a, prev, d, now, entries, real_act, val)
                        st["entries"] += entries
                        if entries > 1:
                            st["multi_entry"] += 1
                        if entries >= 1 and init_time is None:
                            init_time = now
                        # spec oracle on the REAL pre-state of a single-entry step
                        ninstr = int(field(rec, "n")[1])
                        if entries == 1 and ninstr == 1 and prev is not None and prev["sel"] is not None and prev["err"] is None:
                            self.real_entry_oracle(case, a, prev, d, now, val, init_time)
                        if d["sel"] is not None and d["sel"]["recv"] is not None and entries >= 1 and \
                                (prev is None or prev["sel"] is None or prev["sel"]["recv"] != d["sel"]["recv"] or entries >= 1):
                            st["filter_calls"] += 1
                    if val != "-":
                        completed = True
                        comp_value = None if val in ("-", "?") else real_value(val)
                        a["completion"] = dict(now=now, value=comp_value, mb_after=d["mb"], q=q, pre=prev)
            elif name == "ff":
                if field(rec, "changed")[1] != "0":
                    a["oracle_failures"].append(dict(oracle="filter-steps-leave-select-state-alone", record=rec))
            elif name == "finish":
                a["final"] = d
            nev += len(evs)
            a["events"] += evs
            cp = dict(nev=nev, real=d, completed=completed, name=name, opi=opi)
            if name == "step" and (act_at is not None or real_act is not None):
                cp["act_at"], cp["real_act"] = act_at, real_act
            a["checkpoints"].append(cp)
            prev = d
        a["mb0"] = mb0 if mb0 is not None else ()
        a["delivered"] = delivered
        a["completed"] = completed
        a["killed_after"] = killed_after
        a["final"] = a.get("final", prev)
        self.real_final_oracles(case, a)
        return a

    def real_premises(self, case, a, prev, d, now, entries, real_act, val):
        """The premises the protocol cone (sys/ProtoParked.v park_honest, time_honest; sys/ProtoAwait.v
        await_honest) assumes of a time slice, evaluated on the REAL executor's state after a slice of
        the process under test (no model involved)."""
        c = self.counts
        parked = d["s"] == 1 and d["q"] == 0 and d["err"] is None and entries >= 1 and d["sel"] is not None
        if real_act is not None:
            c["await_actions"] += 1
            # park_honest, 2nd clause: the slice that returns Await has not started evaluating
            c["premise_await_start_unset"] += 1
            if d["sel"] is None or d["sel"]["start"] is not None or not parked or d["un"] != real_act:
                a["oracle_failures"].append(dict(oracle="premise:await-slice-has-start-unset-parks-and-records-unreported-targets", real=_jsonable(d)))
            # await_honest (b): every key left in `awaiting` is a target of this Await
            c["premise_await_keys_in_targets"] += 1
            stale = [k for k, _ in d["aw"] if k not in real_act]
            exp = tuple(s["k"] for s in case["srcs"] if s["kind"] == "proc")
            if (stale and self.fixed45) or real_act != exp:
                a["oracle_failures"].append(dict(oracle="premise:await-leaves-only-its-targets", stale=stale,
                                                 targets=list(real_act), written=list(exp)))
        elif parked and d["un"]:
            # a select woken before every awaited process was reported parks again: start still unset
            # (sys park_honest clause 1 is conditional on sl_start <> None for exactly this slice)
            c["premise_repark_start_unset"] += 1
            if d["sel"]["start"] is not None or d["sel"]["recv"] is not None:
                a["oracle_failures"].append(dict(oracle="premise:repark-has-start-unset", real=_jsonable(d)))
        elif parked:
            sel = d["sel"]
            # park_honest, 1st clause: parked by a pass => every receive cursor at the end of the mailbox
            c["premise_park_full_scan"] += 1
            if sel["start"] is None or any(cu != len(d["mb"]) for cu in sel["cur"]) or sel["recv"] is not None:
                a["oracle_failures"].append(dict(oracle="premise:parks-only-after-full-scan", real=_jsonable(d)))
            # time_honest (for the parking slice): no timeout source due at the clock of the pass
            c["premise_park_no_due_timeout"] += 1
            if sel["start"] is not None:
                due = [s["d"] for s in case["srcs"] if s["kind"] == "timeout" and timeout_ready(s["d"], sel["start"], now)]
                if due:
                    a["oracle_failures"].append(dict(oracle="premise:never-parks-with-a-due-timeout", due=due,
                                                     start=sel["start"], now=now))
        if val != "-" and self.fixed45:
            # complete_select forgets every process source of the completed select
            c["premise_completion_clears_sources"] += 1
            if d["aw"]:
                a["oracle_failures"].append(dict(oracle="premise:complete-select-clears-process-sources", awaiting=_jsonable(d["aw"])))

    def classify_arrival(self, st, prev, completed):
        if prev is None or completed:
            return
        if prev["sel"] is None:
            st["arr_before"] += 1
        elif prev["s"] == 1:
            st["arr_parked"] += 1
        elif prev["sel"]["recv"] is not None:
            st["arr_in_filter"] += 1
            st["arr_between"] += 1
        else:
            st["arr_between"] += 1

    def real_entry_oracle(self, case, a, pre, post, now, val, init_time):
        if pre["un"]:
            # the await has not reported every process source yet (since 8388832): the woken select
            # parks again WITHOUT evaluating anything, whatever the specification says of the sources
            self.counts["reparks_before_all_reported"] += 1
            same = all(post[k] == pre[k] for k in ("sel", "mb", "aw", "un", "err"))
            if not (post["s"] == 1 and post["q"] == 0 and same and val == "-"):
                a["oracle_failures"].append(dict(oracle="reparks-until-every-awaited-process-is-reported",
                                                 pre=_jsonable(pre), post=_jsonable(post)))
            return
        start = pre["sel"]["start"] if pre["sel"]["start"] is not None else now
        aw = {k: v for k, v in pre["aw"]}
        # the verdict the machine is about to pop: a failing filter kills before the entry
        exp = py_spec(case, list(pre["mb"]), aw, start, now)
        q = dict(mb=pre["mb"], aw=pre["aw"], start=start, now=now, py=exp, kind=None)
        if post["sel"] is None and post["err"] is None:
            # completing entry
            q["kind"] = "complete"
            v = None if val in ("-", "?") else real_value(val)
            q["real"] = ("complete", v, list(post["mb"]))
            if exp[0] != "complete" or (v is not None and exp[1] != v) or tuple(exp[2]) != tuple(post["mb"]):
                a["oracle_failures"].append(dict(oracle="select_spec-at-completing-entry", expected=exp, real=q["real"],
                                                 pre=_jsonable(pre), now=now))
            # timeout not early (w.r.t. the first entry of the select)
            if v == ("nil",) and exp[0] == "complete" and exp[1] == ("nil",) and init_time is not None and not a.get("clock_went_back"):
                nil_results = any(vv == ("nil",) for vv in aw.values())
                if not nil_results:
                    self.counts["timeouts_checked_not_early"] += 1
                    ds = [eff_timeout(s["d"]) for s in case["srcs"] if s["kind"] == "timeout"]
                    if not any(max(now - init_time, 0) >= dd for dd in ds) and now >= init_time:
                        a["oracle_failures"].append(dict(oracle="timeout-not-early", now=now, init=init_time, timeouts=ds))
        elif post["err"] is not None:
            q["kind"] = "fail"
            q["real"] = ("fail",)
            # either an invalid source (not generated) or the popped verdict was an error: the spec said
            # Fail at the CALLING entry; nothing to check against this entry's state
            q = None
        elif post["s"] == 1:
            q["kind"] = "wait"
            q["real"] = ("wait",)
            if exp[0] != "wait":
                a["oracle_failures"].append(dict(oracle="parks-only-when-spec-waits", expected=exp, pre=_jsonable(pre), now=now))
        else:
            # called a filter: if that filter is going to fail, the spec must say Fail here
            rv = post["sel"]["recv"]
            if rv is not None:
                vd = case["verdicts"].get((rv[0], rv[1][0], rv[1][1]), ("nil",))
                if vd[0] == "e":
                    q["kind"] = "fail"
                    q["real"] = ("fail",)
                    if exp[0] != "fail":
                        a["oracle_failures"].append(dict(oracle="failing-filter-called-only-when-spec-fails", expected=exp,
                                                         pre=_jsonable(pre), now=now))
                else:
                    q = None
            else:
                q = None
        if q is not None:
            a["spec_queries"].append(q)

    def real_final_oracles(self, case, a):
        fin = a["final"]
        comp = a.get("completion")
        # mailbox conservation on the real run: what was delivered, minus the taken message, in order
        if comp is not None and not case["drain"]:
            taken = comp["value"]
            exp = list(a["delivered"])
            if taken is not None and taken[0] == "m":
                m = (taken[1], taken[2])
                if m in exp:
                    exp.remove(m)
                else:
                    a["oracle_failures"].append(dict(oracle="taken-message-was-delivered", taken=taken))
            if taken is not None and tuple(exp) != tuple(fin["mb"]):
                a["oracle_failures"].append(dict(oracle="untaken-messages-stay-in-order", expected=exp, real=list(fin["mb"])))
        elif comp is None and tuple(a["delivered"]) != tuple(fin["mb"]):
            a["oracle_failures"].append(dict(oracle="uncompleted-select-keeps-every-message", expected=a["delivered"],
                                             real=list(fin["mb"])))
        # final result of the process
        if comp is not None and fin["err"] is None and fin["ok"] is not None:
            got = fin["ok"]
            if case["drain"]:
                ok = isinstance(got, list) and got[0] == "t" and got[1] == "R"
                vals = [real_value(x) for x in got[3:]] if ok else []
                a["drained"] = vals
                if ok and comp["value"] is not None and vals[0] != comp["value"]:
                    a["oracle_failures"].append(dict(oracle="process-result-is-select-value", real=vals[0], value=comp["value"]))
                if ok and comp["value"] is None:
                    comp["value"] = vals[0]
                # the drains (subsequent receives) see exactly the remaining mailbox, in order: what they
                # took, followed by what is still in the mailbox at the end, is everything delivered
                # minus the message the select took
                if ok:
                    exp = list(a["delivered"])
                    tv = vals[0]
                    if tv[0] == "m" and (tv[1], tv[2]) in exp:
                        exp.remove((tv[1], tv[2]))
                    expd = [("m", m[0], m[1]) for m in exp]
                    got_seq = [v for v in vals[1:] if v != ("nil",)] + [("m", m[0], m[1]) for m in fin["mb"]]
                    if got_seq != expd:
                        a["oracle_failures"].append(dict(oracle="subsequent-receives-see-remaining-mailbox", expected=expd, real=got_seq))
            else:
                v = real_value(got)
                if comp["value"] is None:
                    comp["value"] = v
                elif v != comp["value"]:
                    a["oracle_failures"].append(dict(oracle="process-result-is-select-value", real=v, value=comp["value"]))

    def check_spec(self, case, q, line):
        self.counts["spec_evals_on_real"] += 1
        self.counts["spec_evals_" + q["kind"]] += 1
        try:
            s = sexpr.parse(line)
        except Exception:                              # noqa
            s = ["?"]
        if s[0] == "complete":
            got = ("complete", parse_model_value(s[1]), [(int(m[0]), int(m[1])) for m in s[2][1:]])
        elif s[0] == "fail":
            got = ("fail",)
        elif s[0] == "wait":
            got = ("wait",)
        else:
            got = ("?", line)
        py = q["py"]
        py_c = (py[0], py[1], [tuple(m) for m in py[2]]) if py[0] == "complete" else py
        if got != py_c:
            self.disagreements += 1
            self.report(case, "correspondence-broken",
                        dict(correspondence="SelectSpec.v select_spec (extracted) vs its python reading", coq=line,
                             python=_jsonable(py), query=_jsonable(q)), no_input=True)
        real = q["real"]
        bad = False
        if real[0] != got[0]:
            bad = True
        elif real[0] == "complete":
            if (real[1] is not None and real[1] != got[1]) or [tuple(m) for m in real[2]] != got[2]:
                bad = True
        if bad:
            self.report(case, "impl-violation", dict(oracle="extracted-select_spec-on-real-state", coq_spec=line,
                                                     real=_jsonable(real), query=_jsonable(q)))

    def compare_model(self, case, a, mline):
        try:
            m = sexpr.parse(mline)
            dumps = [parse_model_dump(d) for d in m[1:]] if m and m[0] == "run" else None
        except Exception:                              # noqa
            dumps = None
        if dumps is None:
            self.disagreements += 1
            self.report(case, "correspondence-broken", dict(what="model driver output", model=mline[:500]), no_input=not a["oracle_failures"])
            return
        mism = None
        init = dict(q=1, s=0, sel=None, mb=a["mb0"], aw=(), un=(), err=None, val=None, nt=None)
        selected = False
        for cp in a["checkpoints"]:
            if cp["name"] == "to-select":
                selected = True
            if not selected:
                continue
            md = init if cp["nev"] == 0 else (dumps[cp["nev"] - 1] if cp["nev"] - 1 < len(dumps) else dict(panic="missing"))
            rd = cp["real"]
            self.counts["model_states_compared"] += 1
            if "panic" in md:
                mism = ("model panicked / stopped", cp, md)
                break
            keys = ["aw", "sel", "un"]
            if not cp["completed"]:
                keys += ["q", "s", "nt"]
            if not (cp["completed"] and case["drain"]):
                keys.append("mb")             # the drains of the epilogue empty the real mailbox
            bad = [k for k in keys if _norm(rd[k]) != _norm(md[k])]
            # error: class or awaited-k tag; the helper's own error in local mode has no tag
            re_, me_ = rd["err"], md["err"]
            if (re_ is None) != (me_ is None):
                bad.append("err")
            elif re_ is not None and re_ != me_ and not (case["local"] and me_[0] == "aw"):
                bad.append("err")
            if "act_at" in cp and not cp["completed"]:
                self.counts["actions_compared"] += 1
                mact = dumps[cp["act_at"]]["act"] if cp["act_at"] is not None and cp["act_at"] < len(dumps) else None
                if mact != cp["real_act"]:
                    bad.append("act(real %s, model %s)" % (cp["real_act"], mact))
            if cp["completed"] and md["val"] is None:
                bad.append("val(model-not-completed)")
            if not cp["completed"] and md["val"] is not None:
                bad.append("val(model-completed-early)")
            if bad:
                mism = (bad, cp, md)
                break
        comp = a.get("completion")
        if mism is None and comp is not None and comp["value"] is not None:
            last = dumps[-1] if dumps else init
            if last["val"] != comp["value"]:
                mism = (["value"], dict(real=comp["value"], opi=-1, name="completion"), last)
        if mism is not None:
            self.disagreements += 1
            bad, cp, md = mism
            self.report(case, "impl-violation" if a["oracle_failures"] else "correspondence-broken",
                        dict(differs=bad, at_op=cp.get("opi"), record=cp.get("name"), real=_jsonable(cp.get("real")),
                             model=_jsonable(md), model_line="(sel ... (evs %s))" % " ".join(a["events"]),
                             oracle=(a["oracle_failures"][0]["oracle"] if a["oracle_failures"] else None),
                             oracle_failures=_jsonable(a["oracle_failures"][:3])),
                        no_input=not a["oracle_failures"])
        elif a["oracle_failures"]:
            f = a["oracle_failures"][0]
            self.report(case, "impl-violation", dict(oracle=f["oracle"], oracle_failures=_jsonable(a["oracle_failures"][:3])))
        # F45: the process was killed by the failure of a process it no longer awaits
        ka = a.get("killed_after")
        if ka is not None:
            self.f45_hits += 1
            self.report(case, "impl-violation",
                        dict(oracle="no-kill-by-a-process-no-longer-awaited", killed_by=ka["k"], path=ka["how"],
                             select_value=_jsonable(ka["value"]),
                             what="the select had completed (or none was active) when the failure of awaited process %d killed the process" % ka["k"]),
                        finding_key="F45")

    def account(self, case, a):
        st = a["stats"]
        c = self.counts
        c["ops"] += len(case["ops"])
        c["entries"] += st["entries"]
        c["filter_calls"] += st["filter_calls"]
        c["arrival_between_reentries"] += 1 if st["arr_between"] else 0
        c["arrival_in_filter"] += 1 if st["arr_in_filter"] else 0
        c["arrival_after_parking"] += 1 if st["arr_parked"] else 0
        c["arrival_before_select"] += 1 if st["arr_before"] else 0
        c["clock_back_steps"] += st["clock_back"]
        c["multi_entry_steps"] += st["multi_entry"]
        c["failures_delivered"] += st["failures"]
        c["local_cases"] += 1 if case["local"] else 0
        c["drained"] += 1 if case["drain"] else 0
        if a.get("refcounts") == "violated":
            c["refcount_violations_seen"] += 1
        kinds = features(case)
        self.bump("source_kinds", kinds)
        self.bump("nsrc", len(case["srcs"]))
        self.bump("msgs_in_mailbox", len(a["delivered"]))
        for op in case["ops"]:
            if op[0] == "step":
                self.bump("quantum", op[1])
        fin = a["final"]
        comp = a.get("completion")
        if fin["err"] is not None and comp is None:
            out = "failed:" + ("awaited" if fin["err"][0] == "aw" or case["local"] else "filter")
        elif comp is not None:
            v = comp["value"]
            out = "completed"
            by = "?"
            if v is not None:
                if v[0] == "m":
                    by = "receive"
                elif v[0] == "v":
                    by = "process"
                else:
                    by = "timeout" if not any(vv == ("nil",) for _, vv in (comp["pre"]["aw"] if comp.get("pre") else ())) else "timeout-or-nil-result"
            self.bump("completed_by", by)
        else:
            out = "waiting"
        self.bump("outcome", out)
        nontrivial = len({s["kind"] for s in case["srcs"]}) >= 2 or st["arr_between"] > 0
        if nontrivial:
            self.nontrivial.add(hashlib.sha1(harness_line(case, False).encode()).hexdigest())
        if len(self.samples) < 6 and nontrivial and comp is not None:
            self.samples.append(dict(source=render_source(case), ops=[render_op(o, self.fixed45) for o in case["ops"]],
                                     outcome=out, value=_jsonable(comp["value"]), completed_at=comp["now"],
                                     mailbox_after=_jsonable(list(fin["mb"]))))


def _norm(x):
    if isinstance(x, dict):
        return {k: _norm(v) for k, v in x.items()}
    if isinstance(x, (list, tuple)):
        return [_norm(v) for v in x]
    return x


def _jsonable(x):
    if isinstance(x, dict):
        return {str(k): _jsonable(v) for k, v in x.items()}
    if isinstance(x, (list, tuple, set)):
        return [_jsonable(v) for v in x]
    return x


# ------------------------------------------------------------------ twins: the verdict is only a verdict
def twin_safe(case):
    """A copy of the history in which every step starts at an entry boundary (an `ff` before each
    step), so that the length of a filter body cannot change which instruction a blind step hits."""
    c = dict(case)
    ops = []
    for o in case["ops"]:
        if o[0] == "step":
            ops.append(("ff", o[2]))
        ops.append(o)
    c["ops"] = ops
    return c


def twin_of(rng, case):
    t = dict(case)
    t["verdicts"] = {k: (("t", v[1] + 1 + rng.randrange(len(TRUTHY) - 1)) if v[0] == "t" else v) for k, v in case["verdicts"].items()}
    return t


def strip_for_twin(out):
    """everything observable except the filter's own stack traffic (fr/st counters, instruction counts)"""
    import re
    out = re.sub(r"\(n \d+\)|\(fr \d+\)|\(st \d+\)|\(silent \d+\)|\(fr \d+ \d+\)|\(steps \d+\)", "", out)
    return out


# ------------------------------------------------------------------ F8: the environment's await protocol
def gen_env_case(rng):
    nw = rng.randint(2, 3)
    nt = rng.randint(2, 4)
    targets = list(range(1, nt + 1))
    rng.shuffle(targets)
    owner = {p: p % nw for p in targets}          # Environment::start_process routes pid % workers
    workers = sorted(set(owner.values()))
    finished = {p: rng.random() < 0.4 for p in targets}
    evs = []
    # each expected worker answers the query once; finished targets may get a later single-target answer
    first = {w: [(p, 10 * p + 1 if finished[p] else None) for p in targets if owner[p] == w] for w in workers}
    order = list(workers)
    rng.shuffle(order)
    queue = [(w, first[w]) for w in order]
    later = []
    for p in targets:
        if not finished[p] and rng.random() < 0.6:
            later.append((owner[p], [(p, 10 * p + 3)]))
    rng.shuffle(later)
    # interleave: a later answer of worker w must come after w's first answer
    seq = []
    answered = set()
    while queue or later:
        cands = []
        if queue:
            cands.append("q")
        if any(w in answered for w, _ in later):
            cands.append("l")
        c = rng.choice(cands) if cands else "q"
        if c == "q":
            w, a = queue.pop(0)
            answered.add(w)
            seq.append((w, a))
        else:
            i = next(i for i, (w, _) in enumerate(later) if w in answered)
            seq.append(later.pop(i))
    return dict(workers=nw, owner=owner, targets=targets, expected=workers, evs=seq)


def env_line(ec, merge):
    evs = " ".join("(%d %s)" % (w, " ".join("(%d %s)" % (p, "-" if v is None else v) for p, v in a)) for w, a in ec["evs"])
    return "(env %d (expected %s) (evs %s) (targets %s))" % (1 if merge else 0, " ".join(map(str, ec["expected"])), evs,
                                                             " ".join(map(str, ec["targets"])))


def env_real_line(ec):
    evs = " ".join("(%d %s)" % (w, " ".join("(%d %s)" % (p, "-" if v is None else v) for p, v in a)) for w, a in ec["evs"])
    own = " ".join("(%d %d)" % (p, w) for p, w in sorted(ec["owner"].items()))
    return "(env (workers %d) (owner %s) (targets %s) (evs %s))" % (ec["workers"], own, " ".join(map(str, ec["targets"])), evs)


def run_env(ctx, qs, drv, cov):
    """The await protocol on the REAL Environment (fake worker handles; qv_select --env) vs the model with
    merge on/off; oracle: what reaches the awaiter contains, for every target, the latest answer given."""
    n = ctx.n(300, 5000)
    cases = [dict(workers=2, owner={1: 1, 2: 0, 3: 1}, targets=[1, 3, 2], expected=[0, 1],
                  evs=[(1, [(1, 11), (3, None)]), (1, [(3, 33)]), (0, [(2, None)])])]
    cases += [gen_env_case(ctx.rng) for _ in range(n)]
    rc, real = ctx.run_bin(qs, [env_real_line(c) for c in cases], args=["--env"])
    _, m0 = ctx.run_bin(drv, [env_line(c, False) for c in cases])
    _, m1 = ctx.run_bin(drv, [env_line(c, True) for c in cases])
    lost = agree0 = agree1 = 0
    first_lost = None
    for c, r, a0, a1 in zip(cases, real, m0, m1):
        try:
            rp = sexpr.parse("(x %s)" % r)
            p0 = sexpr.parse("(x %s)" % a0)
            p1 = sexpr.parse("(x %s)" % a1)
        except Exception:                              # noqa
            ctx.violation(dict(kind="correspondence-broken", correspondence="await protocol", real=r, model=a0), no_input=True)
            continue
        rdel = sorted((x[0], x[1]) for x in field(rp, "delivered")[1:])
        d0 = sorted((x[0], x[1]) for x in field(p0, "delivered")[1:])
        d1 = sorted((x[0], x[1]) for x in field(p1, "delivered")[1:])
        latest = {x[0]: x[1] for x in field(p1, "latest")[1:]}
        agree0 += rdel == d0
        agree1 += rdel == d1
        got = dict(rdel)
        missing = [p for p, v in latest.items() if v not in ("none",) and got.get(p) != v]
        if missing:
            lost += 1
            if first_lost is None:
                first_lost = dict(case=_jsonable(c), real=r, lost_targets=missing)
    fixed8 = agree1 == len(cases) and lost == 0
    cov["await_protocol"] = dict(cases=len(cases), real_agrees_with_merging_model=agree1,
                                 real_agrees_with_replacing_model_F8=agree0,
                                 histories_losing_an_answer_on_real_code=lost, real_code_merges=fixed8,
                                 must_pass_probe="w1:{p1:11,p3:-} w1:{p3:33} w0:{p2:-} of `! [p1, p3, p2]` (first case)")
    if not fixed8:
        # F8 is fixed in /repo (5c787ac): the real Environment must behave like the MERGING model
        # (theorem C05_await_protocol_delivers_all); anything else is a violation again
        if lost:
            ctx.violation(dict(kind="impl-violation", oracle="await-protocol-delivers-the-latest-answer-of-every-target",
                               theorem="C05_await_protocol_delivers_all", lost_histories=lost, **(first_lost or {})),
                          finding_key="F8")
        else:
            ctx.violation(dict(kind="correspondence-broken", correspondence="SelectSpec.v handle_process_results (merge) vs environment.rs",
                               agree_merge=agree1, agree_replace=agree0, n=len(cases)), no_input=True)
    return fixed8


# ------------------------------------------------------------------ exhaustive small scope (thorough)
def small_scope_cases():
    """<= 3 sources over a 4-letter alphabet, <= 3 messages, <= 2 arrivals at the 3 arrival points."""
    import itertools
    alphabet = [dict(kind="proc", k=0), dict(kind="recv", classes=(0,), type_only=False),
                dict(kind="recv", classes=(0, 1), type_only=True), dict(kind="timeout", d=5)]
    msgs = [(1, 0), (2, 1), (3, 0)]
    out = []
    for n in (1, 2, 3):
        for combo in itertools.product(range(4), repeat=n):
            srcs = [dict(alphabet[i]) for i in combo]
            nrecv_f = [j for j, s in enumerate([s for s in srcs if s["kind"] == "recv"]) if not s["type_only"]]
            for nm in range(0, 4):
                mb = msgs[:nm]
                # verdict patterns for filter sources on the class-0 messages: all-accept, all-reject, reject-first
                for vp in (["acc", "rej", "first"] if nrecv_f else ["acc"]):
                    verdicts = {}
                    for r in nrecv_f:
                        c0 = [m for m in msgs if m[1] == 0]
                        for j, m in enumerate(c0):
                            if vp == "acc" or (vp == "first" and j > 0):
                                verdicts[(r, m[0], m[1])] = ("t", j)
                            else:
                                verdicts[(r, m[0], m[1])] = ("nil",)
                    arrs = [("msg", (9, 0)), ("res", 0, 1001)] if any(s["kind"] == "proc" for s in srcs) else [("msg", (9, 0))]
                    for r in verdicts and nrecv_f:
                        verdicts[(r, 9, 0)] = ("t", 1)
                    # arrival points: 0 = before the select, 1 = between entries (after the first pass), 2 = after parking/drive
                    for na in (0, 1, 2):
                        for pts in itertools.product(range(3), repeat=na):
                            for which in itertools.product(range(len(arrs)), repeat=na):
                                if len(set(which)) != len(which):
                                    continue
                                ops = [("msg", m) for m in mb]
                                ops += [arrs[w] for p, w in zip(pts, which) if p == 0 and arrs[w][0] == "msg"]
                                ops.append(("to-select", 0))
                                ops.append(("step", 1, 0))
                                ops.append(("step", 1, 0))
                                ops += [arrs[w] for p, w in zip(pts, which) if p == 1 or (p == 0 and arrs[w][0] != "msg")]
                                ops.append(("drive", 1, 10))
                                ops += [arrs[w] for p, w in zip(pts, which) if p == 2]
                                ops.append(("drive", 6, 10))
                                ops.append(("finish", 6, 300))
                                out.append(dict(srcs=srcs, verdicts=dict(verdicts), local=False, drain=0, ops=ops, universe=mb))
    return out


# ------------------------------------------------------------------ entry point
def corpus_cases():
    p = os.path.join(VERIF, "corpus", "c05_histories.txt")
    out = []
    if os.path.exists(p):
        for line in open(p):
            line = line.strip()
            if line and not line.startswith("#"):
                c = json.loads(line)
                c["srcs"] = [dict(s, classes=tuple(s["classes"])) if s["kind"] == "recv" else s for s in c["srcs"]]
                c["verdicts"] = {tuple(int(x) for x in k.split(",")): tuple(v) for k, v in c["verdicts"].items()}
                c["ops"] = [tuple(tuple(x) if isinstance(x, list) else x for x in o) for o in c["ops"]]
                out.append(c)
    return out


def case_to_corpus(case):
    c = dict(case)
    c["verdicts"] = {",".join(map(str, k)): list(v) for k, v in case["verdicts"].items()}
    return json.dumps(_jsonable(c), sort_keys=True)


def probe_fixed45(ctx, qs):
    rc, out = ctx.run_bin(qs, ['"p0 = @{ !\'int }, ! [p0, 0]" (ops (to-select 0) (step 1 0) (report 0) (active) (drive 3 10) (finish 3 100))'])
    try:
        recs, _ = split_records(sexpr.parse(out[0]))
        fin = parse_real_dump(field(recs[-1][1], "d"))
        return len(fin["aw"]) == 0
    except Exception:                                  # noqa
        return False


F72_SOURCE = "p1 = @#{ 11 }, p3 = @#{ !#'int, 33 }, !p1 =first, 1 p3, [first, ! [p1, p3]]"
F45_SOURCE = "p = @{ !'int, [1, 0] __integer_divide__ }, ! [p, 10] =a, 1 p, ! [50] =b, 42"


def run_probes(ctx, cov):
    """Must-pass probes on the REAL Environment + Workers (harness qv_equal --run N): the reproducers of
    the fixed findings F72 (a multi-target await completed with a lower-priority result) and F45."""
    qe = ctx.harness("qv_equal")
    if not qe:
        return
    res = {}
    for name, src, want in (("F72", F72_SOURCE, "(ok (t - (- -) (i 11) (i 11)))"), ("F45", F45_SOURCE, "(ok (i 42))")):
        for nw in (1, 2, 3):
            rc, out = ctx.run_bin(qe, [sexpr.quote(src)], args=["--run", str(nw)], timeout=120)
            got = out[0] if out else "(no output)"
            res["%s/%d workers" % (name, nw)] = got
            if got != want:
                ctx.violation(dict(kind="impl-violation", oracle="must-pass probe %s" % name, source=src, workers=nw,
                                   expected=want, real=got,
                                   theorem="C05_completes_only_after_all_reported / C05_reparks_until_all_reported" if name == "F72"
                                   else "C05_completed_select_survives_repaired"), finding_key=name)
    cov["must_pass_probes"] = res


def run(ctx):
    ok = ctx.coq_props()
    qs = ctx.harness("qv_select")
    drv = ctx.driver("select")
    if not qs or not drv:
        return
    fixed45 = probe_fixed45(ctx, qs)
    runner = Runner(ctx, qs, drv, fixed45)
    if getattr(ctx, "replay_path", None):
        rep = json.load(open(ctx.replay_path))
        if rep.get("case"):
            c = rep["case"]
            c["srcs"] = [dict(s, classes=tuple(s["classes"])) if s["kind"] == "recv" else s for s in c["srcs"]]
            c["verdicts"] = {tuple(int(x) for x in k.strip("()").replace(" ", "").split(",")): tuple(v) for k, v in c["verdicts"].items()}
            c["ops"] = [tuple(tuple(x) if isinstance(x, list) else x for x in o) for o in c["ops"]]
            runner.batch([c])
            ctx.cov.update({"evaluations": 1, "replayed": ctx.replay_path, "disagreements_checked": runner.disagreements})
        return
    fixed8 = run_env(ctx, qs, drv, ctx.cov)
    run_probes(ctx, ctx.cov)
    corpus = corpus_cases()
    if corpus:
        runner.batch(corpus)
    total = ctx.n(1500, 40000)
    done = 0
    twins_checked = twin_diffs = 0
    while done < total:
        size = min(2000, total - done)
        cases = [gen_case(ctx.rng) for _ in range(size)]
        runner.batch(cases)
        # twins: same case, different non-nil filter results -> identical observable run
        tw = [(twin_safe(c), twin_of(ctx.rng, twin_safe(c))) for c in cases[:max(40, size // 5)]
              if not c["local"] and any(v[0] == "t" for v in c["verdicts"].values())]
        if tw:
            _, o1 = ctx.run_sharded(qs, [harness_line(c, fixed45) for c, _ in tw])
            _, o2 = ctx.run_sharded(qs, [harness_line(t, fixed45) for _, t in tw])
            for (c, t), a, b in zip(tw, o1, o2):
                twins_checked += 1
                if strip_for_twin(a) != strip_for_twin(b):
                    twin_diffs += 1
                    runner.report(c, "impl-violation", dict(oracle="verdict-is-only-a-verdict (twin runs differ)",
                                                            twin_source=render_source(t), real=a[:1500], twin=b[:1500]))
        done += size
    exhaustive = False
    if ctx.tier == "thorough":
        ss = small_scope_cases()
        for i in range(0, len(ss), 4000):
            runner.batch(ss[i:i + 4000])
        exhaustive = True
        ctx.cov["small_scope_cases"] = len(ss)
    runner.counts["twins"] = twins_checked
    ctx.cov.update({
        "evaluations": runner.n, "distinct_nontrivial": len(runner.nontrivial),
        "rule": "one history = (<=4 sources of kinds process/receive/timeout, receive sources with a table-driven filter or body-less, <=8 messages of 3 type classes, arrival points before the select / between re-entries / inside a filter run / after parking / after completion, clock pattern incl. jumps to the timeouts and backward steps, quanta 1/2/3/1000); non-trivial = at least two source kinds OR an arrival between re-entries; distinct by SHA-1 of (program, history)",
        "samples": runner.samples,
        "traces_validated_against_impl": runner.n - runner.disagreements,
        "disagreements_checked": runner.disagreements,
        "oracle_failures": runner.oracle_failures,
        "exhaustive": exhaustive,
        "real_code_has_F45_repair": fixed45, "real_code_has_F8_repair": fixed8,
        "histories_where_a_stale_await_killed_the_process": runner.f45_hits,
        "twin_runs_differing": twin_diffs,
        "histories_with_arrival_between_reentries": runner.counts["arrival_between_reentries"],
        "histories_with_arrival_inside_filter_run": runner.counts["arrival_in_filter"],
        "histories_with_arrival_after_parking": runner.counts["arrival_after_parking"],
        "histories_with_arrival_before_select": runner.counts["arrival_before_select"],
        "counts": runner.counts,
        **{"hist_" + k: v for k, v in runner.hist.items()},
    })
    if not ok:
        ctx.violation({"kind": "theorem-broken", "theorem": getattr(ctx, "broken_theorem", "?"),
                       "searched": "%d histories on the real executor: %d oracle failures, %d disagreements with the model"
                                   % (runner.n, runner.oracle_failures, runner.disagreements)},
                      no_input=(runner.oracle_failures == 0))
