"""C02 generator: type-directed random programs of Quiver's core sequential language.

Every program is meant to be ACCEPTED by the real compiler (the check filters by the real compile
outcome anyway) and to stay inside the fragment modelled by coq/theories/lang/Lang.v:

  * no processes / select / spawn / resources / refs, only the builtins the evaluator models;
  * no `#{..}` literal with a context-inferred parameter (`$` never occurs in a `#{ }` literal);
  * a variable that is *called* always has a function type, one that is not never does (the
    spec's "callable variables are called" is decided statically by the compiler and
    dynamically by the evaluator; they coincide when no variable has a union/variable type
    mixing callables and non-callables);
  * the known typing defects are avoided by construction:
      F27 (a bare binder of a possibly-nil value is typed non-nil): `x = e` / `e =x` is only
          generated for `e` that is never nil; binders of a match that FAILED (which hold nil,
          reading R3) are only observed by embedding them in a tuple, never tested or used as
          arguments;
      F13 (nil let through a later type test after narrowing): type patterns `='t` are only
          applied to values whose static type has no nil member.

  * findings of THIS property (all repaired in /repo; reproducers are regression probes in
    corpus/c02_probes.txt): F53c02/F76 and F75 shapes are generated again (re-binding of any value
    name, also from a field of itself; function variables in the added fields of a spread tuple).
    Still not generated: an UNNAMED `*` on a union-typed scrutinee (reading R15 of Lang.v is exact
    only when no outer binding is named like a label of another variant; `Name*` is used), and a
    label name bound twice by `(x)`/`*` patterns.

The emphasis follows the property text: failing mid-chain matches followed by variable uses,
matches inside tuple fields and string holes, blocks inside consequences, `~` at depth, spreads,
closures over rebinding, tail calls (`^`, `^f`, `^~`), nil short-circuit between steps.

A type is one of: "int", "bin", "str", ("tup", name|None, ((label|None, type), ..)),
("fn", param_type|"nil", result_type), ("alias", name) (a union of named-tuple variants)."""

INT, BIN, STR = "int", "bin", "str"
NAMES = ["A", "B", "C", "P", "Q", "Box", "Pt"]
LABELS = ["x", "y", "z", "k", "w"]
VARS = ["a", "b", "c", "d", "e", "m", "n", "p", "q", "r", "s", "t", "u", "v"]


def tup(name, fields):
    return ("tup", name, tuple(fields))


def ty_src(t):
    if t == INT: return "'int"
    if t == BIN: return "'bin"
    if t == STR: return "Str['bin]"
    if t == "nil": return "[]"
    if t[0] == "tup":
        inner = ", ".join((l + ": " if l else "") + ty_src(ft) for l, ft in t[2])
        if t[1] and not t[2]:
            return t[1]
        return (t[1] or "") + "[" + inner + "]"
    if t[0] == "alias":
        return "'" + t[1]
    if t[0] == "fn":
        return "#" + ty_src(t[1]) + " -> " + ty_src(t[2])
    raise ValueError(t)


def param_src(t):
    """parameter position of a function literal: `#<here> { .. }`"""
    if t == "nil":
        return "[]"
    if t[0] == "fn":
        return "(" + ty_src(t) + ")"
    return ty_src(t)


class Gen:
    def __init__(self, rng, stats=None):
        self.rng = rng
        self.fresh = 0
        self.aliases = {}          # name -> [variant tuple types]
        self.stats = stats if stats is not None else {}
        self.param = None          # type of `$` (None at top level)
        self.self_fn = None        # ("fn", p, r) of the function being defined, for `^`
        self.budget = rng.choice([25, 40, 60, 90, 140])      # expression nodes per program
        self.bound_labels = set()  # label names already bound as variables by a `(x)` / `*` pattern

    # ------------------------------------------------------------------ helpers
    def note(self, k):
        self.stats[k] = self.stats.get(k, 0) + 1

    def var(self):
        self.fresh += 1
        return self.rng.choice(VARS) + str(self.fresh)

    def pick(self, xs):
        return self.rng.choice(xs)

    def chance(self, p):
        return self.rng.random() < p

    def rand_scalar(self):
        return self.pick([INT, INT, INT, BIN, STR])

    def rand_tuple_type(self, depth=0):
        n = self.rng.randint(1, 3)
        name = self.pick(NAMES + [None, None])
        labelled = self.chance(0.5)
        labels = self.rng.sample(LABELS, n) if labelled else [None] * n
        fs = []
        for l in labels:
            ft = self.rand_scalar() if depth > 0 or self.chance(0.7) else self.rand_tuple_type(depth + 1)
            fs.append((l, ft))
        return tup(name, fs)

    def rand_type(self):
        r = self.rng.random()
        if r < 0.45: return self.rand_scalar()
        if r < 0.85 or not self.aliases: return self.rand_tuple_type()
        return ("alias", self.pick(sorted(self.aliases)))

    def vars_of(self, env, t):
        return [x for x, vt in env if vt == t and all(y != x for y, _ in env[:env.index((x, vt))])]

    def lookup_latest(self, env):
        """visible bindings: the newest binding of each name (env is newest first)"""
        seen, out = set(), []
        for x, t in env:
            if x not in seen:
                seen.add(x)
                out.append((x, t))
        return out

    @staticmethod
    def matched_on(x, text):
        """was `x` (or a field of it) used as the subject of a match so far?  Re-binding a name
        with a recorded narrowing is the known finding F53c02: such names are not re-bound."""
        import re
        return re.search(r"(?<![\w.])" + re.escape(x) + r"(?:\.\w+)*\s*(?:\{|=[^>=\s])", text) is not None \
            or re.search(r"&" + re.escape(x) + r"\b", text) is not None

    def scalar_vars(self, env):
        return [(x, t) for x, t in self.lookup_latest(env) if t in (INT, BIN, STR)]

    # ------------------------------------------------------------------ literals
    def lit(self, t):
        r = self.rng
        if t == INT:
            return str(r.choice([0, 1, 2, 3, 5, 7, 10, -1, -4, 42, 100, 2**40, -(2**70)]) if r.random() < 0.8 else r.randint(-50, 50))
        if t == BIN:
            return "0x" + "".join("%02x" % r.getrandbits(8) for _ in range(r.randint(0, 3)))
        if t == STR:
            return '"' + "".join(r.choice("abcxyz 09_-") for _ in range(r.randint(0, 4))) + '"'
        if t[0] == "tup":
            if t[1] and not t[2]:
                return t[1]
            return (t[1] or "") + "[" + ", ".join((l + ": " if l else "") + self.lit(ft) for l, ft in t[2]) + "]"
        if t[0] == "alias":
            return self.lit(self.pick(self.aliases[t[1]]))
        if t[0] == "fn":
            return self.fn_literal(t, [], 0)
        raise ValueError(t)

    # ------------------------------------------------------------------ expressions of a wanted type
    # `flow`: static type of the value flowing into the chain (None: unknown/irrelevant: nil at the
    # start of a program).  Returns the source of ONE CHAIN that evaluates to a non-nil `want`.
    def expr(self, want, env, flow, depth):
        r = self.rng
        self.budget -= 1
        if self.budget <= 0:
            depth = 99                      # size budget exhausted: only leaves from here on
        vis = self.lookup_latest(env)
        opts = [("lit", 2)]
        if any(vt == want for _, vt in vis): opts.append(("var", 5))
        if flow == want: opts.append(("ripple", 4))
        if flow is not None and flow != want and isinstance(flow, tuple) and flow[0] == "tup" and any(ft == want for _, ft in flow[2]):
            opts.append(("ripple_field", 4))
        if self.param is not None:
            if self.param == want: opts.append(("param", 3))
            elif isinstance(self.param, tuple) and self.param[0] == "tup" and any(ft == want for _, ft in self.param[2]):
                opts.append(("param_field", 4))
        if any(isinstance(vt, tuple) and vt[0] == "tup" and any(ft == want for _, ft in vt[2]) for _, vt in vis):
            opts.append(("var_field", 3))
        if depth < 4:
            if want == INT: opts += [("arith", 5), ("binlen", 1)]
            if want == BIN: opts.append(("concat", 3))
            if want == STR: opts.append(("interp", 5))
            if isinstance(want, tuple) and want[0] == "tup":
                opts.append(("build", 6))
                if want[2]: opts.append(("spread", 5))
            if isinstance(want, tuple) and want[0] == "alias": opts.append(("variant", 6))
            if isinstance(want, tuple) and want[0] == "fn": opts.append(("fnlit", 6))
            opts += [("block", 5), ("pipe", 4), ("match_then", 3), ("field_of_built", 1)]
            if any(isinstance(vt, tuple) and vt[0] == "fn" and vt[2] == want for _, vt in vis):
                opts.append(("call", 7))
        kind = self.weighted(opts)
        if depth < 4 and self.chance(0.07):
            # a block around the chain: redundant (spliced by simplify.rs) when the chain binds
            # nothing, a real scope otherwise
            self.note("wrapped_in_block")
            return "{ " + self.expr(want, list(env), flow, depth + 1) + " }"
        if kind == "lit":
            return self.lit(want) if not (isinstance(want, tuple) and want[0] == "fn") else self.fn_literal(want, env, depth)
        if kind == "var":
            x = r.choice([x for x, vt in vis if vt == want])
            return ("&" + x) if isinstance(want, tuple) and want[0] == "fn" else x
        if kind == "ripple":
            self.note("ripple")
            return "~"
        if kind == "ripple_field":
            self.note("ripple_field")
            return "~" + self.accessor(flow, want)
        if kind == "param":
            return "$"
        if kind == "param_field":
            acc = self.accessor(self.param, want)
            return "$" + (acc if r.random() < 0.5 else acc[1:])       # `$.x` or the sugar `$x`
        if kind == "var_field":
            x, vt = r.choice([(x, vt) for x, vt in vis if isinstance(vt, tuple) and vt[0] == "tup" and any(ft == want for _, ft in vt[2])])
            if isinstance(want, tuple) and want[0] == "fn":
                return "&" + x + self.accessor(vt, want)
            return x + self.accessor(vt, want)
        if kind == "arith":
            op = r.choice(["add", "add", "subtract", "multiply", "compare", "gcd"])
            return "[%s, %s] __integer_%s__" % (self.expr(INT, env, flow, depth + 1), self.expr(INT, env, flow, depth + 1), op)
        if kind == "binlen":
            return "%s __binary_length__" % self.expr(BIN, env, flow, depth + 1)
        if kind == "concat":
            return "[%s, %s] __binary_concat__" % (self.expr(BIN, env, flow, depth + 1), self.expr(BIN, env, flow, depth + 1))
        if kind == "interp":
            return self.interp(env, flow, depth)
        if kind == "build":
            return self.build(want, env, flow, depth)
        if kind == "spread":
            return self.spread(want, env, flow, depth)
        if kind == "variant":
            return self.expr(self.pick(self.aliases[want[1]]), env, flow, depth + 1)
        if kind == "fnlit":
            return self.fn_literal(want, env, depth)
        if kind == "block":
            return self.block(want, env, flow, depth)
        if kind == "pipe":
            # produce something, then transform it: the second chain part sees it as `~`
            mid = self.rand_type()
            self.note("pipe")
            return "%s %s" % (self.expr(mid, env, flow, depth + 1), self.term(want, env, mid, depth + 1))
        if kind == "match_then":
            return self.match_then(want, env, flow, depth)
        if kind == "field_of_built":
            t = self.rand_tuple_type()
            i = r.randrange(len(t[2]))
            fs = list(t[2]); fs[i] = (fs[i][0], want)
            t = tup(t[1], fs)
            return "%s %s" % (self.build(t, env, flow, depth + 1), self.accessor(t, want, idx=i))
        if kind == "call":
            f, ft = r.choice([(x, vt) for x, vt in vis if isinstance(vt, tuple) and vt[0] == "fn" and vt[2] == want])
            self.note("call")
            if ft[1] == "nil":
                return f if r.random() < 0.5 else "%s %s" % (self.expr(self.rand_scalar(), env, flow, depth + 1), f)
            return "%s %s" % (self.expr(ft[1], env, flow, depth + 1), f)
        raise ValueError(kind)

    def weighted(self, opts):
        total = sum(w for _, w in opts)
        x = self.rng.random() * total
        for k, w in opts:
            x -= w
            if x <= 0:
                return k
        return opts[-1][0]

    def accessor(self, t, want, idx=None):
        cands = [i for i, (l, ft) in enumerate(t[2]) if ft == want] if idx is None else [idx]
        i = self.rng.choice(cands)
        l = t[2][i][0]
        return "." + (l if l and self.rng.random() < 0.7 else str(i))

    def term(self, want, env, flow, depth):
        """a single TERM (not starting a new value from nothing) that turns `flow` into `want`"""
        s = self.expr(want, env, flow, depth)
        # a multi-term chain is not a term: wrap it in a block (which also receives the flow)
        if " " in s.strip() and not (s.startswith("[") and s.endswith("]") and self.balanced(s)) and not (s.startswith("{") and s.endswith("}") and self.balanced(s)) and not (s.startswith('"') and s.endswith('"') and s.count('"') == 2):
            return "{ " + s + " }"
        return s

    @staticmethod
    def balanced(s):
        """is s one bracketed group (its first bracket closes at its end)?"""
        depth, instr = 0, False
        for i, ch in enumerate(s):
            if ch == '"':
                instr = not instr
            if instr:
                continue
            if ch in "[{(":
                depth += 1
            elif ch in "]})":
                depth -= 1
                if depth == 0 and i != len(s) - 1:
                    return False
        return depth == 0

    def build(self, want, env, flow, depth):
        """tuple literal; fields see the flowing value; some fields contain matches (R7)"""
        if want[1] and not want[2]:
            return want[1]
        parts = []
        env2 = list(env)
        for l, ft in want[2]:
            src = self.expr(ft, env2, flow, depth + 1)
            if depth < 3 and self.chance(0.12):
                # a successful match inside a field: binds a variable visible in later fields,
                # and the field value itself is produced after a `,`? no: a field is ONE chain,
                # so bind with an in-chain match and rebuild the value from the binder
                x = self.var()
                src = "%s =%s %s" % (src, x, ("&" + x) if isinstance(ft, tuple) and ft[0] == "fn" else x)
                env2.insert(0, (x, ft))
                self.note("match_in_field")
            parts.append((l + ": " if l else "") + src)
        env[:] = env2          # bindings made inside fields persist (a field is not a scope)
        return (want[1] or "") + "[" + ", ".join(parts) + "]"

    def spread(self, want, env, flow, depth):
        """build `want` by spreading a prefix tuple (a variable or the flowing value) and
        adding / overriding fields"""
        r = self.rng
        fields = list(want[2])
        self.note("spread")
        k = r.randint(1, len(fields))
        base_fields, rest = fields[:k], fields[k:]
        base_name = r.choice([want[1], r.choice(NAMES), None])
        base_t = tup(base_name, base_fields)
        via_var = r.random() < 0.5
        # what the added fields see as `~`: the spread base (flow form) / the binding's Ok (var form)
        # (the real compiler rejects `~.field` inside a tuple with a bare `...`: FeatureUnsupported,
        # so the added fields of the flow form do not refer to the flow either)
        fflow = None
        # a callable that starts a field of a tuple containing a spread is not applied by the real
        # compiler (reported from this check): no function variables in scope for these fields
        # (F75, repaired in /repo 5ce1e95: function variables are allowed here again)
        env_nf = env
        extras = [(l + ": " if l else "") + self.expr(ft, env_nf, fflow, depth + 1) for l, ft in rest]
        labelled = [(l, ft) for l, ft in base_fields if l]
        if labelled and r.random() < 0.5:
            l, ft = r.choice(labelled)                     # override: stays in place
            extras.append(l + ": " + self.expr(ft, env_nf, fflow, depth + 1))
            self.note("spread_override")
        extra = "".join(", " + e for e in extras)
        # F93 (real compiler): a name-INHERITING spread (`~[...]`, `x[...]`) resolves the name from the
        # STATIC type of its source and silently yields an unnamed tuple when that type is a union
        # (spec l.272/l.286: "preserves name").  Free generation gives the inheriting forms of a NAMED
        # tuple a source whose static type is a plain tuple (a literal); the reproducers are corpus lines.
        inherit = want[1] == base_name and r.random() < (0.5 if via_var else 0.6)
        if inherit and want[1] is not None:
            base_src = self.build(base_t, env, flow, depth + 1)
        elif not inherit and r.random() < 0.25:
            # an EXPLICITLY named / unnamed spread over a source whose static type is a UNION
            # (a block with a branch of another tuple type that is not taken)
            self.note("spread_over_union_source")
            lit = self.build(base_t, list(env), None, depth + 1)
            if r.random() < 0.75:
                # the same fields under another name (later accesses to the result stay typable)
                other = self.build(tup(r.choice([n for n in NAMES if n != base_name]), base_fields), list(env), None, depth + 1)
            else:
                other = r.choice(NAMES) + r.choice(["", "[0]", "[k: 1]"])
            kk = r.randint(0, 9)
            if r.random() < 0.5:
                base_src = "%d { =%d => %s | %s }" % (kk, kk, lit, other)
            else:
                base_src = "%d { =%d => %s | %s }" % (kk + 1, kk, other, lit)
        else:
            base_src = self.expr(base_t, env, flow, depth + 1)
        if via_var:
            x = self.var()
            if inherit:
                tuple_src = x + "[..." + extra + "]"                      # inherits x's name
            else:
                tuple_src = (want[1] or "") + "[..." + x + extra + "]"
            return "{ %s = %s, %s }" % (x, base_src, tuple_src)
        if inherit:
            tuple_src = "~[..." + extra + "]"                             # inherits the flow's name
        else:
            tuple_src = (want[1] or "") + "[..." + extra + "]"
        return "%s %s" % (base_src, tuple_src)

    def interp(self, env, flow, depth):
        self.note("interp")
        parts = []
        for _ in range(self.rng.randint(1, 3)):
            if self.chance(0.6):
                inner = self.expr(STR, list(env), flow, depth + 1)      # a hole is a scope
                if depth < 3 and self.chance(0.25):
                    # a match inside a hole (the hole is a scope: the binder does not escape)
                    x = self.var()
                    inner = "%s =%s, %s" % (inner, x, x)
                    self.note("match_in_hole")
                parts.append("{" + inner.replace("\\", "\\\\") + "}")
            else:
                parts.append("".join(self.rng.choice("abc xyz-_09") for _ in range(self.rng.randint(0, 3))))
        return '"' + "".join(parts) + '"'

    # ------------------------------------------------------------------ patterns
    def pattern(self, t, env_out, succeed, depth=0, pins=(), star=True, simple=False, named_star=False):
        """a pattern for values of type t; appends (binder, type) to env_out.  `succeed`: must
        match every value of the type (irrefutable) when True; otherwise it may fail."""
        r = self.rng
        if t in (INT, BIN, STR):
            opts = ["bind", "bind", "placeholder"]
            if not succeed: opts += ["lit", "lit", "lit"]
            if not succeed and t == INT and not simple: opts.append("or")
            if not succeed and any(pt == t for _, pt in pins): opts.append("pin")
            if depth > 0 or not succeed: opts.append("as")
            k = r.choice(opts)
            if k == "or":
                self.note("or_pattern")
                return "(" + " | ".join(self.lit(INT) for _ in range(r.randint(2, 3))) + ")"
            if k == "pin":
                self.note("pin_pattern")
                return "&" + r.choice([x for x, pt in pins if pt == t])
            if k == "bind":
                x = self.var(); env_out.append((x, t)); return x
            if k == "placeholder": return "_"
            if k == "lit": return self.lit(t)
            x = self.var(); env_out.append((x, t))
            self.bound_labels.add(x)      # a type-ascribed binder records a narrowing: never re-bound (F53c02)
            return "(%s)%s" % (ty_src(t), x)
        if t[0] == "fn":
            if r.random() < 0.7:
                x = self.var(); env_out.append((x, t)); return x
            return "_"
        if t[0] == "alias":
            x = self.var(); env_out.append((x, t)); return x
        # tuple
        k = r.random()
        if k < 0.12:
            x = self.var(); env_out.append((x, t)); return x
        if k < 0.17:
            return "_"
        labels = [l for l, _ in t[2]]
        if simple and k < 0.55:
            k = 0.9          # inside a partial pattern's field the parser takes no `(..)`-patterns / `*`
        if all(labels) and len(set(labels)) == len(labels) and t[2] and k < 0.45:
            # partial pattern (named fields)
            sel = r.sample(list(t[2]), r.randint(1, len(t[2])))
            parts = []
            for l, ft in sel:
                # binding the label's own name a second time would re-bind a name that may carry a
                # recorded narrowing (known finding F53c02): only the first time per program
                if r.random() < 0.5 and l not in self.bound_labels:
                    self.bound_labels.add(l)
                    env_out.append((l, ft)); parts.append(l)
                else:
                    parts.append(l + ": " + self.pattern(ft, env_out, succeed, depth + 1, pins, star, simple=True))
            name = t[1] if (t[1] and r.random() < 0.6) else ""
            self.note("partial_pattern")
            return name + "(" + ", ".join(parts) + ")"
        if star and all(labels) and len(set(labels)) == len(labels) and t[2] and k < 0.55 \
                and not (set(labels) & self.bound_labels):
            for l, ft in t[2]:
                self.bound_labels.add(l)
                env_out.append((l, ft))
            self.note("star_pattern")
            if named_star and not t[1]:
                return "_"
            return (t[1] if (t[1] and (named_star or r.random() < 0.5)) else "") + "*"
        if t[1] and not t[2]:
            return t[1]
        parts = [(l + ": " if l else "") + self.pattern(ft, env_out, succeed, depth + 1, pins, star, simple) for l, ft in t[2]]
        return (t[1] or "") + "[" + ", ".join(parts) + "]"

    # ------------------------------------------------------------------ blocks
    def block(self, want, env, flow, depth):
        """`<scrutinee> { branches }` evaluating to `want` (never nil: the last branch is a default)"""
        r = self.rng
        self.note("block")
        st = self.rand_type()
        if isinstance(st, tuple) and st[0] == "fn":
            st = INT
        scrut = self.expr(st, env, flow, depth + 1)
        branches = []
        variants = self.aliases[st[1]] if isinstance(st, tuple) and st[0] == "alias" else None
        nb = r.randint(1, 3)
        for i in range(nb):
            benv = list(env)
            if variants:
                vt = r.choice(variants)
                bound = []
                # an unnamed `*` over a union of differently-labelled tuples hits a compiler defect
                # reported from this check (binders of the wrong variant): only `Name*` here
                pat = self.pattern(vt, bound, succeed=r.random() < 0.5, named_star=True)
            else:
                bound = []
                pat = self.pattern(st, bound, succeed=False, pins=self.scalar_vars(env))
            benv = [(x, t) for x, t in reversed(bound)] + benv
            cond = "=" + pat
            if r.random() < 0.3:
                # a guard after the match (a second step of the condition)
                cond += ", " + self.guard(benv, None, depth)          # the step after a match sees Ok
            if r.random() < 0.75:
                # consequence; sometimes itself a block (blocks inside consequences)
                if depth < 3 and r.random() < 0.35:
                    self.note("block_in_consequence")
                    cons = self.block(want, benv, st, depth + 1)
                else:
                    cons = self.seq(want, benv, st, depth + 1)
                branches.append("%s => %s" % (cond, cons))
            else:
                # no consequence: the branch's value is its last step
                branches.append("%s, %s" % (cond, self.expr(want, benv, None, depth + 1)))
        branches.append(self.seq(want, list(env), st, depth + 1))       # default
        lead = "| " if r.random() < 0.3 else ""
        return "%s { %s%s }" % (scrut, lead, " | ".join(branches))

    def guard(self, env, flow, depth):
        """a step that is Ok or [] (never an error)"""
        r = self.rng
        a = self.expr(INT, env, flow, depth + 2)
        b = self.lit(INT)
        self.note("guard")
        return "[%s, %s] __integer_compare__ =%s" % (a, b, r.choice(["0", "1", "-1"]))

    def seq(self, want, env, flow, depth):
        """a sequence (steps separated by `,`) whose value is `want`; earlier steps bind"""
        r = self.rng
        steps = []
        env = list(env)
        for _ in range(r.choice([0, 0, 0, 1, 1, 2])):
            t = self.rand_type()
            x = self.var()
            steps.append("%s = %s" % (x, self.expr(t, env, flow if not steps else None, depth + 1)))
            env.insert(0, (x, t))
        last = self.expr(want, env, flow if not steps else None, depth + 1)
        if depth < 4 and self.chance(0.12):
            # a multi-step block as a step of its own (lifted by simplify.rs when nothing binds)
            self.note("multi_step_block")
            last = "{ %s, %s }" % (self.expr(self.rand_type(), list(env), flow if not steps else None, depth + 2), last)
        steps.append(last)
        return ", ".join(steps)

    def match_then(self, want, env, flow, depth):
        """failing (or succeeding) mid-chain match followed by uses: `v =pat T` where T does not
        depend on whether the match succeeded, or embeds the binders in a tuple"""
        r = self.rng
        st = self.rand_type()
        if isinstance(st, tuple) and st[0] in ("fn", "alias"):
            st = self.rand_tuple_type()
        bound = []
        pat = self.pattern(st, bound, succeed=False, pins=self.scalar_vars(env))
        self.note("mid_chain_match")
        v = self.expr(st, env, flow, depth + 1)
        # after the match the flow is Ok or []; the continuation must not depend on it
        cont = self.term(want, env, None, depth + 1)
        return "%s =%s %s" % (v, pat, cont)

    def obs_failed_match(self, env, depth=1):
        """`v =pat [~, binders.., other variables..]`: a (possibly failing) mid-chain match whose
        verdict, binders (nil after a failure, reading R3) and neighbouring variables are embedded
        in a tuple -- the one use of such binders that does not depend on their static type"""
        r = self.rng
        st = self.rand_tuple_type() if r.random() < 0.7 else self.rand_scalar()
        bound = []
        # no `*` here: which names a star binds depends on the value, so the evaluator cannot
        # nil-fill them after a failure (reading R3 covers the static binders only)
        pat = self.pattern(st, bound, succeed=False, pins=self.scalar_vars(env), star=False)
        v = self.expr(st, env, None, depth + 1)
        others = [x for x, t in self.lookup_latest(env) if not (isinstance(t, tuple) and t[0] == "fn")]
        names = []
        for x, _ in bound:
            if x not in names:
                names.append(x)
        uses = ["~"] + names + r.sample(others, min(len(others), r.randint(0, 2)))
        self.note("failed_match_binders_observed")
        return "%s =%s [%s]" % (v, pat, ", ".join(uses))

    # ------------------------------------------------------------------ functions
    def fn_literal(self, t, env, depth):
        """`#P { body }` of type t; the body may use the captured scope"""
        r = self.rng
        _, p, res = t
        saved = (self.param, self.self_fn)
        self.param = None if p == "nil" else p
        self.self_fn = None
        body_env = list(env)
        flow = None if p == "nil" else p
        body = self.seq(res, body_env, flow, depth + 1) if r.random() < 0.6 else self.expr(res, body_env, flow, depth + 1)
        self.param, self.self_fn = saved
        self.note("fn_literal")
        if p == "nil":
            return "#{ %s }" % body if r.random() < 0.7 else "#[] { %s }" % body
        return "#%s { %s }" % (param_src(p), body)

    def loop_fn(self, env):
        """a tail-recursive function over ['int, acc]: counts down, accumulating"""
        r = self.rng
        acc_t = r.choice([INT, INT, BIN, tup(None, [(None, INT), (None, INT)])])
        f = self.var()
        self.note("tail_loop")
        step = {INT: "[a, n] __integer_add__",
                BIN: "[a, 0x01] __binary_concat__"}.get(acc_t, "[a.1, [a.0, n] __integer_add__]")
        form = r.random()
        if form < 0.5:
            src = "%s = #['int, %s] { | =[0, a] => a | =[n, a] => [[n, 1] __integer_subtract__, %s] ^ }" % (f, ty_src(acc_t), step)
        else:
            # consequence is a block ending in the tail call
            src = "%s = #['int, %s] { =[n, a] => n { =0 => a | [[n, 1] __integer_subtract__, %s] ^ } }" % (f, ty_src(acc_t), step)
        return f, ("fn", tup(None, [(None, INT), (None, acc_t)]), acc_t), src

    # ------------------------------------------------------------------ whole programs
    def program(self):
        r = self.rng
        steps = []
        env = []
        # aliases: unions of named-tuple variants
        for i in range(r.choice([0, 1, 1, 2])):
            name = "u%d" % i
            names = r.sample(NAMES, r.randint(2, 3))
            variants = []
            for n in names:
                k = r.randint(0, 2)
                labelled = r.random() < 0.5
                labels = r.sample(LABELS, k) if labelled else [None] * k
                variants.append(tup(n, [(l, self.rand_scalar()) for l in labels]))
            self.aliases[name] = variants
            steps.append("'%s = %s" % (name, " | ".join(ty_src(v) for v in variants)))
        observed = []
        n_steps = r.randint(2, 6)
        for _ in range(n_steps):
            k = r.random()
            if k < 0.3:
                t = self.rand_type()
                x = self.var()
                steps.append("%s = %s" % (x, self.expr(t, env, None, 0)))
                env.insert(0, (x, t))
            elif k < 0.42 and env:
                # rebinding an existing name (closures defined earlier keep the old value)
                text = ",\n".join(steps)
                vis = [(x, t) for x, t in self.lookup_latest(env)
                       if not (isinstance(t, tuple) and t[0] == "fn")]      # (F53/F76 repaired: any value name)
                if vis:
                    x, _ = r.choice(vis)
                    t = self.rand_type()
                    # the new value does not read `x` itself (a rebinding `x = ..x.field..` hits a
                    # compiler defect reported from this check: stale static type of `x`)
                    env_wo = env if r.random() < 0.6 else [(y, yt) for y, yt in env if y != x]
                    steps.append("%s = %s" % (x, self.expr(t, env_wo, None, 0)))
                    env.insert(0, (x, t))
                    self.note("rebinding")
            elif k < 0.62:
                p = r.choice(["nil", "nil", self.rand_type(), self.rand_type()])
                if isinstance(p, tuple) and p[0] == "fn":
                    p = INT
                res = self.rand_type()
                if isinstance(res, tuple) and res[0] == "fn":
                    res = INT
                ft = ("fn", p, res)
                f = self.var()
                steps.append("%s = %s" % (f, self.fn_literal(ft, env, 0)))
                env.insert(0, (f, ft))
            elif k < 0.72:
                f, ft, src = self.loop_fn(env)
                steps.append(src)
                # not entered into `env`: the loop is only ever called with the small counts below
                arg_acc = self.lit(ft[1][2][1][1])
                observed.append("[%d, %s] %s" % (r.choice([0, 1, 3, 7, 40]), arg_acc, f))
            elif k < 0.8:
                # a named tail call into another function, and `^~`
                targets = [(x, t) for x, t in self.lookup_latest(env) if isinstance(t, tuple) and t[0] == "fn"]
                if targets:
                    g, gt = r.choice(targets)
                    f = self.var()
                    saved = self.param
                    if gt[1] == "nil":
                        steps.append("%s = #'int { &%s ^~ }" % (f, g))
                        self.note("tail_ripple")
                    else:
                        self.param = INT
                        steps.append("%s = #'int { %s ^%s }" % (f, self.expr(gt[1], env, INT, 2), g))
                        self.note("tail_named")
                    self.param = saved
                    env.insert(0, (f, ("fn", INT, gt[2])))
            elif k < 0.9:
                # destructuring binding that succeeds
                t = self.rand_tuple_type()
                bound = []
                pat = self.pattern(t, bound, succeed=True)
                steps.append("%s = %s" % (pat, self.expr(t, env, None, 1)))
                for x, bt in bound:
                    env.insert(0, (x, bt))
            else:
                # a block whose failing first branches fall through; its value is observed
                t = self.rand_type()
                if isinstance(t, tuple) and t[0] == "fn":
                    t = INT
                x = self.var()
                steps.append("%s = %s" % (x, self.block(t, env, None, 0)))
                env.insert(0, (x, t))
        # the result: a tuple of observations (each a chain from nil)
        for _ in range(r.randint(1, 4)):
            t = self.rand_type()
            if isinstance(t, tuple) and t[0] == "fn":
                t = INT
            observed.append(self.expr(t, env, None, 0))
        for _ in range(r.choice([0, 1, 1, 2])):
            observed.append(self.obs_failed_match(env))
        r.shuffle(observed)
        # a step that may short-circuit the whole program
        if r.random() < 0.08:
            steps.append("%s =%s" % (self.lit(INT), self.lit(INT)))
            self.note("toplevel_short_circuit")
        steps.append("[" + ", ".join(observed) + "]")
        return ",\n".join(steps)


def generate(rng, stats=None):
    g = Gen(rng, stats)
    for _ in range(20):
        try:
            return g.program()
        except (IndexError, ValueError, KeyError):
            g = Gen(rng, stats)
    return "[]"


# ------------------------------------------------------------------------------------------------
# Programs of the fragment mirrored by coq/theories/lang/LangCompile.v (compile slice): integer
# literals, tuples without spreads, positional access on the flow / on identifiers, bare binders,
# chains, sequences (with nil short-circuits), redundant and liftable blocks (removed by
# normalize_blocks before code generation).  A shape is "int" or ("tup", name, [(label, shape)..]).
def fragment_program(rng, stats=None):
    fresh = [0]

    def note(k):
        if stats is not None:
            stats[k] = stats.get(k, 0) + 1

    def var():
        fresh[0] += 1
        return "v%d" % fresh[0]

    def rand_shape(d=0):
        if d >= 2 or rng.random() < 0.5:
            return "int"
        n = rng.randint(0, 3)
        name = rng.choice(NAMES + [None, None, None])
        if name is None and n == 0:
            n = 1          # no nil-shaped values: nil-ness is static in this fragment, and the real
                           # compiler drops the steps after a statically-nil step (not mirrored)
        labelled = rng.random() < 0.4
        labels = rng.sample(LABELS, n) if labelled else [None] * n
        return ("tup", name, [(l, rand_shape(d + 1)) for l in labels])

    def term_for(shape, env, flow, d, nobind=False):
        """one chain (space-separated terms) producing `shape`; `nobind`: inside a block that
        must stay binding-free (so that normalize_blocks removes it)"""
        opts = ["lit"]
        vs = [x for x, t in env if t == shape]
        if vs: opts += ["var", "var"]
        if flow == shape: opts += ["ripple", "ripple"]
        if isinstance(flow, tuple) and any(t == shape for _, t in flow[2]): opts += ["ripple_idx", "ripple_idx"]
        holders = [(x, t) for x, t in env if isinstance(t, tuple) and any(ft == shape for _, ft in t[2])]
        if holders: opts.append("var_idx")
        if d < 3: opts += ["pipe", "block", "branches", "branches"] + ([] if nobind else ["bind_then"])
        k = rng.choice(opts)
        if k == "branches":
            # a real block: an integer scrutinee, branches whose conditions are literal matches / bare
            # binders (with or without a consequence), a default branch last
            note("block_with_branches")
            scr = term_for("int", env, flow, d + 1, nobind)
            brs = []
            for _ in range(rng.randint(0, 2)):
                r = rng.random()
                if r < 0.4:
                    note("literal_condition_with_consequence")
                    brs.append("=%d => %s" % (rng.choice([0, 1, 2, 7, 42]), term_for(shape, list(env), "int", d + 1)))
                elif r < 0.6:
                    note("literal_condition")
                    brs.append("=%d, %s" % (rng.choice([0, 1, 2, 7, 42]), term_for(shape, list(env), None, d + 1)))
                else:
                    note("binder_condition")
                    x = var()
                    brs.append("=%s, %s" % (x, term_for(shape, list(env) + [(x, "int")], None, d + 1)))
            r = rng.random()
            if r < 0.5:
                brs.append(term_for(shape, list(env), "int", d + 1))
            elif r < 0.8:
                x = var()
                note("single_or_last_binding_branch")
                brs.append("%s = ~, %s" % (x, term_for(shape, list(env) + [(x, "int")], None, d + 1)))
            else:
                x = var()
                brs.append("=%s, %s" % (x, term_for(shape, list(env) + [(x, "int")], None, d + 1)))
            return "%s { %s%s }" % (scr, "| " if rng.random() < 0.3 else "", " | ".join(brs))
        if k == "lit":
            if shape == "int":
                return str(rng.choice([0, 1, 2, 7, -3, 42, 10**12]))
            inner = ", ".join((l + ": " if l else "") + term_for(t, env, flow, d + 1, nobind) for l, t in shape[2])
            if shape[1] and not shape[2]:
                return shape[1] + "[]" if rng.random() < 0.3 else shape[1]
            return (shape[1] or "") + "[" + inner + "]"
        if k == "var":
            return rng.choice(vs)
        if k == "ripple":
            note("ripple"); return "~"
        if k == "ripple_idx":
            i = rng.choice([i for i, (_, t) in enumerate(flow[2]) if t == shape])
            note("positional_access"); return rng.choice(["~.%d", ".%d"]) % i
        if k == "var_idx":
            x, t = rng.choice(holders)
            i = rng.choice([i for i, (_, ft) in enumerate(t[2]) if ft == shape])
            note("positional_access"); return "%s.%d" % (x, i)
        if k == "pipe":
            mid = rand_shape()
            return term_for(mid, env, flow, d + 1, nobind) + " " + term_for(shape, env, mid, d + 1, nobind)
        if k == "block":
            note("redundant_block")
            return "{ " + term_for(shape, env, flow, d + 1, True) + " }"
        # a bare binder in the chain, then the value rebuilt from it
        x = var()
        note("in_chain_binder")
        src = term_for(shape, env, flow, d + 1)
        env.append((x, shape))
        return "%s =%s %s" % (src, x, x)

    steps, env, funs = [], [], []

    def shape_ty(sh):
        if sh == "int":
            return "'int"
        inner = ", ".join((l + ": " if l else "") + shape_ty(t) for l, t in sh[2])
        if sh[1] and not sh[2]:
            return sh[1]
        return (sh[1] or "") + "[" + inner + "]"

    for _ in range(rng.randint(1, 6)):
        sh = rand_shape()
        r = rng.random()
        if r < 0.18:
            # a non-capturing function `f = #T { body }` (its body sees only its parameter and the
            # functions it defines itself)
            note("function_definition")
            f = "f%d" % (len(funs) + 1 + fresh[0] * 100)
            fresh[0] += 1
            psh = rand_shape()
            body = term_for(sh, [], psh, 1)
            steps.append("%s = #%s { %s }" % (f, shape_ty(psh) if psh == "int" or psh[2] or psh[1] else "['int]", body))
            if psh == "int" or psh[2] or psh[1]:
                funs.append((f, psh, sh))
            else:
                funs.append((f, ("tup", None, [(None, "int")]), sh))
            continue
        if r < 0.40 and funs:
            note("function_call")
            f, psh, rsh = rng.choice(funs)
            x = var()
            steps.append("%s = %s %s" % (x, term_for(psh, env, None, 1), f))
            env.append((x, rsh))
            continue
        if r < 0.45:
            x = var()
            steps.append("%s = %s" % (x, term_for(sh, env, None, 0)))
            env.append((x, sh))
        elif r < 0.7:
            note("liftable_block")
            steps.append("{ %s, %s }" % (term_for(rand_shape(), env, None, 1, True), term_for(sh, env, None, 1, True)))
        else:
            steps.append(term_for(sh, env, None, 0))
    if rng.random() < 0.15:
        steps.append("[]")             # a final nil step
        note("final_nil_step")
    return ", ".join(steps)
