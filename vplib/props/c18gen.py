"""Input generators for C18 (front-end totality; robustness SEARCH on the real parser + compiler).

Every random choice comes from the `rng` passed in (ctx.rng).  Classes of inputs:
  source        a text of vplib.testsrc.all_sources() / std/*.qv / a grammar-generated program, verbatim
  prefix        a prefix of one, cut at a token boundary
  delete / duplicate / substitute     one token removed / doubled / replaced
  nest          a token (or a whole line) wrapped in d levels of [] / {} / () / string holes, d <= 100,
                balanced or opened only
  arbitrary     text drawn from a weighted alphabet of Quiver punctuation, identifiers, quotes, triple
                quotes, escapes, non-ASCII and control characters
  charmut       a source with one character inserted / deleted / replaced (tokens are too coarse to
                produce e.g. a lone backslash inside a string)
All inputs respect the property's bound: bracket nesting depth <= 100 (`nesting`)."""
import re

TOKEN = re.compile(
    r'"""(?:\\.|[^\\])*?"""'            # multi-line string (escape-aware, as the parser scans it)
    r'|"(?:\\.|[^"\\])*"'               # single-line string
    r"|//[^\n]*"                        # comment
    r"|[ \t\r\n]+"                      # whitespace run
    r"|0x[0-9a-fA-F]*"                  # hex / binary literal
    r"|[0-9]+"
    r"|'?[A-Za-z_][A-Za-z0-9_]*[?!]?"   # identifier, type name ('int), tuple name
    r"|=>|~>|->|\.\.\.|\.\.|&&|\|\|"
    r"|.", re.S)

PUNCT = ["[", "]", "{", "}", "(", ")", "<", ">", ",", "|", "=", "=>", "~>", "->", "...", "..", ".", ":", "::", "&", "^", "!", "@", "#",
         "$", "%", "~", "*", "_", "'", "\"", "\"\"\"", "\\", "//", "-", "+", "/", "?", ";", "\n", " ", "\t", "\r\n"]
# integer literals at and beyond the machine-word boundaries (a positional index `x.N` is parsed into a usize)
BIGNUM = ["18446744073709551615", "18446744073709551616", "99999999999999999999", "340282366920938463463374607431768211456",
          "9223372036854775808", "4294967296", "00000000000000000000001"]
WORDS = ["x.18446744073709551616", "$.99999999999999999999", "^f.18446744073709551616", "x.18446744073709551615", ".4294967296",
         "x", "y", "f", "'int", "'bin", "'t", "A", "Cons", "Nil", "Ok", "int", "0", "1", "42", "-7", "0x", "0xff", "0xf", "1.5", "1/3",
         "__integer_add__", "__bogus__", "%list", "%nosuch", "math", "'%list", "[]", "{}", "()", "\"s\"", "\"{x}\"", "\"\\n\"", "\"\\q\"",
         "\"\"\"\n  a\n  \"\"\"", "^", "&x", "&.", "$", "$.0", "~.a", "=x", "='int", "=*", "#'int", "#{ 1 }", "@{ 1 }", "!", "! []"]
NONASCII = ["é", "ü", "ß", "中", "文", "\u00a0", "\u2003", "\u2028", "\u200b", "\ufeff", "😀", "\U0001F468\u200d\U0001F469", "\u0301", "İ", "ǅ",
            "\u00ad", "\ud7ff", "\ue000", "\U0010ffff", "\x85"]
CONTROL = ["\x00", "\x01", "\x07", "\x08", "\x0b", "\x0c", "\x1b", "\x7f", "\r", "\t"]
ESCAPES = ["\\n", "\\t", "\\r", "\\\\", "\\\"", "\\{", "\\s", "\\q", "\\u{41}", "\\x41", "\\0", "\\\n", "\\é", "\\"]

OPEN = {"[": "]", "{": "}", "(": ")"}


def tokens(src):
    return TOKEN.findall(src)


def nesting(text):
    """max bracket nesting depth of a text, counted on the raw characters ([{ open, )]} close; a
    close at depth 0 is ignored) - the quantity the property bounds by 100"""
    d = m = 0
    for c in text:
        if c in "([{":
            d += 1
            m = max(m, d)
        elif c in ")]}" and d > 0:
            d -= 1
    return m


def paren_depth(text):
    """max nesting depth of '(' alone, outside string literals and comments (token-level)"""
    d = m = 0
    for t in tokens(text):
        if t == "(":
            d += 1
            m = max(m, d)
        elif t == ")" and d > 0:
            d -= 1
    return m


def significant(toks):
    return [i for i, t in enumerate(toks) if not t.isspace()]


class Mut:
    def __init__(self, rng, sources):
        self.rng = rng
        self.sources = sources            # [(origin, text)]
        self.pool = list(PUNCT) + list(WORDS)

    def pick_source(self, max_len=4000):
        for _ in range(20):
            o, s = self.rng.choice(self.sources)
            if 0 < len(s) <= max_len:
                return o, s
        return o, s[:max_len]

    # ---------------------------------------------------------------- token-level mutations
    def prefix(self, src):
        toks = tokens(src)
        if len(toks) < 2:
            return src[: self.rng.randint(0, len(src))]
        k = self.rng.randint(0, len(toks) - 1)
        return "".join(toks[:k])

    def delete(self, src):
        toks = tokens(src)
        sig = significant(toks)
        if not sig:
            return src
        i = self.rng.choice(sig)
        return "".join(toks[:i] + toks[i + 1:])

    def duplicate(self, src):
        toks = tokens(src)
        sig = significant(toks)
        if not sig:
            return src
        i = self.rng.choice(sig)
        sep = self.rng.choice(["", "", " "])
        return "".join(toks[:i + 1] + [sep, toks[i]] + toks[i + 1:])

    def substitute(self, src):
        toks = tokens(src)
        sig = significant(toks)
        if not sig:
            return src
        i = self.rng.choice(sig)
        r = self.rng.random()
        if r < 0.5:
            new = self.rng.choice(self.pool)
        elif r < 0.85:
            new = toks[self.rng.choice(sig)]
        elif r < 0.88:
            new = self.rng.choice(BIGNUM)
        elif r < 0.93:
            new = self.rng.choice(NONASCII + CONTROL)
        else:
            new = self.rng.choice(ESCAPES)
        return "".join(toks[:i] + [new] + toks[i + 1:])

    def charmut(self, src):
        if not src:
            return self.rng.choice(PUNCT)
        i = self.rng.randrange(len(src))
        r = self.rng.random()
        ch = self.rng.choice(["\\", "\"", "{", "}", "(", ")", "[", "]", "\n", "'", "/", "\r"] + NONASCII[:6] + CONTROL[:3])
        if r < 0.4:
            return src[:i] + ch + src[i:]
        if r < 0.7:
            return src[:i] + src[i + 1:]
        return src[:i] + ch + src[i + 1:]

    # ---------------------------------------------------------------- nesting amplification
    def depth_choice(self, kind):
        r = self.rng.random()
        if kind == "(":
            # '(' nesting is exponential in the real parser (known finding): keep most probes shallow
            return self.rng.choice([1, 2, 3, 4, 5, 6, 8, 10])
        if r < 0.4:
            return self.rng.randint(1, 12)
        if r < 0.8:
            return self.rng.randint(13, 60)
        return self.rng.choice([64, 80, 90, 99, 100])

    def nest(self, src, kind=None, depth=None):
        """wrap one token / one line / the whole text in `depth` levels of a bracket kind"""
        rng = self.rng
        kind = kind or rng.choice(["[", "[", "{", "{", "(", "hole", "hole", "mixed", "#{", "pat["])
        d = depth or self.depth_choice(kind)
        toks = tokens(src)
        sig = significant(toks)
        r = rng.random()
        if not sig or r < 0.25:
            pre, mid, post = "", src, ""
        else:
            i = rng.choice(sig)
            j = i if r < 0.7 else min(len(toks) - 1, i + rng.randint(0, 6))
            pre, mid, post = "".join(toks[:i]), "".join(toks[i:j + 1]), "".join(toks[j + 1:])
        # never exceed the property's bound
        room = 100 - nesting(src)
        d = max(1, min(d, room))
        if room <= 0:
            return src
        balanced = rng.random() < 0.75
        if kind == "hole":
            o, c = '"{' * d, '}"' * d
        elif kind == "mixed":
            ks = [rng.choice("[{") for _ in range(d)]
            o, c = "".join(ks), "".join(OPEN[k] for k in reversed(ks))
        elif kind == "#{":
            o, c = "#{" * d, "}" * d
        elif kind == "pat[":
            o, c = "=" + "[" * d, "]" * d
        else:
            o, c = kind * d, OPEN[kind] * d
        if not balanced:
            c = c[: rng.randint(0, max(0, len(c) - 1))]
        return pre + o + mid + c + post

    # ---------------------------------------------------------------- arbitrary text
    def arbitrary(self):
        rng = self.rng
        n = rng.choice([1, 2, 3, 5, 8, 13, 21, 40, 80])
        out = []
        depth = 0
        for _ in range(n):
            r = rng.random()
            if r < 0.45:
                t = rng.choice(PUNCT)
            elif r < 0.75:
                t = rng.choice(WORDS)
            elif r < 0.83:
                t = rng.choice(ESCAPES)
            elif r < 0.91:
                t = rng.choice(NONASCII)
            elif r < 0.95:
                t = rng.choice(CONTROL)
            else:
                t = "".join(rng.choice("abcxyz_09'?!AZ") for _ in range(rng.randint(1, 6)))
            out.append(t)
            if rng.random() < 0.35:
                out.append(rng.choice([" ", " ", "\n", ", "]))
        return "".join(out)

    def stringy(self):
        """texts concentrated on the string scanners: single / multi-line delimiters, escapes, holes,
        margins, CR/LF mixes, non-ASCII next to a backslash"""
        rng = self.rng
        body = "".join(rng.choice(ESCAPES + NONASCII[:8] + ["a", " ", "  ", "\t", "\n", "\r\n", "\r", "{", "}", "{x}", "{1}", "{\"", "\"", "\"\"", "'"])
                       for _ in range(rng.randint(0, 10)))
        form = rng.random()
        if form < 0.35:
            s = '"' + body + rng.choice(['"', '"', ""])
        elif form < 0.8:
            margin = rng.choice(["", "  ", "\t", " \t"])
            s = '"""' + rng.choice(["\n", "\n", "\r\n", " \n", "x\n", ""]) + margin + body + rng.choice(["\n", "\n", "\r\n", ""]) \
                + rng.choice([margin, margin, "", " "]) + rng.choice(['"""', '"""', '""', ""])
        else:
            s = body
        ctx = rng.random()
        if ctx < 0.3:
            return s
        if ctx < 0.5:
            return "x = " + s
        if ctx < 0.7:
            return s + " =" + s            # pattern position
        if ctx < 0.85:
            return "[" + s + ", " + s + "]"
        return "1 { | =" + s + " => 1 | 2 }"


# ---------------------------------------------------------------------------------------------------
# Type definitions, drawn systematically (the compiler-totality leg: type resolution in typing.rs,
# spreads, partials, generics, recursion; every construct in every position).
class TypeGen:
    """Programs made of type alias definitions followed by uses of them.

    definitions : tuple (positional / named / mixed / duplicate field names, named or unnamed),
                  union (of tuples with different field styles, of primitives, leading `|`),
                  partial (`(a: T)`, `Name(a: T)`, `()`, `Name()`), recursive (`^`, `^1`, `^2`),
                  generic (`'p<'a, 'b> = ..`), function / process / intersection / module / resource
                  types, primitive aliases; and SPREADING definitions built on earlier ones:
                  `[...'a, f: T]`, `Name[...'a]`, `(...'a, f: T)`, `Name(...'a, f: T)`, `'a[..., f: T]`,
                  `'a[...]`, several spreads, spreads of unions / partials / generics (`...'g<'int>`) /
                  recursive aliases / primitives / functions / undefined names / the alias itself,
                  overriding and duplicate field names
    positions   : alias `'x = T`; parameter `#T { .. }`, `#T -> U { .. }`, `#<'t>T { .. }`; `=` type
                  patterns `v =T`, `v =(T)x`, `v { | =T => 1 | 2 }`, field patterns `=A[f: (T)n]`;
                  spawn / receive `@#(T) { .. }`, `!#(T)`; nested inside other types
    A small rate of deliberate slips (undefined alias, wrong arity, lower-case tuple name, missing
    comma) keeps part of the output near-valid rather than valid."""

    PRIMS = ["'int", "'bin", "'ref"]
    LABELS = ["a", "b", "c", "x", "y", "z", "id", "tag"]
    TNAMES = ["A", "B", "Pt", "Pair", "Box", "Nil", "Cons", "Circle", "User"]

    def __init__(self, rng):
        self.rng = rng
        self.aliases = []        # (name, nparams, kind)
        self.stats = {}

    def note(self, k):
        self.stats[k] = self.stats.get(k, 0) + 1

    def ch(self, p):
        return self.rng.random() < p

    # ---------------------------------------------------------------- type expressions
    def alias_ref(self, params=(), depth=1):
        rng = self.rng
        if not self.aliases:
            return rng.choice(self.PRIMS)
        if not self.ch(0.03):
            name, np, _ = rng.choice(self.aliases)
        else:
            name, np = rng.choice(["nosuch", "t", "list"]), 0          # undefined alias
            self.note("ref-undefined")
        if np and not self.ch(0.08):
            return "'%s<%s>" % (name, ", ".join(self.ty(depth - 1, params) for _ in range(np)))
        if not np and self.ch(0.04):
            self.note("arity-slip")
            return "'%s<'int>" % name
        return "'" + name

    def fields(self, depth, params, style=None, n=None):
        rng = self.rng
        style = style or rng.choice(["pos", "pos", "named", "named", "mixed", "dup", "empty"])
        n = n if n is not None else rng.choice([1, 2, 2, 3])
        if style == "empty":
            return []
        out, labels = [], rng.sample(self.LABELS, n)
        for i in range(n):
            t = self.ty(depth - 1, params)
            if style == "pos" or (style == "mixed" and i % 2 == 0):
                out.append(t)
            elif style == "dup":
                out.append("%s: %s" % (labels[0], t))
            else:
                out.append("%s: %s" % (labels[i], t))
        return out

    def tuple_ty(self, depth, params, style=None):
        name = self.rng.choice(self.TNAMES + ["", "", ""])
        fs = self.fields(depth, params, style)
        if not fs and name and self.ch(0.6):
            return name
        return "%s[%s]" % (name, ", ".join(fs))

    def partial_ty(self, depth, params):
        name = self.rng.choice(self.TNAMES[:4] + ["", "", ""])
        style = self.rng.choice(["named", "named", "named", "empty", "dup", "mixed"])
        fs = self.fields(depth, params, style)
        self.note("partial")
        return "%s(%s)" % (name, ", ".join(fs))

    def spread_item(self, params):
        """one `...` item of a field list"""
        rng = self.rng
        r = rng.random()
        if not self.aliases:
            r = r * 0.1                     # nothing to spread yet: only the slips
        if r < 0.04:
            self.note("spread-bare")
            return "..."
        if r < 0.08:
            self.note("spread-prim")
            return "..." + rng.choice(self.PRIMS + ["'nosuch"])
        ref = self.alias_ref(params, 0)
        self.note("spread-alias")
        return "..." + ref

    def spread_ty(self, depth, params):
        """a tuple / partial type whose field list contains spreads"""
        rng = self.rng
        items = []
        k = rng.choice([1, 1, 1, 2, 3])
        extra = self.fields(depth, params, rng.choice(["named", "named", "named", "pos", "mixed", "dup", "empty"]), rng.choice([0, 1, 1, 2]))
        form = rng.random()
        if form < 0.42 and not any(":" in e.split("(")[0].split("[")[0] for e in extra) and self.ch(0.9):
            # the parser reads `( .. )` as a partial only when a field is named (or it is empty)
            extra = extra + ["%s: %s" % (rng.choice(self.LABELS), self.ty(depth - 1, params))]
        items = [self.spread_item(params) for _ in range(k)] + extra
        if self.ch(0.5):
            rng.shuffle(items)
        body = ", ".join(items)
        if form < 0.30:
            self.note("spread-in-partial")
            return "(%s)" % body
        if form < 0.42:
            self.note("spread-in-named-partial")
            return "%s(%s)" % (rng.choice(self.TNAMES[:5]), body)
        if form < 0.62:
            self.note("spread-in-tuple")
            return "[%s]" % body
        if form < 0.80:
            self.note("spread-in-named-tuple")
            return "%s[%s]" % (rng.choice(self.TNAMES[:5]), body)
        # 'alias[..., f: T]  (identifier spread: inherits the name, `...` means the alias itself)
        self.note("spread-identifier-form")
        a = self.alias_ref(params, 0).split("<")[0]
        if a in self.PRIMS and not self.ch(0.1):
            return "[%s]" % body
        inner = ", ".join((["..."] if self.ch(0.85) else []) + extra) or "..."
        return "%s[%s]" % (a, inner)

    def ty(self, depth, params=(), top=False):
        rng = self.rng
        if depth <= 0 or self.ch(0.25):
            r = rng.random()
            if r < 0.45:
                return rng.choice(self.PRIMS)
            if r < 0.75:
                return self.alias_ref(params, depth)
            if params and r < 0.9:
                return "'" + rng.choice(params)
            if r < 0.95:
                return rng.choice(self.TNAMES)
            return rng.choice(["^", "^", "^1", "^2", "[]", "()", "'%list", "'%list<'int>", "'%nosuch", "\\Res", "'", "^18446744073709551616"])
        r = rng.random()
        if r < 0.25:
            return self.tuple_ty(depth, params)
        if r < 0.38:
            return self.partial_ty(depth, params)
        if r < 0.62:
            return self.spread_ty(depth, params)
        if r < 0.76:
            vs = [self.ty(depth - 1, params) for _ in range(rng.choice([2, 2, 3]))]
            u = " | ".join(vs)
            self.note("union")
            return u if top and self.ch(0.5) else "(" + u + ")"
        if r < 0.84:
            self.note("function-type")
            a, b = self.ty(depth - 1, params), self.ty(depth - 1, params)
            wrap = lambda t: t if t[0] in "'[^" or t[0].isupper() and "|" not in t and " " not in t else "(" + t + ")"
            f = "#%s -> %s" % (wrap(a), wrap(b))
            return f if top else "(" + f + ")"
        if r < 0.89:
            self.note("process-type")
            return rng.choice(["@%s", "(@%s -> 'int)", "(@-> %s)", "@"]).replace("%s", rng.choice(self.PRIMS + [self.alias_ref(params, 0)]))
        if r < 0.95:
            self.note("intersection")
            return "(%s & %s)" % (self.ty(depth - 1, params), self.ty(depth - 1, params))
        return "(" + self.ty(depth - 1, params) + ")"

    # ---------------------------------------------------------------- definitions
    def definition(self, i):
        rng = self.rng
        name = rng.choice(["p", "q", "r", "s", "u", "v", "w", "e", "g", "h"]) + str(i)
        kind = rng.choice(["tuple-pos", "tuple-named", "tuple-mixed", "union", "union", "partial", "recursive", "generic", "spreading", "spreading",
                           "spreading", "misc"])
        if not self.aliases and kind in ("spreading", "misc"):
            kind = rng.choice(["tuple-pos", "tuple-named", "tuple-mixed", "union", "partial", "recursive"])
        params = ()
        if kind == "generic" or self.ch(0.12):
            params = tuple(rng.sample(["a", "b", "t"], rng.choice([1, 1, 2])))
        if kind == "tuple-pos":
            body = self.tuple_ty(2, params, "pos")
        elif kind == "tuple-named":
            body = self.tuple_ty(2, params, "named")
        elif kind == "tuple-mixed":
            body = self.tuple_ty(2, params, rng.choice(["mixed", "dup"]))
        elif kind == "union":
            vs = [rng.choice([self.tuple_ty(2, params, rng.choice(["pos", "named", "mixed", "empty"])), self.tuple_ty(1, params),
                              rng.choice(self.PRIMS), self.alias_ref(params), self.partial_ty(1, params)]) for _ in range(rng.choice([2, 2, 3, 4]))]
            body = ("\n  | " if self.ch(0.2) else "") + " | ".join(vs)
        elif kind == "partial":
            body = self.partial_ty(2, params)
        elif kind == "recursive":
            elem = "'" + params[0] if params else rng.choice(self.PRIMS)
            body = rng.choice(["Nil | Cons[%s, ^]", "Leaf[%s] | Node[^, ^]", "Nil | Cons[head: %s, tail: ^]", "Null | Arr[(Nil | Cons[^, ^1])] | S[%s]",
                               "#%s -> ^", "Nil | Cons[%s, ^2]", "[%s, ^]", "(next: ^, v: %s)", "E | W[^, (E | W[^1, ^2])]"]).replace("%s", elem)
        elif kind == "generic":
            body = self.ty(2, params, top=True)
        elif kind == "spreading":
            body = self.spread_ty(2, params)
        else:
            body = self.ty(2, params, top=True)
        self.note("def-" + kind)
        if self.ch(0.03):
            name = ""                      # the module's default type `' = ..`
        head = "'" + name + ("<%s>" % ", ".join("'" + x for x in params) if params else "")
        text = "%s = %s" % (head, body)
        if self.ch(0.05):
            # self-reference through a spread: `'x = [...'x, a: 'int]`
            text = "%s = %s" % (head, rng.choice(["[...%s, a: 'int]", "(...%s, a: 'int)", "%s[..., a: 'int]"]).replace("%s", "'" + name))
            self.note("def-self-spread")
        if name:
            self.aliases.append((name, len(params), kind))
        return text

    # ---------------------------------------------------------------- uses
    def use(self, j):
        rng = self.rng
        t = self.ty(2, (), top=False) if self.ch(0.6) else (self.spread_ty(2, ()) if self.ch(0.6) else self.alias_ref())
        par = t if t[0] in "'[(" or (t[0].isupper()) else "(" + t + ")"
        r = rng.random()
        v = rng.choice(["1", "0x01", "[1, 2]", "A[1]", "[a: 1, b: 0x]", "Pair[1, 2]", "Nil", "Cons[1, Nil]", "Pt[x: 1, y: 2]", "[]", "\"s\""])
        if r < 0.30:
            self.note("use-parameter")
            body = rng.choice(["1", "$", "~", "$.0", "$.a", ".z", "[~]", "$ { | ='int => 1 | 2 }"])
            return "f%d = #%s { %s }" % (j, par, body) + (", %s f%d" % (v, j) if self.ch(0.4) else "")
        if r < 0.38:
            self.note("use-parameter-result")
            return "f%d = #%s -> %s { %s }" % (j, par, rng.choice(self.PRIMS + [self.alias_ref()]), rng.choice(["1", "$", "~"]))
        if r < 0.45:
            self.note("use-generic-function")
            return "f%d = #<'t>%s { $ }" % (j, self.ty(2, ("t",)) if self.ch(0.7) else par)
        if r < 0.62:
            self.note("use-type-pattern")
            return "%s =%s" % (v, par)
        if r < 0.74:
            self.note("use-as-pattern")
            return "%s =(%s)n%d" % (v, t, j)
        if r < 0.86:
            self.note("use-branch-pattern")
            return "%s { | =%s => 1 | =(%s)m%d => 2 | 3 }" % (v, par, t, j)
        if r < 0.92:
            self.note("use-field-pattern")
            return "%s =%s[%s: (%s)k%d]" % (v, rng.choice(self.TNAMES[:4]), rng.choice(self.LABELS[:3]), t, j)
        self.note("use-process")
        return rng.choice(["p%d = @#(%s) { 1 }", "!#(%s)", "p%d = @#%s { !#(%s) }"]).replace("%d", str(j)).replace("%s", t)

    def program(self):
        rng = self.rng
        nd = rng.choice([1, 2, 2, 2, 3, 3, 4, 5])
        parts = [self.definition(i) for i in range(nd)]
        parts += [self.use(j) for j in range(rng.choice([0, 1, 1, 2, 3]))]
        if self.ch(0.15):
            rng.shuffle(parts)           # uses before definitions, definitions out of order
        sep = rng.choice([", ", ",\n", "\n", ",\n  "])
        text = sep.join(parts)
        if self.ch(0.04):
            text = text.replace(", ", " ", 1)       # a missing comma
        return text


def typedef_programs(rng, n):
    """n (text, stats) type-definition programs"""
    out, stats = [], {}
    while len(out) < n:
        g = TypeGen(rng)
        t = g.program()
        if nesting(t) > 100 or paren_depth(t) > 10:
            continue
        for k, v in g.stats.items():
            stats[k] = stats.get(k, 0) + v
        out.append(t)
    return out, stats


def typedef_probes():
    """deterministic shapes: every spread form x every kind of spread target x every position"""
    defs = {
        "tuple-pos": "'d = Pair['int, 'int]", "tuple-named": "'d = Pt[x: 'int, y: 'int]", "tuple-mixed": "'d = M['int, y: 'bin]",
        "tuple-unnamed-pos": "'d = ['int, 'bin]", "tuple-empty": "'d = E", "tuple-dup": "'d = D[a: 'int, a: 'bin]",
        "union-named": "'d = A[x: 'int] | B[y: 'int]", "union-one-pos": "'d = Circle[r: 'int] | Pt['int, 'int]", "union-prim": "'d = 'int | A[x: 'int]",
        "union-empty-variants": "'d = U | V | W", "partial": "'d = (x: 'int, y: 'bin)", "partial-named": "'d = Pt(x: 'int)", "partial-empty": "'d = ()",
        "recursive": "'d = Nil | Cons['int, ^]", "recursive-named": "'d = Nil | Cons[head: 'int, tail: ^]", "generic": "'d<'t> = G[v: 't, 't]",
        "generic-rec": "'d<'t> = Nil | Cons['t, ^]", "prim": "'d = 'int", "function": "'d = #'int -> 'int", "process": "'d = @'int",
        "intersection": "'d = (x: 'int) & (y: 'int)", "spread-of-spread": "'c = A['int, k: 'bin], 'd = ['bin, ...'c]", "undefined": "'c = 'int",
    }
    out = []
    for dk, d in defs.items():
        ref = "'d<'int>" if dk.startswith("generic") else "'d"
        spreads = ["[...%s, z: 'int]", "[...%s]", "[z: 'int, ...%s]", "N[...%s, z: 'int]", "(...%s, z: 'int)", "(...%s)", "(z: 'int, ...%s)", "N(...%s, z: 'int)",
                   "(...%s, x: 'bin)", "[...%s, x: 'bin]", "[...%s, ...%s]", "(...%s, ...%s, z: 'int)", "[...%s, 'int]", "(...%s, 'int)"]
        ident = ["'d[..., z: 'int]", "'d[...]", "'d[..., x: 'bin]", "'d[..., 'int]"] if not dk.startswith("generic") else []
        for sp in [s_.replace("%s", ref) for s_ in spreads] + ident:
            out.append("%s, 'e = %s" % (d, sp))                                   # alias position
            out.append("%s, f = #%s { 1 }" % (d, sp))                             # parameter position
            out.append("%s, 1 =%s" % (d, sp if sp[0] in "'[(" else sp))           # `=` type pattern
            out.append("%s, 1 =(%s)n" % (d, sp))                                  # as-pattern
    out += ["'e = (...'nosuch, z: 'int)", "'e = [...'e, z: 'int]", "'e = (...'e, z: 'int)", "'e = 'e[..., z: 'int]", "f = #(..., z: 'int) { 1 }", "f = #[...] { 1 }",
            "'a = ['int], 'b = [...'a, ...'a, ...'a], 'c = (...'b, z: 'int)", "'l<'t> = Nil | Cons['t, ^], 'e = (...'l<'int>, z: 'int)", "'l<'t> = Nil | Cons['t, ^], 'e = [...'l, z: 'int]",
            "'l<'t> = Nil | Cons['t, ^], 'e = (...'l<'int, 'int>, z: 'int)", "'p = (a: 'int), 'q = (...'p, ...'p), 'r = Q(...'q, a: 'bin)", "'e = (...'%list, z: 'int)", "'e = (...'%list<'int>, z: 'int)"]
    return out


CLASSES = ["source", "prefix", "delete", "duplicate", "substitute", "charmut", "nest", "arbitrary", "stringy", "typedefs", "typedefs-mutant"]


def generate(rng, sources, n, weights=None):
    """n inputs as (class, origin, text); nesting(text) <= 100 always"""
    m = Mut(rng, sources)
    w = weights or {"prefix": 14, "delete": 14, "duplicate": 10, "substitute": 18, "charmut": 10, "nest": 12, "arbitrary": 14, "stringy": 8}
    names = list(w)
    out = []
    while len(out) < n:
        k = rng.choices(names, [w[x] for x in names])[0]
        if k == "arbitrary":
            o, t = "-", m.arbitrary()
        elif k == "stringy":
            o, t = "-", m.stringy()
        else:
            o, s = m.pick_source()
            t = getattr(m, k)(s)
            # a second mutation now and then (near-valid programs two edits away)
            if rng.random() < 0.15:
                t = getattr(m, rng.choice(["delete", "substitute", "charmut", "duplicate"]))(t)
        if nesting(t) > 100 or len(t) > 6000:
            continue
        try:
            t.encode("utf-8")
        except UnicodeEncodeError:
            continue
        out.append((k, o, t))
    return out


def depth_probes():
    """deterministic boundary probes: every bracket kind at depth 100 exactly (the property's bound),
    balanced / unbalanced, in term, pattern and type position.  '(' is listed separately by the
    plugin because of the exponential-time finding."""
    out = []
    for d in (25, 50, 100):
        out += [
            ("[" * d + "1" + "]" * d),
            ("{" * d + "1" + "}" * d),
            ('"{' * d + "1" + '}"' * d),
            ("#{" * d + "1" + "}" * d),
            ("[" * d), ("{" * d), ('"{' * d), ("[" * d + "1 +" + "]" * d), ("{" * d + "1 +" + "}" * d),
            ("1 =" + "[" * d + "x" + "]" * d),
            ("1 =" + "[" * d + "x"),
            ("'t = " + "[" * d + "'int" + "]" * d),
            ("'t = " + "A[" * d + "'int" + "]" * d),
            ("x = #" + "[" * d + "'int" + "]" * d + " { 1 }"),
            ("A[" * d + "1" + "]" * d),
            ("[a: " * d + "1" + "]" * d),
            ("{ | " * d + "1" + " }" * d),
            ("{ 1 => " * d + "1" + " }" * d),
            ("1 { =1 => " * d + "1" + " }" * d),
            ("[...[" * (d // 2) + "1" + "]]" * (d // 2)),
            ("@{" * d + "1" + "}" * d),
            ("! [" * d + "]" * d),
            ("'t<'a> = " + "'t<" * 1 + "'int>"),
            ("x = 1, " + "x { " * d + "~" + " }" * d),
            ("\"\"\"\n" + "{" * d + "1" + "}" * d + "\n\"\"\""),
            ("\"\"\"\n" + "{\"\"\"\n" * min(d, 30) + "1" + "\n\"\"\"}" * min(d, 30) + "\n\"\"\""),
            ("[" * d + "{" * 0 + "]" * d + "]"),
            ("f = #'int { " + "[" * (d - 1) + "~" + "]" * (d - 1) + " }, 1 f"),
            ("1 " + "~> [~] " * d),
            ("1, " * (d * 4) + "1"),
            ("x" + ".0" * d),
            ("'a" + " | 'a" * d + " = 'int"),
            ("1 =" + "A[" * d + "_" + "]" * d),
            ("1 =" + "(x: " * 6 + "'int" + ")" * 6),
        ]
    return [t for t in out if nesting(t) <= 100]


def paren_probes():
    """'(' nesting: shallow ones must pass; deep ones document the exponential-time finding"""
    shapes = {
        "term": lambda d: "(" * d + "1" + ")" * d,
        "open-only": lambda d: "(" * d,
        "pattern": lambda d: "1 =" + "(" * d + "x" + ")" * d,
        "type-valid": lambda d: "x = #" + "(" * d + "'int" + ")" * d + " { 1 }",
        "as-valid": lambda d: "1 =" + "(" * d + "'int" + ")" * d + "x",
        "or-valid": lambda d: "1 =" + "(" * d + "1 | 2" + " | 3)" * d,
        "alias-valid": lambda d: "'t = " + "(" * d + "'int" + ")" * d,
    }
    return shapes
