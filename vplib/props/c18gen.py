"""Input generators for C18 (front-end totality; robustness SEARCH on the real parser + compiler).

Every random choice comes from the `rng` passed in (ctx.rng).  Classes of inputs:
  source        a text of vplib.testsrc.all_sources() / std/*.qv / a grammar-generated program, verbatim
  prefix        a prefix of one, cut at a token boundary
  delete / duplicate / substitute     one token removed / doubled / replaced
  nest          a token (or a whole line) wrapped in d levels of [] / {} / () / string holes, d <= 100,
                balanced or opened only
  arbitrary     text drawn from a weighted alphabet of Quiver punctuation, identifiers, quotes, triple
                quotes, escapes, non-ASCII and control characters
  charmut       a source with one character inserted / deleted / replaced (tokens are too coarse to
                produce e.g. a lone backslash inside a string)
All inputs respect the property's bound: bracket nesting depth <= 100 (`nesting`)."""
import re

TOKEN = re.compile(
    r'"""(?:\\.|[^\\])*?"""'            # multi-line string (escape-aware, as the parser scans it)
    r'|"(?:\\.|[^"\\])*"'               # single-line string
    r"|//[^\n]*"                        # comment
    r"|[ \t\r\n]+"                      # whitespace run
    r"|0x[0-9a-fA-F]*"                  # hex / binary literal
    r"|[0-9]+"
    r"|'?[A-Za-z_][A-Za-z0-9_]*[?!]?"   # identifier, type name ('int), tuple name
    r"|=>|~>|->|\.\.\.|\.\.|&&|\|\|"
    r"|.", re.S)

PUNCT = ["[", "]", "{", "}", "(", ")", "<", ">", ",", "|", "=", "=>", "~>", "->", "...", "..", ".", ":", "::", "&", "^", "!", "@", "#",
         "$", "%", "~", "*", "_", "'", "\"", "\"\"\"", "\\", "//", "-", "+", "/", "?", ";", "\n", " ", "\t", "\r\n"]
# integer literals at and beyond the machine-word boundaries (a positional index `x.N` is parsed into a usize)
BIGNUM = ["18446744073709551615", "18446744073709551616", "99999999999999999999", "340282366920938463463374607431768211456",
          "9223372036854775808", "4294967296", "00000000000000000000001"]
WORDS = ["x.18446744073709551616", "$.99999999999999999999", "^f.18446744073709551616", "x.18446744073709551615", ".4294967296",
         "x", "y", "f", "'int", "'bin", "'t", "A", "Cons", "Nil", "Ok", "int", "0", "1", "42", "-7", "0x", "0xff", "0xf", "1.5", "1/3",
         "__integer_add__", "__bogus__", "%list", "%nosuch", "math", "'%list", "[]", "{}", "()", "\"s\"", "\"{x}\"", "\"\\n\"", "\"\\q\"",
         "\"\"\"\n  a\n  \"\"\"", "^", "&x", "&.", "$", "$.0", "~.a", "=x", "='int", "=*", "#'int", "#{ 1 }", "@{ 1 }", "!", "! []"]
NONASCII = ["é", "ü", "ß", "中", "文", "\u00a0", "\u2003", "\u2028", "\u200b", "\ufeff", "😀", "\U0001F468\u200d\U0001F469", "\u0301", "İ", "ǅ",
            "\u00ad", "\ud7ff", "\ue000", "\U0010ffff", "\x85"]
CONTROL = ["\x00", "\x01", "\x07", "\x08", "\x0b", "\x0c", "\x1b", "\x7f", "\r", "\t"]
ESCAPES = ["\\n", "\\t", "\\r", "\\\\", "\\\"", "\\{", "\\s", "\\q", "\\u{41}", "\\x41", "\\0", "\\\n", "\\é", "\\"]

OPEN = {"[": "]", "{": "}", "(": ")"}


def tokens(src):
    return TOKEN.findall(src)


def nesting(text):
    """max bracket nesting depth of a text, counted on the raw characters ([{ open, )]} close; a
    close at depth 0 is ignored) - the quantity the property bounds by 100"""
    d = m = 0
    for c in text:
        if c in "([{":
            d += 1
            m = max(m, d)
        elif c in ")]}" and d > 0:
            d -= 1
    return m


def paren_depth(text):
    """max nesting depth of '(' alone, outside string literals and comments (token-level)"""
    d = m = 0
    for t in tokens(text):
        if t == "(":
            d += 1
            m = max(m, d)
        elif t == ")" and d > 0:
            d -= 1
    return m


def significant(toks):
    return [i for i, t in enumerate(toks) if not t.isspace()]


class Mut:
    def __init__(self, rng, sources):
        self.rng = rng
        self.sources = sources            # [(origin, text)]
        self.pool = list(PUNCT) + list(WORDS)

    def pick_source(self, max_len=4000):
        for _ in range(20):
            o, s = self.rng.choice(self.sources)
            if 0 < len(s) <= max_len:
                return o, s
        return o, s[:max_len]

    # ---------------------------------------------------------------- token-level mutations
    def prefix(self, src):
        toks = tokens(src)
        if len(toks) < 2:
            return src[: self.rng.randint(0, len(src))]
        k = self.rng.randint(0, len(toks) - 1)
        return "".join(toks[:k])

    def delete(self, src):
        toks = tokens(src)
        sig = significant(toks)
        if not sig:
            return src
        i = self.rng.choice(sig)
        return "".join(toks[:i] + toks[i + 1:])

    def duplicate(self, src):
        toks = tokens(src)
        sig = significant(toks)
        if not sig:
            return src
        i = self.rng.choice(sig)
        sep = self.rng.choice(["", "", " "])
        return "".join(toks[:i + 1] + [sep, toks[i]] + toks[i + 1:])

    def substitute(self, src):
        toks = tokens(src)
        sig = significant(toks)
        if not sig:
            return src
        i = self.rng.choice(sig)
        r = self.rng.random()
        if r < 0.5:
            new = self.rng.choice(self.pool)
        elif r < 0.85:
            new = toks[self.rng.choice(sig)]
        elif r < 0.88:
            new = self.rng.choice(BIGNUM)
        elif r < 0.93:
            new = self.rng.choice(NONASCII + CONTROL)
        else:
            new = self.rng.choice(ESCAPES)
        return "".join(toks[:i] + [new] + toks[i + 1:])

    def charmut(self, src):
        if not src:
            return self.rng.choice(PUNCT)
        i = self.rng.randrange(len(src))
        r = self.rng.random()
        ch = self.rng.choice(["\\", "\"", "{", "}", "(", ")", "[", "]", "\n", "'", "/", "\r"] + NONASCII[:6] + CONTROL[:3])
        if r < 0.4:
            return src[:i] + ch + src[i:]
        if r < 0.7:
            return src[:i] + src[i + 1:]
        return src[:i] + ch + src[i + 1:]

    # ---------------------------------------------------------------- nesting amplification
    def depth_choice(self, kind):
        r = self.rng.random()
        if kind == "(":
            # '(' nesting is exponential in the real parser (known finding): keep most probes shallow
            return self.rng.choice([1, 2, 3, 4, 5, 6, 8, 10])
        if r < 0.4:
            return self.rng.randint(1, 12)
        if r < 0.8:
            return self.rng.randint(13, 60)
        return self.rng.choice([64, 80, 90, 99, 100])

    def nest(self, src, kind=None, depth=None):
        """wrap one token / one line / the whole text in `depth` levels of a bracket kind"""
        rng = self.rng
        kind = kind or rng.choice(["[", "[", "{", "{", "(", "hole", "hole", "mixed", "#{", "pat["])
        d = depth or self.depth_choice(kind)
        toks = tokens(src)
        sig = significant(toks)
        r = rng.random()
        if not sig or r < 0.25:
            pre, mid, post = "", src, ""
        else:
            i = rng.choice(sig)
            j = i if r < 0.7 else min(len(toks) - 1, i + rng.randint(0, 6))
            pre, mid, post = "".join(toks[:i]), "".join(toks[i:j + 1]), "".join(toks[j + 1:])
        # never exceed the property's bound
        room = 100 - nesting(src)
        d = max(1, min(d, room))
        if room <= 0:
            return src
        balanced = rng.random() < 0.75
        if kind == "hole":
            o, c = '"{' * d, '}"' * d
        elif kind == "mixed":
            ks = [rng.choice("[{") for _ in range(d)]
            o, c = "".join(ks), "".join(OPEN[k] for k in reversed(ks))
        elif kind == "#{":
            o, c = "#{" * d, "}" * d
        elif kind == "pat[":
            o, c = "=" + "[" * d, "]" * d
        else:
            o, c = kind * d, OPEN[kind] * d
        if not balanced:
            c = c[: rng.randint(0, max(0, len(c) - 1))]
        return pre + o + mid + c + post

    # ---------------------------------------------------------------- arbitrary text
    def arbitrary(self):
        rng = self.rng
        n = rng.choice([1, 2, 3, 5, 8, 13, 21, 40, 80])
        out = []
        depth = 0
        for _ in range(n):
            r = rng.random()
            if r < 0.45:
                t = rng.choice(PUNCT)
            elif r < 0.75:
                t = rng.choice(WORDS)
            elif r < 0.83:
                t = rng.choice(ESCAPES)
            elif r < 0.91:
                t = rng.choice(NONASCII)
            elif r < 0.95:
                t = rng.choice(CONTROL)
            else:
                t = "".join(rng.choice("abcxyz_09'?!AZ") for _ in range(rng.randint(1, 6)))
            out.append(t)
            if rng.random() < 0.35:
                out.append(rng.choice([" ", " ", "\n", ", "]))
        return "".join(out)

    def stringy(self):
        """texts concentrated on the string scanners: single / multi-line delimiters, escapes, holes,
        margins, CR/LF mixes, non-ASCII next to a backslash"""
        rng = self.rng
        body = "".join(rng.choice(ESCAPES + NONASCII[:8] + ["a", " ", "  ", "\t", "\n", "\r\n", "\r", "{", "}", "{x}", "{1}", "{\"", "\"", "\"\"", "'"])
                       for _ in range(rng.randint(0, 10)))
        form = rng.random()
        if form < 0.35:
            s = '"' + body + rng.choice(['"', '"', ""])
        elif form < 0.8:
            margin = rng.choice(["", "  ", "\t", " \t"])
            s = '"""' + rng.choice(["\n", "\n", "\r\n", " \n", "x\n", ""]) + margin + body + rng.choice(["\n", "\n", "\r\n", ""]) \
                + rng.choice([margin, margin, "", " "]) + rng.choice(['"""', '"""', '""', ""])
        else:
            s = body
        ctx = rng.random()
        if ctx < 0.3:
            return s
        if ctx < 0.5:
            return "x = " + s
        if ctx < 0.7:
            return s + " =" + s            # pattern position
        if ctx < 0.85:
            return "[" + s + ", " + s + "]"
        return "1 { | =" + s + " => 1 | 2 }"


CLASSES = ["source", "prefix", "delete", "duplicate", "substitute", "charmut", "nest", "arbitrary", "stringy"]


def generate(rng, sources, n, weights=None):
    """n inputs as (class, origin, text); nesting(text) <= 100 always"""
    m = Mut(rng, sources)
    w = weights or {"prefix": 14, "delete": 14, "duplicate": 10, "substitute": 18, "charmut": 10, "nest": 12, "arbitrary": 14, "stringy": 8}
    names = list(w)
    out = []
    while len(out) < n:
        k = rng.choices(names, [w[x] for x in names])[0]
        if k == "arbitrary":
            o, t = "-", m.arbitrary()
        elif k == "stringy":
            o, t = "-", m.stringy()
        else:
            o, s = m.pick_source()
            t = getattr(m, k)(s)
            # a second mutation now and then (near-valid programs two edits away)
            if rng.random() < 0.15:
                t = getattr(m, rng.choice(["delete", "substitute", "charmut", "duplicate"]))(t)
        if nesting(t) > 100 or len(t) > 6000:
            continue
        try:
            t.encode("utf-8")
        except UnicodeEncodeError:
            continue
        out.append((k, o, t))
    return out


def depth_probes():
    """deterministic boundary probes: every bracket kind at depth 100 exactly (the property's bound),
    balanced / unbalanced, in term, pattern and type position.  '(' is listed separately by the
    plugin because of the exponential-time finding."""
    out = []
    for d in (25, 50, 100):
        out += [
            ("[" * d + "1" + "]" * d),
            ("{" * d + "1" + "}" * d),
            ('"{' * d + "1" + '}"' * d),
            ("#{" * d + "1" + "}" * d),
            ("[" * d), ("{" * d), ('"{' * d), ("[" * d + "1 +" + "]" * d), ("{" * d + "1 +" + "}" * d),
            ("1 =" + "[" * d + "x" + "]" * d),
            ("1 =" + "[" * d + "x"),
            ("'t = " + "[" * d + "'int" + "]" * d),
            ("'t = " + "A[" * d + "'int" + "]" * d),
            ("x = #" + "[" * d + "'int" + "]" * d + " { 1 }"),
            ("A[" * d + "1" + "]" * d),
            ("[a: " * d + "1" + "]" * d),
            ("{ | " * d + "1" + " }" * d),
            ("{ 1 => " * d + "1" + " }" * d),
            ("1 { =1 => " * d + "1" + " }" * d),
            ("[...[" * (d // 2) + "1" + "]]" * (d // 2)),
            ("@{" * d + "1" + "}" * d),
            ("! [" * d + "]" * d),
            ("'t<'a> = " + "'t<" * 1 + "'int>"),
            ("x = 1, " + "x { " * d + "~" + " }" * d),
            ("\"\"\"\n" + "{" * d + "1" + "}" * d + "\n\"\"\""),
            ("\"\"\"\n" + "{\"\"\"\n" * min(d, 30) + "1" + "\n\"\"\"}" * min(d, 30) + "\n\"\"\""),
            ("[" * d + "{" * 0 + "]" * d + "]"),
            ("f = #'int { " + "[" * (d - 1) + "~" + "]" * (d - 1) + " }, 1 f"),
            ("1 " + "~> [~] " * d),
            ("1, " * (d * 4) + "1"),
            ("x" + ".0" * d),
            ("'a" + " | 'a" * d + " = 'int"),
            ("1 =" + "A[" * d + "_" + "]" * d),
            ("1 =" + "(x: " * 6 + "'int" + ")" * 6),
        ]
    return [t for t in out if nesting(t) <= 100]


def paren_probes():
    """'(' nesting: shallow ones must pass; deep ones document the exponential-time finding"""
    shapes = {
        "term": lambda d: "(" * d + "1" + ")" * d,
        "open-only": lambda d: "(" * d,
        "pattern": lambda d: "1 =" + "(" * d + "x" + ")" * d,
        "type-valid": lambda d: "x = #" + "(" * d + "'int" + ")" * d + " { 1 }",
        "as-valid": lambda d: "1 =" + "(" * d + "'int" + ")" * d + "x",
        "or-valid": lambda d: "1 =" + "(" * d + "1 | 2" + " | 3)" * d,
        "alias-valid": lambda d: "'t = " + "(" * d + "'int" + ")" * d,
    }
    return shapes
