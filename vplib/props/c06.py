"""C06 — binary heap accounting is exact: no leak, no premature free, no aliasing damage.

theorem layer : coq/theories/props/C06.v over the model coq/theories/heap/{Heap,HeapVm}.v
                (exact refcounts = occurrences in roots for the choke points and every handler,
                no use after free, reclamation sound/complete, bytes stable, transfer copies;
                F9 / F46 exhibited as `_refuted` witnesses for the code before the repairs, proved for the repaired code)
correspondence: generated Quiver programs run on REAL `Executor<TestEffect>`s driven directly by
                harness/src/bin/qv_heap.rs (which plays worker + environment exactly as worker.rs /
                environment.rs do) at quantum 1; after EVERY operation the extracted model's whole
                state (refcounts, freed, free, pending_free, constant cache, bytes of live slots,
                value skeleton of every process root) must equal the real dump
impl oracle   : on the real code alone, after every operation and at quanta 1..1000, several
                executors, generated schedules: check_refcounts() Ok, no reachable slot freed,
                shadow bytes of every reachable binary unchanged, free list consistent."""
import json
import os
import re

from vplib import sexpr

MANIFEST = dict(
    category="proof",
    text="Coq theorems over a hand-written model of the executor's refcounted binary heap (all 24 instruction handlers, the select machine, notify_message/result/spawn, spawn_process, frame auto-pop and completion, replace_locals / release_orphan_locals): refcounts equal the exact number of occurrences in all roots after every choke point and every handler, between time slices (refcount_exact; partial: see note), a freed slot is referenced by no root (no_use_after_free), process_pending_free frees exactly queued slots with count 0 and leaves no counted-then-dropped slot unreclaimed (reclaim_sound / reclaim_complete), bytes of a slot reachable before and after a step are unchanged including in-place materialize and slot reuse (bytes_stable), inject(extract v) denotes the same bytes on the receiving heap (transfer_copies). The F9, F46 and F45h leaks (fixed in /repo: b6882e1, 9ff9f6e, 09625d4) are exhibited as refuted witnesses for the code before the repairs; the theorems are about the code as committed. Validated, not proved: that the model is the code (differential execution of the extracted model against real Executors after every operation) and the oracle on the real code at all quanta.",
    design_ref="§5 C06",
    note="Findings F9, F46 and F45h are fixed in /repo (b6882e1, 9ff9f6e, 09625d4); their reproducers are must-pass regression probes in corpus/c06_*.txt. partial: the exact-count invariant is proved for every choke point, heap primitive and executor-level operation named in props/C06.v; handlers proved as compositions are listed there (the select machine with filters is covered by correspondence + oracle, its theorem is stated for the repaired code). Debug-build semantics (debug_assert = panic). Scheduling state (queue / parked sets) is not modelled: which process runs is an input.",
    technique="Coq proof (multiset counting invariant, delta form per handler) + extraction + differential execution against the real executor after every operation + real-code oracle (check_refcounts, use-after-free, shadow bytes) under generated schedules and quanta down to 1",
)

# ------------------------------------------------------------------ program generator


class Gen:
    """Builds one Quiver top-level program as a comma-separated chain of statements.
    Tracks binary variables with their static lengths so that slices are in range."""

    def __init__(self, rng):
        self.r = rng
        self.stmts = []
        self.bins = []     # (name, length)
        self.tups = []     # (name, [binary names]) flat pairs [b, [b, int]]
        self.procs = []    # (name, kind) kind: 'result-bin' | 'echo' | 'filter' | 'pair'
        self.n = 0
        self.feat = set()
        self.awaited = set()
        self.allow_f9 = False

    def fresh(self, p):
        self.n += 1
        return "%s%d" % (p, self.n)

    def lit(self, lo=1, hi=5):
        k = self.r.randint(lo, hi)
        return "0x" + "".join("%02x" % self.r.randint(0, 255) for _ in range(k)), k

    def pick_bin(self):
        if not self.bins or self.r.random() < 0.15:
            self.new_const()
        return self.r.choice(self.bins)

    def new_const(self):
        v = self.fresh("b")
        l, k = self.lit()
        self.stmts.append("%s = %s" % (v, l))
        self.bins.append((v, k))
        self.feat.add("const")

    def concat(self):
        a, b = self.pick_bin(), self.pick_bin()
        v = self.fresh("b")
        self.stmts.append("%s = [%s, %s] __binary_concat__" % (v, a[0], b[0]))
        self.bins.append((v, a[1] + b[1]))
        self.feat.add("concat")

    def slice(self):
        a = self.pick_bin()
        s = self.r.randint(0, a[1])
        e = self.r.randint(s, a[1])
        v = self.fresh("b")
        self.stmts.append("%s = [%s, %d, %d] __binary_slice__" % (v, a[0], s, e))
        self.bins.append((v, e - s))
        self.feat.add("slice")

    def dup(self):
        a = self.pick_bin()
        v = self.fresh("b")
        self.stmts.append("%s = %s" % (v, a[0]))
        self.bins.append((v, a[1]))
        self.feat.add("dup")

    def drop(self):
        a = self.pick_bin()
        self.stmts.append(self.r.choice(["%s __binary_length__", "[%s, 0xee] __binary_concat__ __binary_length__"]) % a[0])
        self.feat.add("drop")

    def tuple(self):
        a, b = self.pick_bin(), self.pick_bin()
        v = self.fresh("t")
        self.stmts.append("%s = [%s, [%s, %d]]" % (v, a[0], b[0], self.r.randint(0, 9)))
        self.tups.append((v, a, b))
        self.feat.add("tuple")

    def get(self):
        if not self.tups:
            return self.tuple()
        t = self.r.choice(self.tups)
        v = self.fresh("b")
        if self.r.random() < 0.5:
            self.stmts.append("%s = %s.0" % (v, t[0]))
            self.bins.append((v, t[1][1]))
        else:
            self.stmts.append("%s = %s.1.0" % (v, t[0]))
            self.bins.append((v, t[2][1]))
        self.feat.add("get")

    def closure_call(self):
        cap, arg = self.pick_bin(), self.pick_bin()
        f = self.fresh("f")
        v = self.fresh("b")
        self.stmts.append("%s = #'bin { [$, %s] __binary_concat__ }" % (f, cap[0]))
        self.stmts.append("%s = %s %s" % (v, arg[0], f))
        self.bins.append((v, arg[1] + cap[1]))
        self.feat.add("closure")

    def tail_loop(self):
        a = self.pick_bin()
        g = self.fresh("g")
        v = self.fresh("b")
        n = self.r.randint(1, 4)
        self.stmts.append("%s = #['int, 'bin] { | =[0, b] => b | =[x, b] => [[x, 1] __integer_subtract__, [[b, 0x01] __binary_concat__, 1, %d] __binary_slice__] ^ }" % (g, a[1] + 1))
        self.stmts.append("%s = [%d, %s] %s" % (v, n, a[0], g))
        self.bins.append((v, a[1]))
        self.feat.add("tailcall")

    def spawn_captures(self):
        k = self.r.randint(1, 3)
        caps = [self.pick_bin() for _ in range(k)]
        p = self.fresh("p")
        body = self.r.choice(["[%s]" % ", ".join(c[0] for c in caps),
                              "[%s, %s] __binary_concat__" % (caps[0][0], caps[-1][0])])
        self.stmts.append("%s = @#{ %s }" % (p, body))
        self.procs.append((p, "result"))
        self.feat.add("spawn-captures")

    def spawn_arg(self):
        cap, arg = self.pick_bin(), self.pick_bin()
        f = self.fresh("f")
        p = self.fresh("p")
        self.stmts.append("%s = #'bin { [%s, $] }" % (f, cap[0]))
        self.stmts.append("%s = %s @%s" % (p, arg[0], f))
        self.procs.append((p, "result"))
        self.feat.add("spawn-arg")

    def await_(self):
        ps = [p for p in self.procs if p[1] == "result" and p[0] not in self.awaited]
        if not ps:
            return self.spawn_captures()
        p = self.r.choice(ps)
        v = self.fresh("r")
        self.awaited.add(p[0])
        self.stmts.append("!%s =%s" % (p[0], v))
        self.feat.add("await")

    def await_twice(self):
        """F9 shape: the same process awaited twice (or in two selects)."""
        ps = [p for p in self.procs if p[1] == "result"]
        if not ps:
            self.spawn_captures()
            ps = [p for p in self.procs if p[1] == "result"]
        p = self.r.choice(ps)
        self.awaited.add(p[0])
        self.stmts.append("!%s =%s" % (p[0], self.fresh("r")))
        self.stmts.append("! [%s, 1000] =%s" % (p[0], self.fresh("r")))
        self.feat.add("await-twice")

    def echo(self):
        """a process that receives binaries and returns them concatenated"""
        p = self.fresh("p")
        a, b = self.pick_bin(), self.pick_bin()
        self.stmts.append("%s = @{ !#'bin =m, !#'bin =n, [m, n] __binary_concat__ }" % p)
        self.stmts.append("%s %s" % (a[0], p))
        self.stmts.append("%s %s" % (b[0], p))
        v = self.fresh("b")
        self.stmts.append("!%s =%s" % (p, v))
        self.bins.append((v, a[1] + b[1]))
        self.feat.add("send")

    def filtered(self):
        """select with a receive FILTER: messages [tag, bin]; the receiver first wants tag 2"""
        p = self.fresh("p")
        a, b = self.pick_bin(), self.pick_bin()
        self.stmts.append("%s = @{ ! [#['int, 'bin] { =[2, _] => Ok }] =m, ! [#['int, 'bin]] =n, [m.1, n.1] }" % p)
        order = [(1, a), (2, b)] if self.r.random() < 0.7 else [(2, b), (1, a)]
        for tag, v in order:
            self.stmts.append("[%d, %s] %s" % (tag, v[0], p))
        self.stmts.append("!%s =%s" % (p, self.fresh("r")))
        self.feat.add("filter")

    def filtered_bin(self):
        """filter comparing binary content, a non-matching binary message stays queued"""
        p = self.fresh("p")
        a = self.pick_bin()
        self.stmts.append("%s = @{ ! [#'bin { =0x5a5a => Ok }, 40] =m, !#'bin =n, [m, n] }" % p)
        self.stmts.append("%s %s" % (a[0], p))
        if self.r.random() < 0.6:
            self.stmts.append("0x5a5a %s" % p)
        self.stmts.append("! [%s, 500] =%s" % (p, self.fresh("r")))
        self.feat.add("filter")

    def race(self):
        p1, p2 = self.fresh("p"), self.fresh("p")
        a = self.pick_bin()
        self.stmts.append("%s = @#{ [%s, 0x01] __binary_concat__ }" % (p1, a[0]))
        self.stmts.append("%s = @#{ %s }" % (p2, a[0]))
        self.stmts.append("! [%s, %s] =%s" % (p1, p2, self.fresh("r")))
        if self.allow_f9 and self.r.random() < 0.5:
            self.stmts.append("! [%s, %s, 100] =%s" % (p2, p1, self.fresh("r")))
        self.awaited |= {p1, p2}
        self.procs += [(p1, "result"), (p2, "result")]
        self.feat.add("race")

    def relay(self):
        """a binary goes main -> p -> q -> main (two transfers, a process handle inside a message)"""
        q, p = self.fresh("p"), self.fresh("p")
        a = self.pick_bin()
        self.stmts.append("%s = @{ !#'bin =m, [m, 0x7e] __binary_concat__ }" % q)
        self.stmts.append("%s = @{ !#'bin =m, m %s, m }" % (p, q))
        self.stmts.append("%s %s" % (a[0], p))
        self.stmts.append("!%s =%s" % (q, self.fresh("r")))
        self.procs.append((p, "result"))
        self.awaited.add(q)
        self.feat.add("relay")

    FILTER = "#'bin { =m => { [m, m] __binary_concat__ __binary_length__ { | =0 => [] | =k => Ok } } }"

    def preempt_int(self):
        """select [body-less receiver, FILTER receiver]: an int arriving while the filter runs on a
        binary message completes the select through the earlier source with the message still held"""
        p = self.fresh("p")
        a = self.pick_bin()
        self.stmts.append("%s = @{ ! [#'int, %s] =a, ! [#'bin, 60] =b, ! [#'int, 60] =c, 0 }" % (p, self.FILTER))
        self.stmts.append("%s %s" % (a[0], p))
        self.stmts.append("%d %s" % (self.r.randint(1, 99), p))
        self.stmts.append("!%s =%s" % (p, self.fresh("r")))
        self.feat.add("preempt")

    def preempt_timeout(self):
        """select [timeout, FILTER receiver]: the timeout expires while the filter runs"""
        p = self.fresh("p")
        a = self.pick_bin()
        self.stmts.append("%s = @{ ! [%d, %s] =a, ! [#'bin, 60] =b, 0 }" % (p, self.r.choice([5, 15, 30]), self.FILTER))
        self.stmts.append("%s %s" % (a[0], p))
        self.stmts.append("!%s =%s" % (p, self.fresh("r")))
        self.feat.add("preempt")

    def preempt_proc(self):
        """select [awaited process, FILTER receiver]: the process finishes while the filter runs"""
        q, p = self.fresh("p"), self.fresh("p")
        a = self.pick_bin()
        self.stmts.append("%s = @{ !'int }" % q)
        self.stmts.append("%s = @{ ! [%s, %s] =a, ! [#'bin, 60] =b, 0 }" % (p, q, self.FILTER))
        self.stmts.append("%s %s" % (a[0], p))
        self.stmts.append("%d %s" % (self.r.randint(1, 99), q))
        self.stmts.append("!%s =%s" % (p, self.fresh("r")))
        self.awaited.add(q)
        self.feat.add("preempt")

    MENU = [("preempt_int", 2), ("preempt_timeout", 2), ("preempt_proc", 2), ("concat", 5), ("slice", 5), ("dup", 2), ("drop", 3), ("tuple", 3), ("get", 3), ("closure_call", 3),
            ("tail_loop", 2), ("spawn_captures", 4), ("spawn_arg", 3), ("await_", 5), ("echo", 3), ("filtered", 3),
            ("filtered_bin", 2), ("race", 2), ("relay", 2), ("new_const", 2)]

    def build(self, nstmts, allow_f9):
        names = [m for m, w in self.MENU for _ in range(w)]
        self.allow_f9 = allow_f9
        if allow_f9:
            names += ["await_twice"] * 2
        self.new_const()
        for _ in range(nstmts):
            getattr(self, self.r.choice(names))()
        # result: a tuple of some live binaries so that the result itself holds references
        ks = [self.pick_bin()[0] for _ in range(self.r.randint(1, 3))]
        self.stmts.append("[%s]" % ", ".join(ks))
        return self.stmts


def case_line(src, workers, quantum, sched, trace, persistent=False, repl=None, maxops=6000, clock=0):
    s = "(case (src %s) (workers %d) (quantum %d) (persistent %d) (sched %s) (trace %d) (maxops %d) (clock %d)" % (
        sexpr.quote(src), workers, quantum, 1 if persistent else 0, " ".join(map(str, sched)), 1 if trace else 0, maxops, clock)
    if repl:
        s += " (repl %s)" % " ".join("(%s %s)" % (k, " ".join(map(str, v))) for k, v in repl)
    return s + ")"


STAT = re.compile(r"\(([a-z0-9-]+) ([0-9a-z]+)\)")


def parse_res(line):
    res = line.split("\t", 1)
    head = res[0]
    trace = res[1] if len(res) > 1 else "(trace)"
    m = re.match(r"\(res (\w+) \(detail (\"(?:[^\"\\]|\\.)*\"|\([^)]*\)|[^ ]*)\)", head)
    status = m.group(1) if m else "garbled"
    detail = m.group(2) if m else head[:300]
    stats = dict(STAT.findall(head[head.find("(stats"):])) if "(stats" in head else {}
    return status, detail, stats, trace


def classify(status, detail, stats):
    """-> None (fine) | ('F9'|'resover'|'violation', what)"""
    ledger = stats.get("ledger") == "1"
    if status == "panic":
        if "refcount invariant violated" in detail:
            f9, ro = int(stats.get("f9", "0")), int(stats.get("resover", "0"))
            sf9, sro = int(stats.get("sus-f9", "0")), int(stats.get("sus-resover", "0"))
            if f9 > 0:
                return ("F9", "debug check_refcounts panic after a counted reference held in awaiting/receiving was dropped without release")
            if ro > 0 or (sro > 0 and sf9 == 0):
                return ("resover", "Ok result holding a binary overwritten by a propagated error without release")
            if sf9 > 0:
                return ("F9", "debug check_refcounts panic in the step that dropped a value held in awaiting/receiving")
        return ("violation", "real code panicked: " + detail[:300])
    if status == "oracle":
        return ("violation", "oracle failed on the real code: " + detail[:300])
    if status in ("ok", "limit"):
        if int(stats.get("orphans", "0")) > int(stats.get("orphans-spawn", "0")):
            return ("violation", "heap slots left allocated with count 0 and never queued for reclamation (not explained by spawn_process)")
        if int(stats.get("f9", "0")) > 0 or ledger:
            return ("F9", "a counted reference held in awaiting/receiving was dropped without release (exact count off by exactly that value)")
        if int(stats.get("resover", "0")) > 0:
            return ("resover", "Ok result holding a binary overwritten by a propagated error without release")
        return None
    if status in ("compile", "enverror"):
        return None
    return ("violation", "unexpected harness status %s %s" % (status, detail[:200]))


def run(ctx):
    ok = ctx.coq_props()
    qh = ctx.harness("qv_heap")
    drv = ctx.driver("heap")
    if not qh or not drv:
        return
    if getattr(ctx, "replay_path", None):
        return replay_one(ctx, qh, drv)
    rng = ctx.rng
    base = os.path.dirname(os.path.dirname(os.path.dirname(os.path.abspath(__file__))))

    cases = []   # (line, meta)
    # ---------------- corpus
    corpus_sources = []
    for fn in sorted(os.listdir(os.path.join(base, "corpus"))):
        if not fn.startswith("c06_"):
            continue
        expected = None
        for ln in open(os.path.join(base, "corpus", fn)):
            ln = ln.rstrip("\n")
            if ln.startswith("# expected "):
                expected = ln[len("# expected "):].split("   ")[0].strip()
                continue
            if not ln.strip() or ln.startswith("#"):
                continue
            if ln.startswith("(case"):
                cases.append((ln, {"origin": fn, "kind": "corpus-case", "trace": "(trace 1)" in ln}))
            elif ln.startswith('"'):
                corpus_sources.append((fn, sexpr.parse(ln), expected))
                expected = None
    for fn, src, expected in corpus_sources:
        if "scale" in fn:
            # large transfers: big quantum, no per-instruction trace (the oracle still runs after every step)
            for w, q in ((2, 1000), (1, 1000)):
                cases.append((case_line(src, w, q, [0, 1, 2], False, maxops=60000), {"origin": fn, "kind": "corpus-src", "src": src,
                                                                                     "workers": w, "quantum": q, "trace": False}))
            continue
        for w, q in ((1, 1), (2, 1), (2, 3)):
            cases.append((case_line(src, w, q, [0, 1, 1, 0, 2], q == 1), {"origin": fn, "kind": "corpus-src", "src": src,
                                                                          "workers": w, "quantum": q, "trace": q == 1}))
    # F28 regression probes: the value must be the expected one (real Environment + Workers)
    f28 = [(fn, s, e) for fn, s, e in corpus_sources if e]
    f28_bad = 0
    if f28:
        qe = ctx.harness("qv_equal")
        if qe:
            rc, out = ctx.run_sharded(qe, [sexpr.quote(s) for _, s, _ in f28], args=["--run", "2"], shards=8, timeout=900)
            for (fn, s, e), o in zip(f28, out):
                if o.strip() != e:
                    f28_bad += 1
                    ctx.violation({"kind": "impl-violation", "what": "binaries sent to / spawned into another process read back wrong (real Environment + Workers)",
                                   "source": s, "expected": e, "got": o, "origin": fn})

    # ---------------- generated programs
    nprog = ctx.n(150, 2500)
    nsched_oracle = ctx.n(5, 24)
    programs = []
    for i in range(nprog):
        g = Gen(rng)
        stmts = g.build(rng.randint(3, 9), allow_f9=(rng.random() < 0.12))
        programs.append((", ".join(stmts), sorted(g.feat), stmts))
    quanta = [1, 1, 2, 3, 5, 7, 1000]
    for pi, (src, feat, stmts) in enumerate(programs):
        # correspondence + oracle at quantum 1 (two worker counts, different schedules)
        for w in (1, rng.choice([2, 3])):
            sched = [rng.randint(0, 5) for _ in range(rng.randint(1, 12))]
            pers = rng.random() < 0.35 and w == 1
            repl = None
            if pers:
                repl = [(rng.choice(["orphans", "compact"]), [rng.randint(0, 40) for _ in range(rng.randint(0, 4))])
                        for _ in range(rng.randint(1, 3))]
            clock = rng.choice([0, 0, 1, 3])
            cases.append((case_line(src, w, 1, sched, True, pers, repl, clock=clock),
                          {"kind": "gen", "prog": pi, "workers": w, "quantum": 1, "sched": sched, "trace": True,
                           "persistent": pers, "repl": repl, "clock": clock}))
        # oracle only: other quanta and schedules
        for _ in range(nsched_oracle):
            w = rng.choice([1, 1, 2, 3])
            q = rng.choice(quanta)
            sched = [rng.randint(0, 5) for _ in range(rng.randint(1, 16))]
            pers = rng.random() < 0.25 and w == 1
            repl = None
            if pers:
                repl = [(rng.choice(["orphans", "compact"]), [rng.randint(0, 40) for _ in range(rng.randint(0, 4))])
                        for _ in range(rng.randint(1, 3))]
            clock = rng.choice([0, 0, 1, 3, 7])
            cases.append((case_line(src, w, q, sched, False, pers, repl, clock=clock),
                          {"kind": "gen", "prog": pi, "workers": w, "quantum": q, "sched": sched, "trace": False,
                           "persistent": pers, "repl": repl, "clock": clock}))

    # ---------------- REPL sessions on the REAL Environment + Workers + Repl (oracle only)
    env_cases = []
    for pi in range(0, len(programs), max(1, len(programs) // ctx.n(45, 600))):
        stmts = programs[pi][2]
        lines, curl = [], []
        for st in stmts:
            curl.append(st)
            if rng.random() < 0.55:
                lines.append(", ".join(curl))
                curl = []
        if curl:
            lines.append(", ".join(curl))
        w = rng.choice([1, 2, 3])
        q = rng.choice([1, 2, 3, 7, 1000])
        sched = [rng.randint(0, 5) for _ in range(rng.randint(2, 12))]
        env_cases.append(("(case %s (workers %d) (quantum %d) (sched %s) (maxops 60000))" % (
            " ".join("(src %s)" % sexpr.quote(l) for l in lines), w, q, " ".join(map(str, sched))),
            {"kind": "repl", "prog": pi, "workers": w, "quantum": q, "sched": sched, "trace": False, "lines": lines}))
    rc, out = ctx.run_sharded(qh, [c for c, _ in cases], shards=16, timeout=1500)
    rce, oute = ctx.run_sharded(qh, [c for c, _ in env_cases], args=["--env"], shards=16, timeout=1500)
    cases = cases + env_cases
    out = out + oute
    # ---------------- model replay of the traced cases
    traced = [i for i, (_, m) in enumerate(cases) if m.get("trace")]
    parsed = [parse_res(o) for o in out]
    tr_lines = [parsed[i][3] for i in traced]
    rc2, mout = ctx.run_sharded(drv, tr_lines, shards=16, timeout=1500)
    model = dict(zip(traced, mout))

    tot = dict(ops=0, steps=0, instructions=0, transfers=0, cross=0, reused=0, reclaimed=0, selects=0, filters=0, preempted=0, orphans=0, repl=0)
    n_ok = n_limit = n_compile = 0
    progs_shared = set()
    progs_reused = set()
    progs_filter = set()
    progs_transfer = set()
    progs_orphans = set()
    progs_repl = set()
    hist_q = {}
    hist_w = {}
    hist_feat = {}
    agree = agree_fixed = disagree = 0
    modes_seen = {}
    ops_compared = 0
    f9_cases = resover_cases = f46_cases = 0
    runs_preempted = 0
    seen_kinds = {}
    suppressed_repeats = 0
    disagree_reported = 0
    distinct = set()
    nontrivial = 0
    samples = []
    bad = 0
    for i, ((line, meta), (status, detail, stats, _)) in enumerate(zip(cases, parsed)):
        pkey = meta.get("prog", meta.get("origin"))
        if status == "compile":
            n_compile += 1
            if meta.get("kind") == "gen":
                # a generated program that does not compile is a generator problem: visible in evidence
                pass
            continue
        n_ok += status == "ok"
        n_limit += status == "limit"
        for k in tot:
            tot[k] += int(stats.get(k, "0"))
        hist_q[meta.get("quantum", "corpus")] = hist_q.get(meta.get("quantum", "corpus"), 0) + 1
        hist_w[meta.get("workers", "corpus")] = hist_w.get(meta.get("workers", "corpus"), 0) + 1
        if stats.get("shared") == "1" or int(stats.get("transfers", "0")) > 0:
            progs_shared.add(pkey)
        if int(stats.get("transfers", "0")) > 0:
            progs_transfer.add(pkey)
        if int(stats.get("reused", "0")) > 0:
            progs_reused.add(pkey)
        if int(stats.get("filters", "0")) > 0:
            progs_filter.add(pkey)
        if int(stats.get("orphans", "0")) > 0:
            progs_orphans.add(pkey)
        if int(stats.get("repl", "0")) > 0:
            progs_repl.add(pkey)
        if int(stats.get("preempted", "0")) > 0:
            runs_preempted += 1
        distinct.add(line)
        if int(stats.get("reclaimed", "0")) > 0 or int(stats.get("transfers", "0")) > 0:
            nontrivial += 1
        if len(samples) < 5 and meta.get("kind") == "gen" and int(stats.get("transfers", "0")) > 0:
            samples.append({"source": programs[meta["prog"]][0], "workers": meta["workers"], "quantum": meta["quantum"],
                            "sched": meta["sched"], "status": status, "stats": stats})
        cl = classify(status, detail, stats)
        if cl is not None:
            seen_kinds[cl[1][:60]] = seen_kinds.get(cl[1][:60], 0) + 1
            if seen_kinds[cl[1][:60]] > 5:
                # same failure class already reported five times with replays: count, do not flood
                suppressed_repeats += 1
                cl = None
        if int(stats.get("orphans-spawn", "0")) > 0:
            # F46 (known): spawn_process injects the whole heap bundle once per capture and once for
            # the argument; the copies it does not reference stay allocated with count 0
            f46_cases += 1
            ctx.violation({"kind": "impl-violation", "what": "spawn_process leaves orphan heap slots (count 0, not freed, not queued)",
                           "case": line, "stats": stats}, finding_key="F46")
        if cl is not None:
            kind, what = cl
            obj = {"kind": "impl-violation", "what": what, "case": line, "detail": detail, "stats": stats}
            if meta.get("kind") in ("gen", "repl"):
                obj["source"] = programs[meta["prog"]][0]
            if kind == "F9":
                f9_cases += 1
                ctx.violation(obj, finding_key="F9")
            elif kind == "resover":
                resover_cases += 1
                ctx.violation(obj, finding_key="F45h")
            else:
                bad += 1
                if meta.get("kind") == "repl":
                    obj["mode"] = "real Environment + Workers + Repl (qv_heap --env)"
                if meta.get("kind") == "gen":
                    obj = shrink(ctx, qh, obj, programs[meta["prog"]][2], meta)
                ctx.violation(obj)
        if i in model:
            m = model[i]
            if m.startswith("(agree"):
                mm = re.match(r"\(agree (\d+) ([\w-]+)\)", m)
                ops_compared += int(mm.group(1))
                if mm.group(2) != "current":
                    # the real code behaves like the model of a PRE-REPAIR variant: a fix was undone
                    agree_fixed += 1
                    modes_seen[mm.group(2)] = modes_seen.get(mm.group(2), 0) + 1
                    ctx.violation({"kind": "correspondence-broken", "correspondence": "HeapVm model (fix_F9 + fix_F46 applied) vs Executor",
                                   "what": "the real executor agrees only with the model of the code before a repair: " + mm.group(2),
                                   "case": line}, no_input=(cl is None))
                else:
                    agree += 1
            elif m.startswith("(empty)"):
                pass
            else:
                disagree += 1
                disagree_reported += 1
                # a disagreement alone is not a violation: the oracle above decides; none found -> no_input
                if disagree_reported <= 5:
                    ctx.violation({"kind": "correspondence-broken", "correspondence": "HeapVm model vs Executor state after every operation",
                               "case": line, "model_says": m[:3000], "oracle_on_this_case": status},
                              no_input=(cl is None or cl[0] != "violation"))
    for pi, (src, feat, _) in enumerate(programs):
        for f in feat:
            hist_feat[f] = hist_feat.get(f, 0) + 1
    ctx.cov.update({
        "evaluations": len(cases) - n_compile,
        "distinct_nontrivial": min(nontrivial, len(distinct)),
        "rule": "one evaluation = one (program, worker count, quantum, schedule[, REPL ops]) run on real Executors with the oracle after every operation; non-trivial = the run reclaimed at least one slot or moved a binary between processes; distinct by the full case line",
        "samples": samples,
        "programs": len(programs) + len(corpus_sources),
        "programs_generated": len(programs),
        "repl_sessions_on_real_environment": len(env_cases),
        "repl_lines_evaluated": sum(int(parse_res(o)[2].get("lines", "0")) for o in oute),
        "programs_not_compiling": n_compile,
        "runs_ok": n_ok, "runs_hit_step_limit": n_limit,
        "operations_oracle_checked": tot["ops"], "executor_steps": tot["steps"], "instructions_executed": tot["instructions"],
        "binary_transfers_between_processes": tot["transfers"],
        "slots_reclaimed": tot["reclaimed"], "allocations_reusing_a_freed_slot": tot["reused"],
        "select_instructions": tot["selects"], "receive_filter_invocations": tot["filters"],
        "selects_completed_through_another_source_while_a_filter_held_a_message": tot["preempted"],
        "runs_with_such_a_preempted_filter": runs_preempted, "repl_operations": tot["repl"],
        "programs_sharing_a_binary_between_processes": len(progs_shared),
        "programs_reusing_a_freed_slot": len(progs_reused),
        "programs_through_select_filters": len(progs_filter),
        "programs_with_repl_compaction": len(progs_repl),
        "programs_leaving_orphan_slots_after_spawn": len(progs_orphans), "orphan_slots_total": tot["orphans"],
        "traces_validated_against_impl": agree + agree_fixed,
        "model_operations_compared": ops_compared,
        "model_agrees_with_code_as_committed": agree, "model_agrees_only_with_a_pre_repair_variant": agree_fixed, "pre_repair_modes_seen": modes_seen,
        "disagreements_checked": disagree + bad, "repeated_failures_not_re_reported": suppressed_repeats,
        "f9_runs": f9_cases, "f45h_result_overwrite_runs": resover_cases, "f46_orphan_runs": f46_cases, "value_probes_on_real_environment": len(f28), "value_probes_bad": f28_bad,
        "corpus_preemption_probes_that_preempted": sum(1 for (l, m), pr in zip(cases, parsed) if "select_preempt" in str(m.get("origin")) and int(pr[2].get("preempted", "0")) > 0),
        "histogram_quantum": {str(k): v for k, v in sorted(hist_q.items(), key=lambda x: str(x[0]))},
        "histogram_workers": {str(k): v for k, v in sorted(hist_w.items(), key=lambda x: str(x[0]))},
        "histogram_program_features": hist_feat,
    })
    if not ok:
        ctx.violation({"kind": "theorem-broken", "theorem": getattr(ctx, "broken_theorem", "?"),
                       "searched": "%d runs on the real executors, %d oracle failures" % (len(cases), bad)}, no_input=(bad == 0))


def replay_one(ctx, qh, drv):
    """./check C06 --replay <file>: re-run the recorded case on the real code (and the model)."""
    rep = json.load(open(ctx.replay_path))
    line = rep.get("shrunk_case") or rep.get("case")
    if not line:
        ctx.cov.update({"evaluations": 0, "replayed": ctx.replay_path, "note": "replay file holds no case"})
        return
    args = ["--env"] if "Repl" in str(rep.get("mode", "")) else []
    if not args and "(quantum 1)" in line and "(trace 0)" in line:
        line = line.replace("(trace 0)", "(trace 1)")
    rc, out = ctx.run_bin(qh, [line], args=args, timeout=600)
    status, detail, stats, trace = parse_res(out[0]) if out else ("garbled", "", {}, "(trace)")
    cl = classify(status, detail, stats)
    model = ctx.run_bin(drv, [trace], timeout=600)[1] if trace != "(trace)" else ["(empty)"]
    ctx.cov.update({"evaluations": 1, "replayed": ctx.replay_path, "status": status, "detail": detail[:500],
                    "model": model[0][:500] if model else "", "disagreements_checked": 1})
    key = {"F9": "F9", "resover": "F45h"}.get(cl[0]) if cl else None
    if cl is not None:
        ctx.violation({"kind": "impl-violation", "what": cl[1], "case": line, "detail": detail, "stats": stats}, finding_key=key)
    elif model and model[0].startswith("(disagree"):
        ctx.violation({"kind": "correspondence-broken", "case": line, "model_says": model[0][:3000]}, no_input=True)


def shrink(ctx, qh, obj, stmts, meta):
    """greedy: drop statements while the same failure class persists (a statement whose removal
    breaks compilation is kept), then shorten the schedule."""
    def fails(st, sched):
        line = case_line(", ".join(st), meta["workers"], meta["quantum"], sched, False, meta.get("persistent", False), meta.get("repl"),
                         clock=meta.get("clock", 0))
        rc, out = ctx.run_bin(qh, [line], timeout=120)
        if not out:
            return None
        status, detail, stats, _ = parse_res(out[0])
        c = classify(status, detail, stats)
        return (line, detail) if c is not None and c[0] == "violation" else None
    cur, sched = list(stmts), list(meta["sched"])
    budget = 40
    changed = True
    while changed and budget > 0:
        changed = False
        for k in range(len(cur) - 1):
            budget -= 1
            cand = cur[:k] + cur[k + 1:]
            if fails(cand, sched):
                cur = cand
                changed = True
                break
    for cand in ([0], [0, 1], sched[:len(sched) // 2]):
        if fails(cur, cand):
            sched = cand
            break
    r = fails(cur, sched)
    if r:
        obj = dict(obj)
        obj["shrunk_source"] = ", ".join(cur)
        obj["shrunk_case"] = r[0]
        obj["shrunk_detail"] = r[1]
    return obj
