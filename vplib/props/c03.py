"""C03 — results do not depend on scheduling, worker count or quantum (exploration level).

exploration  : generated *confluent* Quiver programs (await trees / chains, pipelines, single-sender
               fan-out, request/reply with per-client reply mailboxes, late awaits, priority await of
               an already-finished process) run on the REAL Environment + Workers + Repl through the
               deterministic simulator qv_sim under seeded random schedules (starvation stretches,
               partial visibility of queued commands/events) x worker counts {1,2,3,5} x quanta
               {1,2,3,7,1000}, plus exhaustive enumeration of short schedule prefixes for the smallest
               scenarios. Per-process results (pids/refs renamed canonically) must equal those of the
               1-worker / quantum-1000 / fair run.
impl oracles : hang (quiescent with the result never delivered / round bound hit), panic or Err from
               Worker::step / Environment::step, check_refcounts + shadow bytes, quiescence.
The Coq protocol model (M-Sys) that replays these traces is pending; no theorem is claimed here."""
import collections, re
from vplib import sexpr, simlib
from vplib.simlib import SimRunner, Summary, case_line, basic_problems

MANIFEST = dict(
    category="proof",
    text="PARTIAL. Coq theorems on the protocol model M-Sys (coq/theories/sys/Proto.v), for every oracle: worker_steps_commute (steps of different workers commute), worker_env_diamond (phase 3: a Worker::step that handles only already-queued commands and an Environment::step that collects from that worker only already-queued events commute, so every pair of independent scheduler actions commutes), placement_irrelevant_local (a time slice depends on its worker only through the ghost stamp of a sent message), single_sender_mailbox_order (with one sender per mailbox the arrival sequence is a prefix of the sender's send sequence under every schedule), message conservation, and the kernel-computed witness of the known finding F72 (the answer to a multi-target await is overtaken by a same-worker completion). NOT proved: the global statement schedule_independence (every confluent program yields the same per-process results under every schedule, worker count and quantum) — its ingredients are proved (`schedule_independence_partial`), the global statement is tested on the real code: generated confluent programs under seeded adversarial schedules x worker counts {1,2,3,5} x quanta {1,2,3,7,1000} and exhaustive short schedule prefixes must reproduce the results of the 1-worker/quantum-1000/fair run. The quantum is not a parameter of the model (a time slice is an input), so quantum independence is covered by the exploration only. The model is tied to the code by replaying qv_sim traces through the extracted model with the state compared after every scheduler action.",
    design_ref="§4, §5 C03",
    note="Trusted: Coq kernel, extraction (ExtrOcamlBasic), OCaml driver, the simulator (harness/src/bin/qv_sim), the trace-to-oracle conversion (vplib/simlib.py), the schedule abstraction of DESIGN §4, generators emit only programs that are confluent by specification. Known finding F72.",
    technique="Coq proof (commutation / placement lemmas on a protocol model) + model/code correspondence by trace replay + bounded schedule exploration of the real runtime, differential against the fair single-worker run",
)

TEMPLATES = simlib.CONFLUENT + [simlib.t_priority_await]


def classify(s, base_obs):
    """Return a list of (kind, detail). Empty = agrees with the baseline and no oracle fails."""
    out = []
    for p in basic_problems(s):
        out.append((p.split(" ")[0], p))
    if s.ok and not out and s.observable() != base_obs:
        out.append(("differs", "per-process results differ from the 1-worker/quantum-1000/fair run"))
    return out


def f72_shape(tp, s, base_obs):
    """NARROW match for F72: the priority-await template, nothing wrong except that the multi-target
    select returned a lower-priority (22/33) result instead of p1's 11, AND that lower-priority
    target runs on the awaiter's own worker (the same-worker direct notification re-runs the select
    before the snapshot of the initial query arrives). Since the repair of F8 (a worker's second
    answer is merged) any other priority inversion is a new defect and is reported."""
    if "!p1 =first" not in str(tp["src"]) or not s.ok or basic_problems(s):
        return False
    obs = s.observable()
    order = re.search(r"! \[p1, (p\d), (p\d)\]", str(tp["src"]))
    for low, var in (("22", "p2"), ("33", "p3")):
        if obs.replace("(i 11) (i %s)" % low, "(i 11) (i 11)") == base_obs and obs != base_obs:
            # spawn order is p1, p2, p3 -> paths 0.0, 0.1, 0.2; a two-target select names only one of p2/p3
            path = {"p2": "0.1", "p3": "0.2"}[var]
            if order is None and "p2 = " not in str(tp["src"]):
                path = "0.1"          # corpus form with only p1 and p3
            return s.placement.get(path) == s.placement.get("0")
    return False


def run(ctx):
    ctx.level = "proof"
    exe = ctx.harness("qv_sim")
    if not exe:
        return
    rng = ctx.rng
    runner = SimRunner(ctx, exe)
    if getattr(ctx, "replay_path", None):
        def kinds_of(obj, s):
            b = runner.one(case_line(obj["program"], 1, 1000, ""))
            return [k for k, _ in classify(s, b.observable() if b.ok else None)]
        simlib.replay(ctx, runner, kinds_of)
        return
    nprog = ctx.n(160, 1500)
    nsched = ctx.n(50, 400)
    progs, seen = [], set()
    # corpus first: lines `(case ...)`; their programs join the generated ones with a pinned schedule
    corpus = []
    for l in simlib.corpus_lines("sim_c03.txt"):
        c = sexpr.parse(l)
        f = {x[0]: x[1:] for x in c[1:]}
        tp = dict(name="corpus", src=f["program"], confluent=True, size={}, nprocs=0)
        corpus.append((tp, l))
    while len(progs) < nprog:
        t = TEMPLATES[len(progs) % len(TEMPLATES)] if rng.random() < 0.5 else rng.choice(TEMPLATES)
        tp = t(rng)
        if tp["src"] in seen and rng.random() < 0.9:
            continue
        seen.add(tp["src"])
        progs.append(tp)
    lines, meta = [], []           # meta: (prog index, cfg, schedule text) ; schedule None = baseline
    all_progs = [tp for tp, _ in corpus] + progs
    for pi, tp in enumerate(all_progs):
        lines.append(case_line(tp["src"], 1, 1000, ""))
        meta.append((pi, (1, 1000), None))
        if pi < len(corpus):
            lines.append(corpus[pi][1])
            cf = {x[0]: x[1:] for x in sexpr.parse(corpus[pi][1])[1:]}
            meta.append((pi, (int(cf["workers"][0]), int(cf["quantum"][0])), "corpus"))
            continue
        for k in range(nsched):
            w, q = simlib.random_cfg(rng)
            sched = "" if rng.random() < 0.08 else simlib.random_schedule(rng)
            lines.append(case_line(tp["src"], w, q, sched))
            meta.append((pi, (w, q), sched))
    # exhaustive short prefixes on the smallest scenarios
    small = sorted(range(len(corpus), len(all_progs)), key=lambda i: (all_progs[i]["nprocs"], len(all_progs[i]["src"])))
    exhaustive = []
    depth = ctx.n(4, 5)
    picked, names = [], set()
    for i in small:                      # smallest scenario of each template first
        if all_progs[i]["name"] not in names:
            names.add(all_progs[i]["name"]); picked.append(i)
    for i in picked[:ctx.n(2, 7)]:
        for q in ([1] if ctx.tier == "quick" else [1, 3]):
            n0 = len(lines)
            for sched in simlib.bfs_schedules(2, depth):
                lines.append(case_line(all_progs[i]["src"], 2, q, sched))
                meta.append((i, (2, q), sched))
            exhaustive.append(dict(program=all_progs[i]["name"], size=all_progs[i]["size"], workers=2, quantum=q,
                                   prefix_depth=depth, schedules=len(lines) - n0, exhaustive=True))
    ok, drv = simlib.proof_layer(ctx)
    res = runner.run(lines)
    base = {}
    failures = collections.OrderedDict()    # (template name, kind, known finding or None) -> list of case indices
    hist_t, hist_w, hist_q = collections.Counter(), collections.Counter(), collections.Counter()
    nontrivial = actions = 0
    distinct = set()
    for i, (s, (pi, cfg, sched)) in enumerate(zip(res, meta)):
        tp = all_progs[pi]
        if sched is None:
            probs = basic_problems(s)
            if probs:
                failures.setdefault((tp["name"], "baseline", None), []).append(i)
            base[pi] = s.observable() if s.ok else None
            continue
        hist_t[tp["name"]] += 1
        hist_w[cfg[0]] += 1
        hist_q[cfg[1]] += 1
        if s.ok:
            actions += s.stats.get("actions", 0)
            if s.nontrivial():
                nontrivial += 1
                distinct.add(hash((str(tp["src"]), cfg, sched)))
        for kind, _ in classify(s, base.get(pi)):
            fk = None
            if kind == "differs" and f72_shape(tp, s, base.get(pi)):
                fk = "F72"
            elif simlib.f71_shape(s):
                fk = "F71"
            key = ("*", kind, fk) if fk else (tp["name"], kind, None)
            failures.setdefault(key, []).append(i)
    # report (shrunk) failures
    known_hits = collections.Counter()
    for (tname, kind, fk), idxs in failures.items():
        # one (shrunk) replay per (template, kind, finding) group; the group size is recorded in it
        i = min(idxs, key=lambda k: len(lines[k]))
        pi, cfg, sched = meta[i]
        tp = all_progs[pi]
        b = base.get(pi)
        obj = replay_object(runner, tp, lines[i], kind, res[i], b, len(idxs), lambda x, b=b: [k for k, _ in classify(x, b)] if kind != "baseline" else (["baseline"] if basic_problems(x) else []))
        if fk:
            known_hits[fk] += len(idxs)
            obj["finding"] = fk
        ctx.violation(obj, finding_key=fk)
    ctx.cov.update({
        "evaluations": len(lines), "programs": len(all_progs), "schedules_per_program": nsched,
        "actions_executed": actions, "distinct_nontrivial": len(distinct), "nontrivial_schedules": nontrivial,
        "rule": "a schedule is non-trivial when it contains a partial-visibility action ((w i k) with k < queued commands, (e k..) hiding a queued event) or a starvation stretch (an enabled component not scheduled for >= 3 consecutive actions); distinct by (program, configuration, schedule)",
        "templates": dict(hist_t), "worker_counts": {str(k): v for k, v in hist_w.items()}, "quanta": {str(k): v for k, v in hist_q.items()},
        "exhaustive": exhaustive, "corpus_cases": len(corpus),
        "failing_groups": {"%s/%s%s" % (t, k, "/" + f if f else ""): len(v) for (t, k, f), v in failures.items()},
        "known_finding_hits": dict(known_hits),
        "samples": [lines[1], lines[2], res[2].line[:400]] if len(lines) > 2 else [],
        "disagreements_checked": sum(len(v) for v in failures.values()),
    })
    if drv:
        nrandom = len(corpus) * 2 + len(progs) * (nsched + 1)
        step = max(1, nrandom // ctx.n(36, 600))
        simlib.correspondence(ctx, exe, drv, [lines[i] for i in range(0, nrandom, step)], lambda s: basic_problems(s))
    if not ok:
        simlib.theorem_broken(ctx, sum(len(v) for k, v in failures.items() if k[2] is None))


def replay_object(runner, tp, line, kind, s, base_obs, count, kinds_of):
    """Confirm by re-running, obtain the explicit schedule, shrink it with ddmin."""
    again = [runner.one(line) for _ in range(2)]
    repro = sum(1 for a in again if kind in kinds_of(a))
    es, actions = runner.explicit_schedule(line)
    c = sexpr.parse(line)
    f = {x[0]: x[1:] for x in c[1:]}
    workers, quantum = int(f["workers"][0]), int(f["quantum"][0])
    shrunk, ok = actions, False
    if actions and kind in kinds_of(es):
        shrunk, ok = simlib.shrink_schedule(runner.run, f["program"], workers, quantum, simlib.schedule_text(f.get("opts", [])),
                                            actions, lambda x: kind in kinds_of(x))
    final = runner.one(case_line(f["program"], workers, quantum, simlib.schedule_text(shrunk), simlib.schedule_text(f.get("opts", [])))) if ok else s
    return {
        "kind": "impl-violation", "what": kind, "template": tp["name"], "size": tp["size"],
        "program": f["program"], "workers": workers, "quantum": quantum,
        "original_case": line, "cases_with_this_failure": count, "reproduced": "%d/2" % repro,
        "schedule": simlib.schedule_text(shrunk) if ok else f.get("schedule"), "schedule_shrunk": ok,
        "replay_case": case_line(f["program"], workers, quantum, simlib.schedule_text(shrunk) if ok else simlib.schedule_text(f.get("schedule", []))),
        "expected_observable": base_obs, "observed": (final.line if final.ok else s.line)[:3000],
        "how_to_replay": "echo '<replay_case>' | .cache/cargo-target/debug/qv_sim --trace",
    }
