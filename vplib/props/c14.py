"""C14 — a resource is usable only by its single owner and is closed exactly once.

theorem layer : coq/theories/props/C14.v (model res/Own.v: the ownership automaton of
                environment.rs — resource_ownership, handle_effect_request, handle_effect_completion,
                give_resources / transfer_resource_ownership, handle_spawn/handle_deliver,
                watch_resource_owner, cleanup_process_resources on ProcessResults and on
                ProcessTerminated — with the EffectBackend as a logged oracle)
correspondence: generated Quiver programs (<= 4 processes, <= 3 resources; handles passed bare, nested in
                tuples, inside closures, as spawn captures / arguments, as process results; left unread in
                mailboxes; owners awaited or not; uses and re-sends after transfer) run by harness qv_own on
                the REAL Environment + 1..3 real Workers under several seeded schedules each (one environment
                event per step, partial command visibility, instruction quantum 1..1000, async
                completions released by the scheduler).  After EVERY environment step the real backend
                calls, the WatchProcess commands sent and the real
                `Environment::verif_dump().resource_ownership` are compared with the extracted model
                replaying the same events.
impl oracle   : the property itself evaluated on the REAL log: owner check at every execute, denied use
                makes no backend call and fails the process, a transfer moves exactly what its initiator
                owns (at any nesting depth), ownership changes only by transfer/creation/cleanup, every new
                owner is watched, cleanup closes everything the reported process owns, closed at most once,
                never closed while the owner is alive, every resource of a terminated process — awaited or
                not — closed at quiescence.  F10 (un-awaited owner never cleaned up), F48 (stale handle
                re-registered, closed twice) and F49 (a non-owner's send moved ownership) are repaired in
                /repo: they are violations again and their reproducers are must-pass probes in
                corpus/c14_programs.txt.  F47 (an id absent from the map reaches the backend) stays a known
                finding, routed by its narrow signature."""
import hashlib, json, os
from vplib import sexpr

MANIFEST = dict(
    category="proof",
    text="Coq theorems over every event sequence of a model of the environment's resource-ownership handlers (effect request with owner check, effect completion, owner-checked recursive transfer through tuples and closures on send/spawn, WatchProcess for every new owner, cleanup on ProcessResults and on ProcessTerminated) with the effect backend as a logged oracle: the ownership map is a function; a send/spawn moves exactly the resources it carries (at any nesting depth) that its sender/caller owns, to the recipient, and nothing else changes; a resource leaves its owner only by the owner's own transfer or cleanup; ownership changes only by transfer, creation or cleanup; every execute on a resource present in the map comes from its owner and a denied request makes no backend call; close_resource is called only from the cleanup of a terminated owner, for everything it owns, and at most once per resource (given a backend that never reuses ids); every owner is watched, hence in every quiescent state no terminated process — awaited or not — owns a resource. Excluded class, refuted on the model AND reproduced on the real code: F47 (an id absent from the map bypasses the owner check and reaches the backend). Validated, not proved: that the model is the code (step-by-step differential execution of the extracted model against the real Environment + Workers on generated programs and schedules, plus the property oracles evaluated on the real backend log).",
    design_ref="§5 C14",
    note="Persistent (root/REPL) processes that sleep and are resumed are outside the model (the root is treated as alive unless it failed). What a backend does with a closed descriptor is outside (quiver-io not modelled; its ids are never reused, which is the freshness hypothesis of closed_at_most_once). The boolean give_resources returns (whether to send WatchProcess) is specified in the model on the pre-state rather than accumulated along the traversal; the per-step comparison of the WatchProcess commands ties it to the code. That a worker answers every WatchProcess of a terminated process (worker.rs check_completed_processes) is the quiescence notion of the closed-after-termination theorem, observed by the harness, not modelled. Trusted: Coq kernel, extraction (ExtrOcamlBasic), OCaml driver, Rust harness (in-memory transports, scheduler, instrumented backend), Python generator/oracles.",
    technique="Coq proof on an ownership automaton + step-by-step model/code correspondence on a deterministic single-threaded simulation of the real Environment and Workers + property oracles on the real backend log",
)

# finding keys (ids assigned by the maintainer; signatures implemented in `oracle` below)
KNOWN_STALE_USE = "F47"          # execute on an id absent from resource_ownership

HEADER = ("'h = \\TestRes, 'm = H['h] | T[['h, 'int]] | D[[['h, 'int], 'int]] | F[(#[] -> 'h)] "
          "| G[[(#[] -> 'h), 'int]] | P['h, 'h] | N['int]")
DUMMY = "0 { =1 => !#'m, Ok | Ok }"
RECV = ("! [#'m { =N[_] => [] | Ok }] { =H[x] => x | =T[[x, _]] => x | =D[[[x, _], _]] => x "
        "| =F[g] => g | =G[[g, _]] => g | =P[x, _] => x }")


class PGen:
    """Random process tree -> Quiver source. Ownership is only *tracked loosely* here (to make most
    operations legal); outcomes are never predicted: the oracles read the real trace."""

    def __init__(self, rng):
        self.rng = rng
        self.nh = self.ng = self.np = self.nres = 0
        self.sent_to = {}
        self.expect = {}

    def h(self):
        self.nh += 1
        return "h%d" % self.nh

    def mode_n(self, fail_p):
        r = self.rng.random()
        mode = 2 if r < fail_p else 3 if r < 2 * fail_p else 1 if r < 2 * fail_p + 0.35 else 0
        return mode + 4 * self.rng.randrange(6)

    def wrap(self, shape, var, var2, pre):
        if shape == "H":
            return "H[%s]" % var
        if shape == "T":
            return "T[[%s, %d]]" % (var, self.rng.randrange(9))
        if shape == "D":
            return "D[[[%s, 1], 2]]" % var
        if shape == "P":
            return "P[%s, %s]" % (var, var2)
        self.ng += 1
        g = "g%d" % self.ng
        pre.append("%s = #{ %s }" % (g, var))
        return "F[&%s]" % g if shape == "F" else "G[[&%s, 3]]" % g

    def proc(self, me, depth, visible, inherited, first=()):
        rng = self.rng
        out = ["s%d = &." % me, DUMMY] + list(first)
        mine, stale, children = list(inherited), [], []
        if me != 0:
            self.expect[me] = rng.choice([0, 0, 0, 1, 1, 2])
        todo_recv = self.expect.get(me, 0)

        def recv():
            v = self.h()
            out.append("%s =('h)%s" % (RECV, v))
            mine.append(v)

        def targets():
            return visible + [(c[0], c[1]) for c in children]

        for _ in range(rng.randint(2, 6)):
            ops = []
            if self.nres < 3:
                ops += ["open"] * 3
            if mine:
                ops += ["use"] * 3
                if self.nres < 3:
                    ops.append("accept")
            if self.np < 3 and depth < 2:
                ops += ["spawn"] * 3
            if mine and targets():
                ops += ["send"] * 3
            elif stale and targets() and rng.random() < 0.25:
                ops.append("send")
            if todo_recv:
                ops += ["recv"] * 2
            if stale:
                ops.append("stale_use")
            if any(not c[2] for c in children):
                ops.append("await")
            if not ops:
                break
            op = rng.choice(ops)
            if op == "open":
                v = self.h()
                self.nres += 1
                out.append("%s = %d __res_open__" % (v, self.mode_n(0.03)))
                mine.append(v)
            elif op == "use":
                out.append("[%s, %d] __res_use__" % (rng.choice(mine), self.mode_n(0.04)))
            elif op == "stale_use":
                out.append("[%s, %d] __res_use__" % (rng.choice(stale), self.mode_n(0.0)))
            elif op == "accept":
                v = self.h()
                self.nres += 1
                out.append("%s = [%s, %d] __res_accept__" % (v, rng.choice(mine), self.mode_n(0.03)))
                mine.append(v)
            elif op == "recv":
                todo_recv -= 1
                recv()
            elif op == "await":
                c = rng.choice([c for c in children if not c[2]])
                c[2] = True
                self.emit_await(out, c, stale)
            elif op == "send":
                ts = targets()
                # prefer a target that still expects a handle
                pref = [t for t in ts if self.sent_to.get(t[1], 0) < self.expect.get(t[1], 1)]
                tv, ti = rng.choice(pref or ts)
                from_stale = stale and (not mine or rng.random() < 0.12)
                var = rng.choice(stale if from_stale else mine)
                shape = rng.choice(["H", "H", "T", "D", "F", "G", "P"])
                var2 = rng.choice(mine + stale) if shape == "P" else None
                pre = []
                msg = self.wrap(shape, var, var2, pre)
                out.extend(pre)
                out.append("%s %s" % (msg, tv))
                self.sent_to[ti] = self.sent_to.get(ti, 0) + 1
                for x in (var, var2):
                    if x in mine:
                        mine.remove(x)
                        stale.append(x)
            elif op == "spawn":
                self.np += 1
                ci = self.np
                form = rng.choice(["none", "none", "cap", "arg", "argt", "clo", "tup"]) if mine else "none"
                first, head, inh = [], "@{ ", []
                if form != "none":
                    var = rng.choice(mine)
                    mine.remove(var)
                    stale.append(var)
                    nv = self.h()
                    inh = [nv]
                    if form == "cap":
                        first = ["%s =%s" % (var, nv)]
                    elif form == "arg":
                        head, first = "%s @'h { " % var, ["$ =%s" % nv]
                    elif form == "argt":
                        head, first = "[%s, 5] @['h, 'int] { " % var, ["$0 =%s" % nv]
                    elif form == "clo":
                        self.ng += 1
                        out.append("g%d = #{ %s }" % (self.ng, var))
                        first = ["g%d =%s" % (self.ng, nv)]
                    elif form == "tup":
                        self.ng += 1
                        out.append("t%d = [[%s, 1], 2]" % (self.ng, var))
                        first = ["t%d =[[%s, _], _]" % (self.ng, nv)]
                vis = visible + [("s%d" % me, me)] + [(c[0], c[1]) for c in children]
                body, result_is_handle = self.proc(ci, depth + 1, vis, inh, first)
                out.append("p%d = %s%s }" % (ci, head, body))
                children.append(["p%d" % ci, ci, False, result_is_handle])
        # tail: outstanding receives, uses of what arrived, awaits, result
        if me == 0:
            got = self.sent_to.get(0, 0)
            todo_recv = max(0, got + rng.choice([0, 0, 0, -1, 1]) if got else 0)
        for _ in range(todo_recv):
            recv()
            if rng.random() < 0.6:
                out.append("[%s, %d] __res_use__" % (mine[-1], self.mode_n(0.02)))
        for c in children:
            if not c[2] and rng.random() < 0.65:
                c[2] = True
                self.emit_await(out, c, stale)
        if stale and rng.random() < 0.12:
            out.append("[%s, %d] __res_use__" % (rng.choice(stale), self.mode_n(0.0)))
        if mine and me != 0 and rng.random() < 0.15:
            out.append(rng.choice(mine))
            return ", ".join(out), True
        out.append("7")
        return ", ".join(out), False

    def emit_await(self, out, c, stale):
        if c[3]:
            v = self.h()
            out.append("!%s =%s" % (c[0], v))
            stale.append(v)      # the awaited process's resources are closed when its result arrives
        else:
            out.append("!%s" % c[0])


def gen_program(rng):
    g = PGen(rng)
    body, _ = g.proc(0, 0, [], [])
    return "%s, main = #{ %s }, main" % (HEADER, body)


def case_line(src, workers, seed, nsched):
    return "(case (workers %d) (seed %d) (nsched %d) (src %s))" % (workers, seed, nsched, sexpr.quote(src))


def dump(x):
    return x if isinstance(x, str) else "(" + " ".join(dump(y) for y in x) + ")"


def rids_in(v, depth=0, acc=None):
    """[(rid, nesting depth)] of the resource ids inside a dumped value"""
    acc = [] if acc is None else acc
    if isinstance(v, list) and v:
        if v[0] == "res":
            acc.append((v[1], depth))
        else:
            for f in v[1:]:
                rids_in(f, depth + 1, acc)
    return acc


def section(run, name):
    for it in run[1:]:
        if isinstance(it, list) and it and it[0] == name:
            return it[1:]
    return []


def norm_calls(calls):
    execs = [c[:3] for c in calls if c[0] == "exec"]
    closes = sorted((c for c in calls if c[0] == "close"), key=lambda c: int(c[1]))
    return execs + closes


def oracle(run, stats):
    """Evaluate C14 on the REAL trace of one run. Returns ([(class, detail, finding_key|None)], classes)."""
    steps = section(run, "steps")
    end = section(run, "end")
    final = section(run, "final")
    status = {p: s for p, s in (section(["x"] + final, "status"))}
    problems = []
    own, term, closed = {}, set(), {}
    awaited_report = set()   # pids listed by some ProcessResults
    denied = []
    classes = {"early": False, "f47": False, "stale-transfer": False}
    for idx, st in enumerate(steps):
        if st[0] == "term":
            term.add(st[1])
            continue
        ev, calls, watches, own_after_l = st[1], st[2][1:], st[3][1:], st[4][1:]
        own_after = {}
        for r, p in own_after_l:
            if r in own_after:
                problems.append(("map-not-a-function", "resource %s listed twice" % r, None))
            own_after[r] = p
        kind = ev[0]
        stats["events"][kind] = stats["events"].get(kind, 0) + 1
        explained = set()
        if kind in ("send", "spawn"):
            vals = [ev[2]] if kind == "send" else ev[3]
            recipient = ev[1] if kind == "send" else ev[2]
            initiator = ev[3] if kind == "send" else ev[1]
            carried = [x for v in vals for x in rids_in(v, 0 if kind == "send" else 1)]
            for r, d in carried:
                stats["depths"][d] = stats["depths"].get(d, 0) + 1
                explained.add(r)
                if r not in own:
                    classes["stale-transfer"] = True
                    stats["transfers_of_absent_id"] += 1
                elif own[r] != initiator:
                    stats["transfers_by_non_owner"] += 1
                # only its owner can give a resource away (F49, repaired); an id that is not
                # registered stays unregistered (F48, repaired)
                expect = recipient if own.get(r) == initiator else own.get(r)
                if own_after.get(r) != expect:
                    problems.append(("transfer-postcondition", "after %s (by %s) owner of %s is %s, expected %s (was %s)" % (dump(ev), initiator, r, own_after.get(r), expect, own.get(r)), None))
                if recipient in term:
                    stats["transfers_to_terminated"] += 1
            if carried:
                stats["transfers"] += 1
        if kind == "eff":
            p, eff = ev[1], ev[2]
            if eff[0] == "use" and eff[1] in own and own[eff[1]] != p:
                stats["denied_uses"] += 1
                denied.append(p)
                if calls:
                    problems.append(("non-owner-reached-backend", "%s by %s while owner is %s made calls %s" % (dump(eff), p, own[eff[1]], dump(calls)), None))
        reported_now = ev[2] if kind == "results" else [ev[1]] if kind == "terminated" else []
        for c in calls:
            if c[0] == "exec":
                p, eff, ans = c[1], c[2], c[3]
                stats["executes"] += 1
                if eff[0] == "use":
                    r = eff[1]
                    if r in own and own[r] != p:
                        problems.append(("non-owner-reached-backend", "execute(%s, %s) while owner is %s" % (p, dump(eff), own[r]), None))
                    elif r not in own:
                        classes["f47"] = True
                        problems.append(("absent-id-reached-backend", "execute(%s, %s): id not in resource_ownership" % (p, dump(eff)), KNOWN_STALE_USE))
                if ans[0] == "now" and isinstance(ans[1], list) and ans[1][0] == "res":
                    explained.add(ans[1][1])
                    if own_after.get(ans[1][1]) != p:
                        problems.append(("creator-not-owner", "resource %s created for %s is owned by %s" % (ans[1][1], p, own_after.get(ans[1][1])), None))
                if ans[0] == "async":
                    stats["async_effects"] += 1
            else:
                r = c[1]
                stats["closes"] += 1
                if kind == "terminated":
                    stats["closes_by_watch_report"] += 1
                explained.add(r)
                if closed.get(r):
                    problems.append(("closed-twice", "close_resource(%s) called again" % r, None))
                closed[r] = closed.get(r, 0) + 1
                o = own.get(r)
                if o is None:
                    problems.append(("closed-without-owner", "close_resource(%s) for an id not in the map" % r, None))
                elif o not in term:
                    problems.append(("closed-while-owner-alive", "close_resource(%s) while its owner %s has not terminated" % (r, o), None))
                if o not in reported_now:
                    problems.append(("close-outside-cleanup", "close_resource(%s) during %s" % (r, dump(ev)), None))
        if kind == "complete" and isinstance(ev[2], list) and ev[2][0] == "res":
            explained.add(ev[2][1])
            if own_after.get(ev[2][1]) != ev[1]:
                problems.append(("creator-not-owner", "completion %s: owner is %s" % (dump(ev), own_after.get(ev[2][1])), None))
        if kind == "results":
            awaited_report.update(ev[2])
        for p in reported_now:
            if p not in term:
                classes["early"] = True
                problems.append(("reported-before-termination", "%s names %s which has not terminated" % (dump(ev), p), None))
            left = [r for r, o in own_after.items() if o == p]
            if left:
                problems.append(("cleanup-incomplete", "after %s process %s still owns %s" % (dump(ev), p, left), None))
            for r, o in own.items():
                if o == p:
                    if ["close", r] not in [c for c in calls if c[0] == "close"]:
                        problems.append(("cleanup-incomplete", "resource %s of reported process %s not closed" % (r, p), None))
                    elif kind == "terminated" and p not in awaited_report:
                        stats["unawaited_owner"] = True
        # frame: ownership changes only by transfer / creation / cleanup; a new owner is watched
        for r in set(own) | set(own_after):
            if own.get(r) != own_after.get(r):
                if r not in explained:
                    problems.append(("unexplained-ownership-change", "%s: %s -> %s during %s" % (r, own.get(r), own_after.get(r), dump(ev)), None))
                if own_after.get(r) is not None and own_after[r] not in watches:
                    problems.append(("new-owner-not-watched", "%s becomes the owner of %s during %s but no WatchProcess is sent (watch %s)" % (own_after[r], r, dump(ev), dump(watches)), None))
        own = own_after
    if end and end[0] == "quiescent":
        for r, p in own.items():
            if p in term:
                stats["leaked_at_quiescence"] += 1
                problems.append(("not-closed-after-termination",
                                 "resource %s still owned by terminated process %s at quiescence" % (r, p), None))
        for p in denied:
            if status.get(p) != "failed":
                problems.append(("denied-use-did-not-fail", "process %s was denied but its final status is %s" % (p, status.get(p)), None))
    if section(["x"] + final, "mail"):
        stats["mailbox_leftover"] = True
    return problems, classes


def corpus(name):
    from vplib.common import VERIF
    p = os.path.join(VERIF, "corpus", name)
    if not os.path.exists(p):
        return []
    return [l.rstrip("\n") for l in open(p) if l.strip() and not l.startswith("#")]


def run(ctx):
    ok = ctx.coq_props()
    qo = ctx.harness("qv_own")
    drv = ctx.driver("own")
    if not qo or not drv:
        return
    rng = ctx.rng
    replaying = getattr(ctx, "replay_path", None)
    cases, kinds = [], []
    if replaying:
        obj = json.load(open(replaying))
        cases.append(case_line(obj["source"], obj.get("workers", 2), obj.get("sched", 0), 1))
        kinds.append("replay")
    else:
        nsched = ctx.n(12, 50)
        for line in corpus("c14_programs.txt"):
            w, src = line.split(" ", 1)
            cases.append(case_line(src, int(w), rng.randrange(1 << 30), nsched))
            kinds.append("corpus")
        for _ in range(ctx.n(240, 2000)):
            src = gen_program(rng)
            cases.append(case_line(src, rng.choice([1, 2, 2, 3]), rng.randrange(1 << 30), nsched))
            kinds.append("generated")
    stats = dict(events={}, depths={}, transfers=0, transfers_of_absent_id=0, transfers_to_terminated=0, denied_uses=0,
                 transfers_by_non_owner=0, closes_by_watch_report=0,
                 executes=0, closes=0, async_effects=0, leaked_at_quiescence=0)
    hist = dict(histories=0, compile_rejected=0, with_unawaited_owner=0, with_mailbox_leftover=0, with_denied_use=0,
                with_absent_id_use=0, with_double_close=0,
                with_transfer_by_non_owner=0)
    ends, quanta, modes, workers_hist = {}, {}, {}, {}
    disagreements = 0
    reported = {}
    nontrivial = set()
    samples = []
    per_case_flags = {}
    total_runs = 0
    BATCH = 250     # programs per batch (bounds memory in the thorough tier)
    for b0 in range(0, len(cases), BATCH):
        batch = cases[b0:b0 + BATCH]
        _, real = ctx.run_sharded(qo, batch, shards=None if len(batch) > 60 else 1)
        runs, run_cases = [], []
        for k, (c, line) in enumerate(zip(batch, real)):
            ci = b0 + k
            if not line.startswith("(runs"):
                hist["compile_rejected"] += 1
                if kinds[ci] != "generated" or line.startswith("(panic"):
                    ctx.violation({"kind": "correspondence-broken", "what": "program did not compile/run in the harness", "case": c, "impl": line}, no_input=True)
                continue
            hist["histories"] += 1
            for r in sexpr.parse(line)[1:]:
                runs.append(r)
                run_cases.append(ci)
        _, model = ctx.run_sharded(drv, [dump(r) for r in runs])
        total_runs += len(runs)
        for r, m, ci in zip(runs, model, run_cases):
            flags = per_case_flags.setdefault(ci, set())
            end = dump(section(r, "end")[0]) if section(r, "end") else "?"
            ends[end.split(" ")[0].strip("()")] = ends.get(end.split(" ")[0].strip("()"), 0) + 1
            q = section(r, "quantum")
            if q:
                quanta[q[0]] = quanta.get(q[0], 0) + 1
                modes[section(r, "mode")[0]] = modes.get(section(r, "mode")[0], 0) + 1
            src = sexpr.parse(cases[ci])
            wk = section(src, "workers")[0]
            workers_hist[wk] = workers_hist.get(wk, 0) + 1
            replay_obj = {"source": section(src, "src")[0], "workers": int(wk), "sched": int(section(r, "sched")[0])}
            # ---- model vs real, step by step
            steps = section(r, "steps")
            bad = None
            try:
                mm = sexpr.parse(m)
                msteps = section(mm, "steps")
                if mm[0] != "model" or len(msteps) != len(steps):
                    bad = "model output shape"
                else:
                    for i, (a, b) in enumerate(zip(steps, msteps)):
                        if a[0] == "term":
                            if a != b:
                                bad = "step %d" % i
                        elif a[1] != b[1] or norm_calls(a[2][1:]) != norm_calls(b[2][1:]) or a[3] != b[3] or a[4] != b[4]:
                            bad = "step %d: real %s / model %s" % (i, dump(a), dump(b))
                        if bad:
                            break
                    if not bad and section(["x"] + section(r, "final"), "own") != section(["x"] + section(mm, "final"), "own"):
                        bad = "final ownership map"
            except Exception as e:  # unparsable driver output
                bad = "model output unparsable: %s" % e
            # ---- the property on the real log
            st_before = dict(stats)
            local = dict(stats, unawaited_owner=False, mailbox_leftover=False)
            problems, classes = oracle(r, local)
            # the checker's class signatures must be the Coq monitors' (res/Own.v early_reportb / KnownF47 / stale_transferb)
            if not bad:
                try:
                    mc = {k: v == "true" for k, v in section(mm, "classes")}
                    if any(mc[k] != classes[k] for k in classes) or not mc["fresh"]:
                        bad = "class monitors: checker %s / Coq %s" % (classes, mc)
                except Exception as e:
                    bad = "model classes unparsable: %s" % e
            for k in stats:
                stats[k] = local[k]
            if local["unawaited_owner"]:
                flags.add("unawaited")
            if local["mailbox_leftover"]:
                flags.add("mailbox")
            if local["denied_uses"] > st_before["denied_uses"]:
                flags.add("denied")
            if local["transfers_by_non_owner"] > st_before["transfers_by_non_owner"]:
                flags.add("foreign")
            for cls, detail, key in problems:
                if cls == "absent-id-reached-backend":
                    flags.add("absent")
                if cls == "closed-twice":
                    flags.add("double")
                n = reported.get(cls, 0)
                reported[cls] = n + 1
                if n < 3:
                    ctx.violation(dict(replay_obj, kind="impl-violation", oracle=cls, what=detail, run=dump(r)), finding_key=key)
            if bad:
                disagreements += 1
                if disagreements <= 3 and not any(k is None for _, _, k in problems):
                    ctx.violation(dict(replay_obj, kind="correspondence-broken",
                                       correspondence="res/Own.v step vs environment.rs handle_event (ownership map and backend calls after every event)",
                                       what=bad, impl=dump(r), model=m), no_input=True)
            text = dump(steps)
            if local["transfers"] > st_before["transfers"] and (local["closes"] > st_before["closes"] or "denied" in flags or local["leaked_at_quiescence"] > st_before["leaked_at_quiescence"]):
                nontrivial.add(hashlib.sha1(text.encode()).hexdigest())
            if len(samples) < 3 and len(steps) > 8:
                samples.append({"source": replay_obj["source"], "workers": replay_obj["workers"], "real_run": dump(r)[:3000], "model": m[:3000]})
    for ci, flags in per_case_flags.items():
        hist["with_unawaited_owner"] += "unawaited" in flags
        hist["with_mailbox_leftover"] += "mailbox" in flags
        hist["with_denied_use"] += "denied" in flags
        hist["with_absent_id_use"] += "absent" in flags
        hist["with_double_close"] += "double" in flags
        hist["with_transfer_by_non_owner"] += "foreign" in flags
    if replaying:
        print("replay: %s" % real)
    steps_total = sum(stats["events"].values())
    ctx.cov.update({
        "evaluations": 2 * total_runs,
        "distinct_nontrivial": len(nontrivial),
        "rule": "a run (program x schedule) is non-trivial when its real trace contains an ownership transfer carrying a resource AND (a cleanup that closes a resource OR a use denied to a non-owner OR a resource left with a terminated owner at quiescence); distinct by SHA-1 of the real step sequence",
        "samples": samples,
        "traces_validated_against_impl": total_runs,
        "disagreements_checked": disagreements,
        "histories": hist,
        "schedules_run": total_runs,
        "environment_steps_compared": steps_total,
        "events_by_kind": stats["events"],
        "nesting_depth_of_transferred_handles": stats["depths"],
        "real_log": {k: v for k, v in stats.items() if k not in ("events", "depths")},
        "oracle_findings_by_class": reported,
        "run_end": ends, "quantum": quanta, "scheduler_mode": modes, "workers": workers_hist,
    })
    if not ok:
        ctx.violation({"kind": "theorem-broken", "theorem": getattr(ctx, "broken_theorem", "?"),
                       "searched": "%d runs on the real code, %d model disagreements, oracle classes %s" % (total_runs, disagreements, reported)},
                      no_input=not any(True for _ in ctx.violations))
