"""C09 — assignability implies containment; overlap detection is complete.

theorem layer : coq/theories/props/C09.v
correspondence: model (Types.v/Rel.v/Narrow.v, extracted) vs the real `Program::register_*`,
                `is_compatible`, `types_overlap`, `intersect_types`, `compute_complement`,
                `filter_variants_by_field`, `union_type_ids` on generated type graphs: returned
                ids, booleans and the whole registry after the calls are compared.
semantic oracle: the extracted `enum_inhab`/`inhabb` of Sem.v (the specification of types as
                sets of values) judge the REAL answers: compat=1 => containment, overlap=0 =>
                disjoint, intersect/complement keep every value that can occur, plus
                reflexivity/transitivity of the real `is_compatible`.
"""
import hashlib, itertools, json, os, re
from vplib import sexpr
from vplib.common import VERIF

MANIFEST = dict(
    category="proof",
    text="partial. Coq theorems (props/C09.v, 37 obligations) on the executable model of check_type_relation (both modes), of the registry and of the narrowing primitives, which mirrors /repo (fix: commits for F7, F12, F25, F25b, F25p, F26, F29, F55, F56, F87 included). PROVED for every registry: compat_sound_partial (is_compatible => containment of values on the cycle-free fragment incl. partial, callable and process types), compat_refl (outright), compat_trans_partial (transitivity on the cycle-free fragment: check_rel computes exactly a transitive reference relation), overlap_complete_partial, overlap_complete_callable_partial and overlap_complete_partial_arms (a `false` of types_overlap proves disjointness; cycle-free ints / bins / refs / resources / tuples / unions, then with callable and process types, then with partial types too - all arms of check_type_relation - over values whose tuples carry each label at most once; without that premise on the values refuted by a witness), intersect_keeps_partial and complement_keeps_partial (intersect_types / compute_complement never drop a value that can occur, for first-order cycle-free operands, the registry after the call extending the one before; complement additionally needs a well-formed registry), intersect_keeps_callable_partial and intersect_keeps_process_partial (the same for two callable / two process operands with first-order cycle-free components - the exact meet built since the F25b repair - with memberships read in the registry after the call), intersect_keeps_partial_pattern and complement_keeps_partial_pattern (narrowing a first-order cycle-free type by a partial pattern type with first-order field types: both the matching and the non-matching branch keep their values; the intersect side over values with distinct labels), filter_keeps_partial (filter_variants_by_field keeps every value whose tested field passed the test), registry monotonicity. REFUTED by vm_compute witnesses replayed on the real code: the findings as found with the repaired answers pinned (F7, F12, F25, F25p, F29, F87) and the open findings F23 (compat_sound on recursive types with shared open subterms) and F24 (complement on recursive unions). NOT proved (validated only): every statement on the RECURSIVE fragment, intersect_keeps / complement_keeps with partial or callable / process types nested inside tuples and unions (a partial pattern at top level and two callable / process operands are proved). Every run ties the model to the code by differential execution on generated type graphs (returned ids, booleans, full registry dumps after intersect / complement / filter / union_type_ids; targeted templates) and judges the REAL functions' answers against the value semantics of Sem.v by exhaustive value enumeration to depth 3 (soundness, overlap completeness, intersect / complement / filter keep values, reflexivity / transitivity).",
    design_ref="§5 C09",
    note="Trusted: Coq kernel, extraction, OCaml driver, Rust harness, generator. The oracle's enumeration is over a small atom universe (one int, one bin, one ref; registered tuple shapes; registered closed callable/process types as function/process values); a dangling Cycle in a RESULT of narrowing is read as `any`, as the code base reads it. Known findings F23-F26 are matched by structural signature only; a failure in the cycle-free first-order fragment is always a violation. A validated repair candidate for F23 exists (hooks/fix_F23.NEEDS_MODEL_FLIP.patch: unedited suite green, oracle failures of F23 vanish on the patched code); it is not applied because the Rel.v model and its proofs must follow first.",
    technique="Coq proof on an executable model + model/code correspondence + semantic oracle by bounded exhaustive enumeration",
)

NAMES = [None, 0, 1, 2]
LABELS = [None, 0, 1]


class Reg:
    """Python mirror of Program::register_* (dedup by structural equality) that records the ops."""

    def __init__(self):
        self.tuples = [(None, ()), ("Ok", ())]
        self.types = []
        self.ops = []

    def tu(self, name, fields):
        fields = tuple(fields)
        self.ops.append("(tu %s%s)" % (fmt(name), "".join(" (%s %d)" % (fmt(l), t) for l, t in fields)))
        key = (name, fields)
        if key in self.tuples:
            return self.tuples.index(key)
        self.tuples.append(key)
        return len(self.tuples) - 1

    def ty(self, t):
        self.ops.append(show_ty(t))
        if t in self.types:
            return self.types.index(t)
        self.types.append(t)
        return len(self.types) - 1


def fmt(x):
    return "-" if x is None else str(x)


def show_ty(t):
    k = t[0]
    if k in ("int", "bin", "ref"):
        return "(%s)" % k
    if k == "partial":
        return "(partial %s%s)" % (fmt(t[1]), "".join(" (%d %d)" % f for f in t[2]))
    if k == "union":
        return "(union%s)" % "".join(" %d" % v for v in t[1])
    if k == "proc":
        return "(proc %s %s)" % (fmt(t[1]), fmt(t[2]))
    return "(%s %s)" % (k, " ".join(str(x) for x in t[1:]))


class Gen:
    """Random closed, contractive type expressions built bottom-up in a Reg. `binders` is the list
    of guardedness flags of the enclosing binders (innermost first)."""

    def __init__(self, rng, reg, profile):
        self.rng, self.reg, self.p = rng, reg, profile
        self.feat = {}

    def note(self, f):
        self.feat[f] = self.feat.get(f, 0) + 1

    def leaf(self, binders):
        r = self.rng.random()
        guarded = [i + 1 for i, g in enumerate(binders) if g]
        if guarded and r < self.p["cycle"]:
            d = self.rng.choice(guarded[:2]) if self.rng.random() < 0.85 else self.rng.choice(guarded)
            self.note("cycle%d" % min(d, 3))
            return self.reg.ty(("cycle", d))
        r = self.rng.random()
        if r < 0.4:
            return self.reg.ty(("int",))
        if r < 0.6:
            return self.reg.ty(("bin",))
        if r < 0.68:
            return self.reg.ty(("ref",))
        # nullary named tuple
        return self.reg.ty(("tuple", self.reg.tu(self.rng.choice([0, 1, 2]), [])))

    def fields(self, depth, binders, n, named):
        labels = self.rng.sample([0, 1, 2], n) if named else [None] * n
        g = [True] * len(binders)
        return [(l, self.gen(depth - 1, g)) for l in labels]

    def gen(self, depth, binders, no_union=False):
        rng = self.rng
        if depth <= 0:
            return self.leaf(binders)
        r = rng.random()
        p = self.p
        if r < p["leaf"]:
            return self.leaf(binders)
        r = rng.random()
        if r < p["union"] and not no_union:
            n = rng.choice([2, 2, 2, 3])
            vs = []
            for _ in range(n):
                v = self.gen(depth - (0 if rng.random() < 0.5 else 1), [False] + binders, no_union=rng.random() < 0.9)
                if v not in vs:
                    vs.append(v)
            self.note("union")
            if any(binders):
                self.note("union_under_ctor")
            return self.reg.ty(("union", tuple(vs)))
        r = rng.random()
        if r < p["partial"]:
            n = rng.choice([1, 1, 2])
            labels = rng.sample([0, 1, 2], n)
            g = [True] * len(binders)
            fs = tuple((l, self.gen(depth - 1, g)) for l in labels)
            self.note("partial")
            return self.reg.ty(("partial", rng.choice([None, None, 0, 1]), fs))
        if r < p["partial"] + p["fn"]:
            g = [True] + [True] * len(binders)
            a = self.gen(depth - 1, g)
            b = self.gen(depth - 1, g)
            rc = self.reg.ty(("union", ())) if rng.random() < 0.7 else self.gen(depth - 1, g)
            self.note("fn")
            return self.reg.ty(("fn", a, b, rc))
        if r < p["partial"] + p["fn"] + p["proc"]:
            g = [True] * len(binders)
            s = self.gen(depth - 1, g)
            rr = self.gen(depth - 1, g)
            self.note("proc")
            return self.reg.ty(("proc", s, rr))
        n = rng.choice([1, 1, 2, 2, 3])
        named = rng.random() < 0.4
        fs = self.fields(depth, binders, n, named)
        self.note("tuple")
        return self.reg.ty(("tuple", self.reg.tu(rng.choice([None, 0, 0, 1]), fs)))


PROFILES = {
    # first-order structural types: the bread and butter (unions under tuples, recursion)
    "fo": dict(leaf=0.25, union=0.45, partial=0.0, fn=0.0, proc=0.0, cycle=0.35),
    "fo_nocycle": dict(leaf=0.25, union=0.5, partial=0.0, fn=0.0, proc=0.0, cycle=0.0),
    "partial": dict(leaf=0.25, union=0.4, partial=0.3, fn=0.0, proc=0.0, cycle=0.2),
    "higher": dict(leaf=0.3, union=0.35, partial=0.05, fn=0.3, proc=0.15, cycle=0.25),
}


def mutate_root(g, rng, reg, root):
    """A near-copy of `root`: same shape with one variant / field changed — makes related pairs
    (the interesting ones for assignability) much more likely than two independent types."""
    t = reg.types[root]
    if t[0] == "union" and len(t[1]) >= 1:
        vs = list(t[1])
        r = rng.random()
        if r < 0.35 and len(vs) > 1:
            vs.pop(rng.randrange(len(vs)))
        elif r < 0.7:
            v = g.gen(2, [False], no_union=True)
            if v not in vs:
                vs.insert(rng.randrange(len(vs) + 1), v)
        else:
            rng.shuffle(vs)
        return reg.ty(("union", tuple(vs)))
    if t[0] == "tuple":
        name, fs = reg.tuples[t[1]]
        if fs:
            fs = list(fs)
            i = rng.randrange(len(fs))
            fs[i] = (fs[i][0], g.gen(2, []))
            return reg.ty(("tuple", reg.tu(name, fs)))
    return g.gen(3, [])


def gen_case(rng, profile_name, max_types=12):
    reg = Reg()
    g = Gen(rng, reg, PROFILES[profile_name])
    roots = []
    tries = 0
    while len(roots) < 4 and tries < 12:
        tries += 1
        if roots and rng.random() < 0.5:
            r = mutate_root(g, rng, reg, rng.choice(roots))
        else:
            r = g.gen(rng.choice([2, 3, 3, 4]), [])
        if r not in roots:
            roots.append(r)
        if len(reg.types) > max_types:
            break
    return reg, roots, g.feat


# ---------------------------------------------------------------- targeted templates
def near_miss(g, rng, reg, t):
    """a type close to `t` but (usually) not assignable to it: same constructor, one component changed"""
    ty = reg.types[t]
    k = ty[0]
    other_leaf = lambda: reg.ty(rng.choice([("int",), ("bin",), ("ref",)]))
    if k in ("int", "bin", "ref"):
        x = other_leaf()
        return x if x != t else reg.ty(("tuple", reg.tu(2, [])))
    if k == "fn":
        r = rng.random()
        if r < 0.5:
            return reg.ty(("fn", ty[1], near_miss(g, rng, reg, ty[2]), ty[3]))
        if r < 0.8:
            return reg.ty(("fn", near_miss(g, rng, reg, ty[1]), ty[2], ty[3]))
        return reg.ty(("fn", ty[1], ty[2], near_miss(g, rng, reg, ty[3])))
    if k == "proc":
        if ty[1] is None or ty[2] is None:
            return other_leaf()
        if rng.random() < 0.5:
            return reg.ty(("proc", near_miss(g, rng, reg, ty[1]), ty[2]))
        return reg.ty(("proc", ty[1], near_miss(g, rng, reg, ty[2])))
    if k == "union":
        vs = list(ty[1])
        extra = g.gen(1, [False], no_union=True)
        if extra not in vs:
            vs.append(extra)          # a strictly wider union is not assignable to the narrower one
        return reg.ty(("union", tuple(vs)))
    if k == "partial":
        fs = list(ty[2])
        if fs:
            i = rng.randrange(len(fs))
            fs[i] = (fs[i][0], near_miss(g, rng, reg, fs[i][1]))
            return reg.ty(("partial", ty[1], tuple(fs)))
        return other_leaf()
    if k == "tuple":
        name, fs = reg.tuples[ty[1]]
        if fs:
            fs = list(fs)
            i = rng.randrange(len(fs))
            fs[i] = (fs[i][0], near_miss(g, rng, reg, fs[i][1]))
            return reg.ty(("tuple", reg.tu(name, fs)))
        return reg.ty(("tuple", reg.tu((name or 0) + 1 if isinstance(name, int) else 1, [])))
    return other_leaf()


def gen_shared_component_case(rng):
    """k same-name, same-arity tuple variants under a union that share one component type (of ANY
    kind) in an early field and differ in a later one; the self side is such a tuple whose shared
    component is a near miss (or the component itself) and whose later field picks a non-first
    variant.  A comparison of the shared pair that fails under the first variant must not be
    remembered when the second variant is tried (F7's shape, for every constructor arm)."""
    reg = Reg()
    kind = rng.choice(["higher", "higher", "partial", "fo", "fo_nocycle"])
    g = Gen(rng, reg, PROFILES[kind])
    shared = g.gen(rng.choice([1, 2, 2]), [])
    if rng.random() < 0.35:
        # force a callable / process component
        a, b = g.gen(1, [True]), g.gen(1, [True])
        shared = reg.ty(("fn", a, b, reg.ty(("union", ())))) if rng.random() < 0.7 else reg.ty(("proc", a, b))
    k = rng.choice([2, 2, 3])
    leaves = [("int",), ("bin",), ("ref",)]
    rng.shuffle(leaves)
    distinct = [reg.ty(l) for l in leaves[:k]]
    name = rng.choice([None, 0, 1])
    pad = rng.random() < 0.3          # a third, common field
    labels = rng.sample([0, 1, 2], 3) if rng.random() < 0.3 else [None, None, None]
    def tup(comp, d):
        fs = [(labels[0], comp), (labels[1], d)] + ([(labels[2], reg.ty(("int",)))] if pad else [])
        return reg.ty(("tuple", reg.tu(name, fs)))
    variants = [tup(shared, d) for d in distinct]
    union = reg.ty(("union", tuple(variants)))
    r = rng.random()
    comp = near_miss(g, rng, reg, shared) if r < 0.7 else (shared if r < 0.85 else g.gen(2, []))
    j = rng.randrange(1, k)
    selfs = [tup(comp, distinct[j])]
    if rng.random() < 0.5:
        selfs.append(tup(comp, distinct[0]))
    qs = []
    for s in selfs:
        if s != union:
            qs += [("compat", s, union), ("overlap", s, union), ("overlap", union, s)]
        for v in variants:
            if v != s:
                qs.append(("compat", s, v))
    if comp != shared:
        qs += [("compat", comp, shared), ("overlap", comp, shared)]
    if selfs[0] != union:
        qs += [("isect", selfs[0], union), ("compl", union, selfs[0])]
    feat = dict(g.feat)
    feat["shared_kind_" + reg.types[shared][0]] = 1
    return reg, qs, feat


def gen_partial_vs_recursive_case(rng):
    """a partial (possibly under a union) against a recursive union whose tuple variant carries the
    partial's label on a back-reference (or on a field containing one); both argument orders,
    overlap and compat.  The tuple's `^` must be resolved against ITS OWN binders."""
    reg = Reg()
    g = Gen(rng, reg, PROFILES["fo"])
    nil = reg.ty(("tuple", reg.tu(rng.choice([0, 1]), [])))
    lab_rec, lab_head = rng.sample([0, 1, 2], 2)
    head = reg.ty(rng.choice([("int",), ("bin",)]))
    r = rng.random()
    if r < 0.5:
        rec_field = reg.ty(("cycle", 1))
    elif r < 0.75:
        # the label sits on a field that CONTAINS the back-reference
        rec_field = reg.ty(("tuple", reg.tu(2, [(None, reg.ty(("cycle", 1)))])))
    else:
        rec_field = reg.ty(("union", (nil, reg.ty(("cycle", 2)))))
    cons_name = rng.choice([2, None])
    fs = [(lab_head, head), (lab_rec, rec_field)]
    if rng.random() < 0.4:
        fs.reverse()
    cons = reg.ty(("tuple", reg.tu(cons_name, fs)))
    extra = [reg.ty(("int",))] if rng.random() < 0.3 else []
    lst = reg.ty(("union", tuple([nil, cons] + extra)))
    # what the partial asks of the labelled field
    r = rng.random()
    if r < 0.35:
        want = nil
    elif r < 0.55:
        want = lst
    elif r < 0.7:
        want = reg.ty(("tuple", reg.tu(2, [(None, nil)])))
    elif r < 0.85:
        want = head
    else:
        want = g.gen(1, [])
    pfields = [(lab_rec, want)]
    if rng.random() < 0.3:
        pfields.append((lab_head, head))
    partial = reg.ty(("partial", rng.choice([None, None, cons_name]), tuple(pfields)))
    side = partial
    if rng.random() < 0.6:
        side = reg.ty(("union", tuple(rng.sample([partial, reg.ty(rng.choice([("int",), ("ref",)]))], 2))))
    qs = []
    for a, b in ((side, lst), (lst, side), (partial, cons), (cons, partial), (cons, side), (partial, lst)):
        if a != b:
            qs += [("overlap", a, b), ("compat", a, b)]
    qs += [("isect", side, lst), ("isect", lst, side)]
    seen, out = set(), []
    for q in qs:
        if q not in seen:
            seen.add(q); out.append(q)
    feat = dict(g.feat)
    feat["partial"] = 1
    return reg, out, feat


def gen_filter_case(rng):
    """filter_variants_by_field: a union of tuple variants whose field at one index has types of different
    width (leaf, union of leaves, nested tuple), filtered by a type that some of them merely overlap."""
    reg = Reg()
    g = Gen(rng, reg, PROFILES[rng.choice(["fo_nocycle", "fo_nocycle", "fo", "partial"])])
    leaves = [reg.ty(("int",)), reg.ty(("bin",)), reg.ty(("ref",)), reg.ty(("tuple", reg.tu(2, [])))]
    def field_type():
        r = rng.random()
        if r < 0.35:
            return rng.choice(leaves)
        if r < 0.8:
            return reg.ty(("union", tuple(rng.sample(leaves, rng.choice([2, 2, 3])))))
        return g.gen(1, [])
    idx = rng.choice([0, 0, 1])
    nvar = rng.choice([2, 2, 3])
    variants = []
    for k in range(nvar):
        name = rng.choice([0, 1, None]) if rng.random() < 0.6 else k
        lab = rng.choice([None, 0])
        fs = [(lab, field_type())] + ([(None if lab is None else 1, field_type())] if idx == 1 or rng.random() < 0.4 else [])
        variants.append(reg.ty(("tuple", reg.tu(name, fs))))
    variants = list(dict.fromkeys(variants))
    parent = reg.ty(("union", tuple(variants))) if len(variants) > 1 else variants[0]
    musts = [rng.choice(leaves), field_type()]
    qs = []
    for m in musts:
        qs.append(("filter", parent, idx, m))
    qs.append(("unionids", variants[0], parent, rng.choice(leaves)))
    feat = dict(g.feat)
    return reg, qs, feat


TEMPLATES = {"shared": gen_shared_component_case, "partial_rec": gen_partial_vs_recursive_case, "filter": gen_filter_case}


def queries_for(rng, roots, nq):
    pairs = [(a, b) for a in roots for b in roots if a != b]
    rng.shuffle(pairs)
    pairs = pairs[:nq]
    qs = []
    for a, b in pairs:
        qs.append(("compat", a, b))
        qs.append(("overlap", a, b))
    # all ordered pairs among the first three roots for transitivity
    tri = roots[:3]
    for a in tri:
        for b in tri:
            if ("compat", a, b) not in qs:
                qs.append(("compat", a, b))
    for a, b in pairs[:3]:
        qs.append(("isect", a, b))
        qs.append(("compl", a, b))
    return qs


def case_line(reg, qs):
    return "(ops %s) (qs %s)" % (" ".join(reg.ops), " ".join("(%s)" % " ".join(str(x) for x in q) for q in qs))


def parse_out(line):
    try:
        parts = sexpr.parse("(" + line + ")")
        d = {p[0]: p[1:] for p in parts}
        return d
    except Exception:
        return None


def reg_text(line):
    i = line.find("(reg ")
    return line[i:] if i >= 0 else None


def type_features(regtext):
    """cheap structural facts about a registry dump: used for the evidence histograms"""
    return {"cycle": "(cycle" in regtext, "partial": "(partial" in regtext, "fn": "(fn" in regtext,
            "proc": "(proc" in regtext, "union": "(union " in regtext}


def union_under_tuple(reg):
    for (name, fs) in reg.tuples:
        for (_, t) in fs:
            if t < len(reg.types) and reg.types[t][0] == "union" and len(reg.types[t][1]) > 0:
                return True
    return False


def query_ids(q):
    """the type ids a query mentions (the field index of a `filter` query is not one)"""
    if q[0] == "filter":
        return [q[1], q[3]]
    return list(q[1:])


def oracle_checks(qs, rs):
    """the checks the REAL answers oblige the semantics to pass"""
    checks, meta = [], []
    for q, r in zip(qs, rs):
        kind = q[0]
        if kind == "compat" and r == "1":
            checks.append("(sound %d %d)" % (q[1], q[2])); meta.append((q, r, (q[1], q[2])))
        elif kind == "overlap" and r == "0":
            checks.append("(disjoint %d %d)" % (q[1], q[2])); meta.append((q, r, (q[1], q[2])))
        elif kind in ("isect", "compl") and isinstance(r, list) and r[0] == "id":
            checks.append("(%s %d %d %s)" % (kind, q[1], q[2], r[1])); meta.append((q, r, (q[1], q[2])))
        elif kind == "filter" and isinstance(r, list) and r[0] == "id":
            checks.append("(filter %d %d %d %s)" % (q[1], q[2], q[3], r[1])); meta.append((q, r, (q[1], q[3])))
    return checks, meta


def load_corpus(name):
    p = os.path.join(VERIF, "corpus", name)
    if not os.path.exists(p):
        return []
    return [l.strip() for l in open(p) if l.strip() and not l.startswith("#")]


def qs_of_line(line):
    parts = sexpr.parse("(" + line + ")")
    for p in parts:
        if p[0] == "qs":
            return [tuple([q[0]] + [int(x) for x in q[1:]]) for q in p[1:]]
    return []


MODEL_CFG = "current"   # which variant of Rel.v mirrors /repo today (see Rel.v: legacy_cfg / f7_cfg / fixed_cfg)


def run(ctx):
    ok = ctx.coq_props()
    qt = ctx.harness("qv_types")
    drv = ctx.driver("types")
    if not qt or not drv:
        return
    rng = ctx.rng
    # ------------------------------------------------------------------ cases
    cases = []      # (line, qs, features, profile)
    expectations = {}
    for line in load_corpus("c09_graphs.txt"):
        k = line.find(" (expect ")
        if k >= 0:
            expectations[len(cases)] = sexpr.parse(line[k + 1:])[1:]
            line = line[:k]
        cases.append((line, qs_of_line(line), {}, "corpus"))
    ncorpus = len(cases)
    n = ctx.n(3000, 60000)
    profs = ["fo"] * 5 + ["fo_nocycle"] * 2 + ["partial"] * 2 + ["higher"] * 2 + ["shared"] * 2 + ["partial_rec"] + ["filter"]
    for i in range(n):
        prof = profs[i % len(profs)]
        if prof in TEMPLATES:
            reg, qs, feat = TEMPLATES[prof](rng)
            feat["uut"] = union_under_tuple(reg)
            cases.append((case_line(reg, qs), qs, feat, prof))
            continue
        reg, roots, feat = gen_case(rng, prof)
        if len(roots) < 2:
            continue
        qs = queries_for(rng, roots, 4)
        feat = dict(feat)
        feat["uut"] = union_under_tuple(reg)
        cases.append((case_line(reg, qs), qs, feat, prof))
    if ctx.tier == "thorough":
        for line, qs in exhaustive_small(ctx, 5):
            cases.append((line, qs, {}, "exhaustive"))
    lines = [c[0] for c in cases]
    impl = run_resilient(ctx, qt, lines)
    rc2, model = ctx.run_sharded(drv, lines, args=["--cfg", MODEL_CFG], timeout=1500)
    # ------------------------------------------------------------------ correspondence
    disagreements = 0
    dis_cases = []
    nonterminating = []     # real code overflowed its stack AND the model ran out of fuel on the same case
    for i, (line, qs, feat, prof) in enumerate(cases):
        if impl[i] == "(crash)" and ("(fuel)" in model[i] or model[i] == "(stack-overflow)"):
            nonterminating.append(i)
        elif impl[i] != model[i]:
            disagreements += 1
            if len(dis_cases) < 5:
                dis_cases.append(i)
    nonterm_unmatched = 0
    for i in nonterminating:
        qids = sorted({x for q in cases[i][1] for x in query_ids(q)})
        key = NONTERM_KEY if reaches_recursive_callable(reg_text(model[i]) or "", qids) else None
        obj = {"kind": "impl-violation", "statement": "check_type_relation does not terminate (stack overflow, process abort) on this type graph; the model runs out of fuel on the same queries",
               "case": cases[i][0], "model_output": model[i], "profile": cases[i][3], "matched_signature": key}
        if key and ctx.findings.get(key, {}).get("status") == "known" and ctx.findings[key].get("property") == ctx.pid:
            ctx.violation(obj, finding_key=key)
        else:
            nonterm_unmatched += 1
            if nonterm_unmatched <= 3:
                ctx.violation(obj)
    # ------------------------------------------------------------------ semantic oracle on the REAL answers
    olines, ometa = [], []
    pairs_checked = triples_checked = 0
    law_failures = []
    for i, (line, qs, feat, prof) in enumerate(cases):
        out = parse_out(impl[i])
        if not out or "rs" not in out or len(out["rs"]) != len(qs):
            continue
        rs = out["rs"]
        checks, meta = oracle_checks(qs, rs)
        ids = sorted({x for q in qs for x in query_ids(q)})
        doms = ["(dom %d)" % t for t in ids]
        olines.append("(oracle %s (depth 3) (cap 300) (checks %s %s))" % (reg_text(impl[i]), " ".join(doms), " ".join(checks)))
        ometa.append((i, ids, meta))
        # reflexivity / transitivity of the real is_compatible
        compat = {(q[1], q[2]): r for q, r in zip(qs, rs) if q[0] == "compat"}
        pairs_checked += len([q for q in qs if q[0] in ("compat", "overlap")])
        for (a, b), r1 in compat.items():
            for (b2, c), r2 in compat.items():
                if b2 == b and (a, c) in compat and a != c:
                    triples_checked += 1
                    if r1 == "1" and r2 == "1" and compat[(a, c)] != "1":
                        law_failures.append((i, "trans", (a, b, c)))
    rc3, oout = ctx.run_sharded(drv, olines, timeout=1500)
    failures = []   # (case index, statement, query, answer, cex, in_domain)
    outside_domain = 0
    for (i, ids, meta), o in zip(ometa, oout):
        po = parse_out(o)
        if not po or "o" not in po:
            failures.append((i, "oracle-error", None, o, None, False))
            continue
        res = po["o"]
        dom = {t: res[k] == "1" for k, t in enumerate(ids)}
        for (q, r, (a, b)), rr in zip(meta, res[len(ids):]):
            if rr == "nodom":
                outside_domain += 1
            elif rr != "ok":
                failures.append((i, q[0], q, r, rr, dom.get(a, False) and dom.get(b, False)))
    # ------------------------------------------------------------------ classify and report
    in_dom = [f for f in failures if f[5]]
    by_kind = {}
    for f in in_dom:
        by_kind[f[1]] = by_kind.get(f[1], 0) + 1
    reported = 0
    known_hits, unmatched = {}, 0
    for f in in_dom:
        i, stmt, q, r, cex, _ = f
        regtext = reg_text(impl[i])
        key = classify_known(regtext, stmt, q[1], q[3] if q and q[0] == "filter" else (q[2] if q else None)) if q else None
        obj = {"kind": "impl-violation", "statement": STATEMENTS.get(stmt, stmt), "query": list(q) if q else None,
               "real_answer": r, "counterexample_value": cex, "case": cases[i][0], "real_output": impl[i],
               "model_output": model[i], "profile": cases[i][3], "matched_signature": key}
        is_known = key is not None and ctx.findings.get(key, {}).get("status") == "known" and ctx.findings[key].get("property") == ctx.pid
        if is_known:
            known_hits[key] = known_hits.get(key, 0) + 1
            ctx.violation(obj, finding_key=key)
        else:
            unmatched += 1
            if reported < 6:
                ctx.violation(obj)
                reported += 1
    for (i, law, ids) in law_failures:
        key = classify_known(reg_text(impl[i]), "trans", ids[0], ids[2]) or classify_known(reg_text(impl[i]), "trans", ids[0], ids[1]) \
            or classify_known(reg_text(impl[i]), "trans", ids[1], ids[2])
        obj = {"kind": "impl-violation", "statement": STATEMENTS["trans"], "ids": list(ids), "case": cases[i][0],
               "real_output": impl[i], "matched_signature": key}
        is_known = key is not None and ctx.findings.get(key, {}).get("status") == "known" and ctx.findings[key].get("property") == ctx.pid
        if is_known:
            known_hits[key] = known_hits.get(key, 0) + 1
            ctx.violation(obj, finding_key=key)
        elif reported < 8:
            ctx.violation(obj)
            reported += 1
    # regression probes (corpus lines carrying `(expect r ..)`): exact answers of the real functions
    for idx, want in expectations.items():
        got = (parse_out(impl[idx]) or {}).get("rs", [])
        if got[:len(want)] != want:
            ctx.violation({"kind": "impl-violation", "statement": "regression probe: the real functions no longer give the pinned (repaired) answers",
                           "case": cases[idx][0], "expected": want, "real_output": impl[idx]})
    for i in dis_cases:
        ctx.violation({"kind": "correspondence-broken", "correspondence": "Rel.v/Narrow.v/Types.v (%s) vs types.rs/narrowing.rs/program.rs" % MODEL_CFG,
                       "case": cases[i][0], "model": model[i], "impl": impl[i]},
                      no_input=not any(f[0] == i for f in in_dom))
    # ------------------------------------------------------------------ evidence
    hist, nontrivial, seen = {}, 0, set()
    kinds = {"cycle": 0, "partial": 0, "fn": 0, "proc": 0, "union": 0, "union_under_tuple": 0}
    for (line, qs, feat, prof) in cases:
        hist[prof] = hist.get(prof, 0) + 1
        tf = type_features(line)
        for k in ("cycle", "partial", "fn", "proc", "union"):
            kinds[k] += 1 if tf[k] else 0
        if feat.get("uut"):
            kinds["union_under_tuple"] += 1
        h = hashlib.sha1(line.encode()).hexdigest()
        if h not in seen:
            seen.add(h)
            if tf["cycle"] or tf["partial"] or feat.get("uut"):
                nontrivial += 1
    ctx.cov.update({
        "evaluations": sum(len(c[1]) for c in cases), "type_graphs": len(cases), "distinct_nontrivial": nontrivial,
        "rule": "type graphs of <= ~14 registered types over 3 tuple names / 3 labels, built through Program::register_* in the model's order; non-trivial = contains a union under a tuple, a cycle or a partial (distinct by SHA-1 of the case line); queried ids are pairwise different",
        "pairs_checked": pairs_checked, "triples_checked_for_transitivity": triples_checked,
        "graphs_by_profile": hist, "graphs_containing": kinds,
        "oracle_checks": sum(len(m[2]) for m in ometa), "oracle_failures_in_domain": by_kind,
        "oracle_failures_matching_known_findings": known_hits, "oracle_failures_unmatched": unmatched,
        "law_failures_transitivity": len(law_failures),
        "oracle_failures_outside_domain": len(failures) - len(in_dom), "oracle_checks_skipped_outside_closedb": outside_domain,
        "real_code_stack_overflows_matched_by_model_fuel_exhaustion": len(nonterminating),
        "traces_validated_against_impl": len(cases) - disagreements, "disagreements_checked": disagreements,
        "samples": [c[0] for c in cases[ncorpus:ncorpus + 3]] + [{"case": cases[-1][0], "impl": impl[-1], "model": model[-1]}],
        "model_variant": MODEL_CFG, "exhaustive": ctx.tier == "thorough",
    })
    if not ok:
        ctx.violation({"kind": "theorem-broken", "theorem": getattr(ctx, "broken_theorem", "?"),
                       "searched": "%d graphs, %d oracle checks on the real answers, %d in-domain failures" % (len(cases), sum(len(m[2]) for m in ometa), len(in_dom))},
                      no_input=(len(in_dom) == 0))


# F55: the Callable arm of check_type_relation records no coinductive assumption, so recursive callable
# types can recurse until the stack overflows (process abort)
NONTERM_KEY = "F55"


def reaches_recursive_callable(regtext, ids):
    """F55's signature: some queried id reaches a Callable from which a Cycle is reachable"""
    try:
        rv = RegView(regtext)
    except Exception:
        return False
    for t in rv.reach(ids):
        if rv.types[t][0] == "fn" and "cycle" in rv.kinds(rv.reach([t])):
            return True
    return False


def run_resilient(ctx, exe, lines, args=()):
    """run_sharded for the harness, surviving a process abort (stack overflow is not a catchable
    panic): the line the process died on yields `(crash)` and the rest of the shard is re-run."""
    import concurrent.futures as cf
    from vplib.common import NCPU

    def run_chunk(chunk):
        out = []
        while len(out) < len(chunk):
            rc, o = ctx.run_bin(exe, chunk[len(out):], args, 1500)
            good = [l for l in o if l.startswith("(ids")]
            out += good[:len(chunk) - len(out)]
            if len(out) < len(chunk) and (rc != 0 or not good):
                out.append("(crash)")
            elif len(out) < len(chunk) and rc == 0:
                out += ["(missing-output)"] * (len(chunk) - len(out))
        return out

    shards = min(NCPU, max(1, len(lines) // 50))
    size = (len(lines) + shards - 1) // shards
    chunks = [lines[i:i + size] for i in range(0, len(lines), size)]
    with cf.ThreadPoolExecutor(max_workers=shards) as ex:
        res = list(ex.map(run_chunk, chunks))
    return [x for r in res for x in r]


STATEMENTS = {
    "compat": "compat_sound: is_compatible a b = true but a value of a is not a value of b",
    "overlap": "overlap_complete: types_overlap a b = false but a value inhabits both",
    "isect": "intersect_keeps: a value of both a and b is not in intersect_types a b",
    "compl": "complement_keeps: a value of o that is not in n is not in compute_complement o n",
    "trans": "compat_trans: is_compatible a b and b c but not a c",
    "filter": "filter_keeps: a value of the parent whose tested field is a value of the tested type is not in filter_variants_by_field's result",
}


# ---------------------------------------------------------------- structural signatures of the known classes
class RegView:
    """parsed registry dump `(reg (tuples ..) (types ..))` with reachability helpers"""

    def __init__(self, regtext):
        r = sexpr.parse(regtext)
        self.tuples = [(t[1], [(f[0], int(f[1])) for f in t[2:]]) for t in r[1][1:]]
        self.types = r[2][1:]

    def children(self, t):
        ty = self.types[t]
        k = ty[0]
        if k == "union":
            return [int(x) for x in ty[1:]]
        if k == "tuple":
            tid = int(ty[1])
            return [f[1] for f in self.tuples[tid][1]] if tid < len(self.tuples) else []
        if k == "partial":
            return [int(f[1]) for f in ty[2:]]
        if k == "fn":
            return [int(x) for x in ty[1:4]]
        if k == "proc":
            return [int(x) for x in ty[1:3] if x != "-"]
        return []

    def reach(self, roots):
        seen, todo = set(), list(roots)
        while todo:
            t = todo.pop()
            if t in seen or t >= len(self.types):
                continue
            seen.add(t)
            todo += self.children(t)
        return seen

    def kinds(self, ids):
        return {self.types[t][0] for t in ids}

    def max_cycle_depth(self, ids):
        return max([int(self.types[t][1]) for t in ids if self.types[t][0] == "cycle"] or [0])

    def free_depth(self, t, memo):
        """how many binders above `t` its deepest escaping Cycle needs (0 = closed)"""
        if t in memo:
            return memo[t]
        memo[t] = 0
        ty = self.types[t]
        if ty[0] == "cycle":
            d = int(ty[1])
        else:
            d = max([self.free_depth(c, memo) for c in self.children(t) if c < len(self.types)] or [0])
            if ty[0] in ("union", "fn"):
                d = max(0, d - 1)
        memo[t] = d
        return d

    def shared_open(self, a, b):
        """an open subterm reachable from both sides, or with two parents in the reachable graph"""
        ra, rb = self.reach([a]), self.reach([b])
        memo = {}
        parents = {}
        for t in ra | rb:
            for c in set(self.children(t)):
                parents.setdefault(c, set()).add(t)
        for t in ra | rb:
            if self.free_depth(t, memo) > 0 and ((t in ra and t in rb) or len(parents.get(t, ())) >= 2):
                return True
        return False

    def label_clash(self, a, b):
        """tuple shapes with equal name and arity but different labels, one on each side"""
        ta = [self.tuples[int(self.types[t][1])] for t in self.reach([a]) if self.types[t][0] == "tuple"]
        tb = [self.tuples[int(self.types[t][1])] for t in self.reach([b]) if self.types[t][0] == "tuple"]
        for (n1, f1) in ta:
            for (n2, f2) in tb:
                if n1 == n2 and len(f1) == len(f2) and [f[0] for f in f1] != [f[0] for f in f2]:
                    return True
        return False

    def partial_names(self, ids):
        return {("named" if self.types[t][1] != "-" else "unnamed") for t in ids if self.types[t][0] == "partial"}


# F25 (fixed dea0269): overlap/intersect were incomplete where a callable or process type is reachable.  (Partial
# types were part of it until fix 7ba69a0 = F25p; they no longer excuse a failure.)
HIGHER = {"fn", "proc"}
# F87 (fixed d6406e8): filter_variants_by_field kept only the variants whose field type is
# ASSIGNABLE to the tested type, dropping e.g. A[x: 'int | 'bin] after `.x ='int` succeeded
FILTER_KEY = "F87"
# F29 (fixed 2932723): unnamed partial accepted where a named partial is expected
PARTIAL_NAME_KEY = "F29"


def classify_known(regtext, stmt, a, b):
    """finding id whose structural signature the failing (statement, a, b) matches, or None.
    Narrow on purpose: a failure in the cycle-free first-order fragment matches nothing."""
    try:
        rv = RegView(regtext)
        ra, rb = rv.reach([a]), rv.reach([b])
    except Exception:
        return None
    both = ra | rb
    kinds = rv.kinds(both)
    cyc = "cycle" in kinds
    if stmt in ("compat", "trans"):
        if cyc and (rv.max_cycle_depth(both) >= 2 or rv.shared_open(a, b)):
            return "F23"
        if not cyc and "unnamed" in rv.partial_names(ra) and "named" in rv.partial_names(rb):
            return PARTIAL_NAME_KEY
        return None
    if stmt == "overlap":
        return "F25" if kinds & HIGHER else None
    if stmt == "isect":
        if kinds & HIGHER:
            return "F25"
        return "F24" if cyc else None
    if stmt == "filter":
        return FILTER_KEY
    if stmt == "compl":
        # F24: the operand `o` (= a) is recursive.  (F26, label-blind subtraction with a cyclic
        # operand, was fixed by f9e893e and no longer excuses anything.)
        if "cycle" in rv.kinds(ra):
            return "F24"
        # F56: `o` is not recursive but `n` (= b) has a callable/process variant with an escaping
        # Cycle: contains_cycle does not look into Callable/Process, so the is_compatible shortcut is
        # applied to the open variant, whose dangling Cycle answers true
        memo = {}
        if any(rv.types[t][0] in ("fn", "proc") and rv.free_depth(t, memo) > 0 for t in rb):
            return "F56"
        if "unnamed" in rv.partial_names(ra) and "named" in rv.partial_names(rb):
            return PARTIAL_NAME_KEY
        return None
    return None


# ---------------------------------------------------------------- exhaustive small scope (thorough)
def exhaustive_small(ctx, max_nodes=5):
    """Every type graph of <= max_nodes registered types over a 2-name / 2-label alphabet:
    leaves int, bin, ^1, ^2; nullary and unary tuples (names 0/1, label none/0), unlabelled pairs
    (name 0), binary unions of earlier nodes.  Nodes pairwise distinct, each used by a later node or
    queried; the two queried ids are the last two nodes.  Yields (line, qs)."""
    def options(k):
        opts = [("int",), ("bin",), ("cycle", 1), ("cycle", 2)]
        for n in (0, 1):
            opts.append(("T", n, ()))
            for l in (None, 0):
                for c in range(k):
                    opts.append(("T", n, ((l, c),)))
        for c1 in range(k):
            for c2 in range(k):
                opts.append(("T", 0, ((None, c1), (None, c2))))
        for c1 in range(k):
            for c2 in range(k):
                if c1 != c2:
                    opts.append(("union", (c1, c2)))
        return opts

    def used(nodes):
        u = set()
        for nd in nodes:
            if nd[0] == "T":
                u |= {c for (_, c) in nd[2]}
            elif nd[0] == "union":
                u |= set(nd[1])
        return u

    def emit(nodes):
        reg = Reg()
        ids = []
        for nd in nodes:
            if nd[0] == "T":
                ids.append(reg.ty(("tuple", reg.tu(nd[1], [(l, ids[c]) for (l, c) in nd[2]]))))
            elif nd[0] == "union":
                ids.append(reg.ty(("union", tuple(ids[c] for c in nd[1]))))
            else:
                ids.append(reg.ty(nd))
        a, b = ids[-2], ids[-1]
        if a == b or len(set(ids)) != len(ids):
            return None
        qs = [("compat", a, b), ("compat", b, a), ("overlap", a, b), ("overlap", b, a), ("isect", a, b), ("compl", a, b)]
        return case_line(reg, qs), qs

    def rec(nodes, n):
        if len(nodes) == n:
            u = used(nodes)
            if all(i in u for i in range(n - 2)):
                r = emit(nodes)
                if r:
                    yield r
            return
        for o in options(len(nodes)):
            yield from rec(nodes + [o], n)

    for n in range(2, max_nodes + 1):
        yield from rec([], n)
