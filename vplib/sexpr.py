"""Tiny s-expression reader: lists -> python lists, atoms/strings -> str."""


def parse(s):
    pos = 0
    n = len(s)

    def skip():
        nonlocal pos
        while pos < n and s[pos].isspace():
            pos += 1

    def item():
        nonlocal pos
        skip()
        if s[pos] == "(":
            pos += 1
            out = []
            while True:
                skip()
                if s[pos] == ")":
                    pos += 1
                    return out
                out.append(item())
        if s[pos] == '"':
            pos += 1
            buf = []
            while s[pos] != '"':
                if s[pos] == "\\":
                    pos += 1
                    buf.append({"n": "\n", "t": "\t", "r": "\r"}.get(s[pos], s[pos]))
                else:
                    buf.append(s[pos])
                pos += 1
            pos += 1
            return "".join(buf)
        start = pos
        while pos < n and not s[pos].isspace() and s[pos] not in "()":
            pos += 1
        return s[start:pos]

    return item()


def quote(s):
    return '"' + s.replace("\\", "\\\\").replace('"', '\\"').replace("\n", "\\n").replace("\t", "\\t").replace("\r", "\\r") + '"'
